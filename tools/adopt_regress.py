#!/usr/bin/env python3
"""Copy the smallest saved input per failure key from replays/<prop>/ into regress/<prop>/ (the seconds-long regression tier).
usage: adopt_regress.py <Cxx> [key-substring ...]"""
import json, glob, os, re, sys
prop = sys.argv[1]; wanted = sys.argv[2:]
seen = {}
for f in sorted(glob.glob(f'/verif/replays/{prop}/*.json'), key=os.path.getsize):
    d = json.load(open(f)); k = d.get('key', '')
    if wanted and not any(w in k for w in wanted): continue
    if k in seen: continue
    seen[k] = (f, d)
os.makedirs(f'/verif/regress/{prop}', exist_ok=True)
for k, (f, d) in seen.items():
    sub = d['subcheck']
    if sub.startswith('survey-'):
        sub = sub[len('survey-'):]; d['subcheck'] = sub
    slug = re.sub(r'[^a-z0-9]+', '-', k.lower())[:70].strip('-')
    out = f'/verif/regress/{prop}/{sub}-{slug}.json'
    json.dump(d, open(out, 'w'))
    print(out, '<-', k)
