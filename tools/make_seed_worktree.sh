#!/bin/bash
# tools/make_seed_worktree.sh <Cxx>  - scratch worktree /tmp/wt/<Cxx> of /repo HEAD for a bug-seeding sub-agent,
# with a self-contained baseline runner (nothing from /verif is visible to the agent).
set -eu
ID="$1"; WT=/tmp/wt/$ID
mkdir -p /tmp/wt
git -C /repo worktree add --detach "$WT" HEAD >/dev/null
mkdir -p "$WT/_baseline" "$WT/_seeded"
python3 -c "import json;json.dump(json.load(open('/root/.vp/BASELINE.json'))['stable_pass'],open('$WT/_baseline/stable_pass.json','w'))"
cat > "$WT/_baseline/run_baseline.sh" <<SH
#!/bin/bash
set -u
cd "$WT"
unset RUSTFLAGS
export CARGO_NET_OFFLINE=true CARGO_TARGET_DIR="$WT/target"
LOG=\$(mktemp "$WT/_baseline/log.XXXXXX")
cargo test --workspace --no-fail-fast --offline >"\$LOG" 2>&1
python3 - "\$LOG" "$WT/_baseline/stable_pass.json" <<'PY'
import json, re, sys
log = open(sys.argv[1], errors="replace").read().splitlines()
base = json.load(open(sys.argv[2]))
crate = None
results = {}
for line in log:
    m = re.search(r"Running (?:unittests )?\S+ \(\S*/debug/deps/([A-Za-z0-9_]+)-[0-9a-f]+\)", line)
    if m:
        crate = m.group(1); continue
    if re.search(r"Doc-tests (\S+)", line):
        crate = None; continue
    m = re.match(r"test (\S+)(?: - should panic)? \.\.\. (ok|FAILED|ignored)", line)
    if m and crate:
        results[f"{crate}::{m.group(1)}"] = m.group(2)
missing = [t for t in base if results.get(t) != "ok"]
print(f"baseline: {len(base)-len(missing)}/{len(base)} stable-pass tests pass with the guard off")
for t in missing[:40]:
    print("  NOT PASSING:", t, results.get(t))
sys.exit(1 if missing else 0)
PY
rc=\$?
rm -f "\$LOG"
exit \$rc
SH
chmod +x "$WT/_baseline/run_baseline.sh"
echo "$WT ready at $(git -C "$WT" rev-parse --short HEAD)"
