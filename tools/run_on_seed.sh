#!/bin/bash
# Apply a seeded patch to /repo, run the quick tier of the given checks, undo the patch.
#   tools/run_on_seed.sh <patch.diff> <Cxx> [<Cxx> ...]
set -u
PATCH="$1"; shift
cd /verif
mkdir -p target
exec 8>target/.repo.lock
flock -x 8
export VERIF_REPO_LOCK_HELD=1
if ! git -C /repo diff --quiet; then echo "RUN_ON_SEED: /repo has uncommitted changes"; exit 2; fi
git -C /repo apply "$PATCH" || { echo "RUN_ON_SEED: patch does not apply to /repo"; exit 2; }
for id in "$@"; do
  out=$(timeout 1500 ./check "$id" quick 2>&1); rc=$?
  viol=$(echo "$out" | grep -c "^VIOLATION")
  keys=$(echo "$out" | grep -o "key=[^ ]*.*" | head -3 | cut -c1-160 | tr '\n' '|')
  echo "RUN_ON_SEED $(basename $(dirname $PATCH)) $id: exit=$rc violations=$viol $keys"
done
git -C /repo checkout -- .
# in a batch (target/.batch_mode exists) the next run rebuilds anyway; otherwise leave a binary built from the clean tree
[ -e target/.batch_mode ] || ./check --build-only >/dev/null 2>&1
