#!/usr/bin/env python3
"""Validate MANIFEST.json and every evidence file against the given schemas (python3-vt has jsonschema)."""
import json, glob, sys, jsonschema
m=json.load(open('/verif/MANIFEST.json')); s=json.load(open('/root/.vp/MANIFEST.schema.json'))
jsonschema.validate(m,s); print("manifest ok: claimed", len(m['checks']), "not_applicable", len(m.get('not_applicable',[])))
es=json.load(open('/root/.vp/EVIDENCE.schema.json'))
for f in sorted(glob.glob('/verif/evidence/*.json')):
    jsonschema.validate(json.load(open(f)),es); print("evidence ok:", f)
