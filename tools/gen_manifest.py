#!/usr/bin/env python3
"""Regenerates /verif/MANIFEST.json from the table below (kept next to the
checks so the manifest never drifts from what is registered in the harness)."""
import json, os, subprocess

HERE = os.path.dirname(os.path.dirname(os.path.abspath(__file__)))

# id -> (level category, technique, level text, level note, design ref)
CHECKS = {
    "C01": ("exploration",
            "property-based round-trip testing (proptest) with an independent expectation model; bounded-exhaustive rotation sweep",
            "Generated instance forests are written by rbx_binary under all three compressions and read back; the decoded DOM is compared, "
            "bit-exactly and under only the normalisations the property names, with an expectation computed from the generated spec through "
            "an independent database resolver. All 3^9 matrices over {-1,0,1} (incl. the 24 bases) are enumerated. Sampling elsewhere: absence "
            "of counter-examples among N cases, with label histograms showing the narrow regions were hit.",
            "trusts: proptest, the harness's own resolver over the public reflection types (cross-checked in C16), lz4/zstd crates",
            "DESIGN.md 2/C01"),
}

NOT_YET = {
}

def main():
    checks = []
    for pid, (cat, tech, text, note, ref) in sorted(CHECKS.items()):
        checks.append({
            "property_id": pid,
            "quick_cmd": f"./check {pid} quick",
            "thorough_cmd": f"./check {pid} thorough",
            "evidence_file": f"/verif/evidence/{pid}.json",
            "replay_cmd_template": f"./check {pid} quick --replay {{path}}",
            "engine": "rbxverif",
            "level_claimed": {"category": cat, "text": text, "design_ref": ref},
            "level_note": note,
            "technique": tech,
        })
    all_ids = [json.loads(l)["id"] for l in open(os.path.join(HERE, "properties.jsonl"))]
    na = []
    for pid in all_ids:
        if pid not in CHECKS:
            na.append({"property_id": pid, "reason": NOT_YET.get(pid, "check not built yet in this session (planned in DESIGN.md section 2); not claimed until it runs clean on the unchanged tree")})
    hooks_commits = []
    try:
        out = subprocess.run(["git", "-C", "/repo", "log", "--format=%H %s"], capture_output=True, text=True).stdout
        for line in out.splitlines():
            sha, _, subj = line.partition(" ")
            if subj.startswith("hook:"):
                hooks_commits.append(sha)
    except Exception:
        pass
    manifest = {
        "version": 1,
        "setup_cmd": "./check --build-only",
        "hooks": {
            "guard": "rbx_dom_verif",
            "enable": "RUSTFLAGS=\"--cfg rbx_dom_verif\" (set by ./check; cfg(rbx_dom_verif) gates every hook in /repo)",
            "baseline_off_cmd": "./baseline_off.sh",
            "source_commits": hooks_commits,
            "add_only": True,
        },
        "engines": [
            {"name": "rbxverif", "path": "/verif/harness", "serves_properties": sorted(CHECKS),
             "kind_free_text": "Rust binary using proptest 1.11 as a library (sharded runners, shrinking, JSON replay files), bounded-exhaustive enumerators, independent reference codecs written from docs/*.md"},
        ],
        "checks": checks,
        "not_applicable": na,
        "notes": "Every check: exit 0 held / exit 1 + 'VIOLATION property=<id> replay=<path>' / exit 2 inconclusive. VERIF_SEED selects the PRNG seed. Known findings: /verif/known_findings.json.",
    }
    with open(os.path.join(HERE, "MANIFEST.json"), "w") as f:
        json.dump(manifest, f, indent=1)
        f.write("\n")

if __name__ == "__main__":
    main()
