#!/usr/bin/env python3
"""Regenerates /verif/MANIFEST.json from the table below (kept next to the
checks so the manifest never drifts from what is registered in the harness)."""
import json, os, subprocess

HERE = os.path.dirname(os.path.dirname(os.path.abspath(__file__)))

# id -> (level category, technique, level text, level note, design ref)
CHECKS = {
    "C01": ("exploration",
            "property-based round-trip testing (proptest) with an independent expectation model; bounded-exhaustive rotation sweep",
            "Generated instance forests are written by rbx_binary under all three compressions and read back; the decoded DOM is compared, "
            "bit-exactly and under only the normalisations the property names, with an expectation computed from the generated spec through "
            "an independent database resolver. All 3^9 matrices over {-1,0,1} (incl. the 24 bases) are enumerated; a fixed list of large cases (values longer than the reader's 64 Ki pre-allocation caps, > 64 Ki instances of one class, "
            "> 64 Ki classes; tables of 255..65 537 shared strings, up to 20 001 property columns on one class, class / property / instance names of up to 70 000 characters, Tags / Attributes values of up to 65 537 entries, and columns of 1..4 097 smallest values - empty text, empty table, absent option - of every variable-size type) and, through the cfg hook, sweeps of the scalar codecs (all 2^32 inputs in the thorough tier) are run. Every entry point and option chain is exercised as the same codec (to_writer / Serializer, from_reader / Deserializer, "
            "settings in either order), one Serializer / Deserializer value is reused for several files, and one case in eight runs after injected failed saves on the same thread. Sampling elsewhere: absence "
            "of counter-examples among N cases, with label histograms showing the narrow regions were hit.",
            "trusts: proptest, the harness's own resolver over the public reflection types (cross-checked in C16), lz4/zstd crates",
            "DESIGN.md 2/C01"),
    "C02": ("exploration",
            "property-based round-trip testing (proptest) over the three option pairings, expectation model computed from the spec",
            "Generated forests restricted to XML-supported types and XML-1.0-legal characters (incl. ']]>', markup, CR/LF, whitespace-only) are written "
            "by rbx_xml and read back under default/default, WriteUnknown+ReadUnknown and NoReflection+NoReflection; the decoded DOM is compared with "
            "an expectation computed from the spec (floats bit-exact unless NaN); a fixed list of large cases (long text / base64 / shared strings / sequences, > 64 Ki instances, and the table / name / smallest-value cases of C01); database-known properties of every class holding a value of another type than declared (outside rbx_xml's documented conversions) must come back unchanged; from_str / *_default entry points and the three option call chains must agree; DoesNotSerialize properties are a side-check "
            "(dropped, or kept as an unknown property, nothing else changes). Sampling: absence of counter-examples among N cases.",
            "trusts: proptest, the harness's database resolver (cross-checked in C16)",
            "DESIGN.md 2/C02"),
    "C03": ("exploration",
            "differential testing of the serializer against an independent decoder written from docs/binary.md, on proptest-generated DOMs",
            "Every file rbx_binary writes for a generated forest (x3 compressions) is parsed by a reference decoder written from docs/binary.md that "
            "shares no code with rbx_binary; structure (header counts, chunk framing/order/multiplicity, one INST per class, one value per instance per "
            "PROP consuming the chunk exactly, PRNT completeness and children-before-parents, SSTR de-duplication, END chunk) and meaning (classes, "
            "hierarchy, serialized names, wire types, values) are compared with the spec; a fixed list of large files (arrays longer than any staging block, big tables, long names, columns of smallest values) goes through the same decoder. Two documented-vs-implemented layout disagreements are open findings.",
            "trusts: docs/binary.md as the specification (points where it is silent or self-contradictory are listed in evidence.assumptions), lz4/zstd block decompression",
            "DESIGN.md 2/C03"),
    "C04": ("exploration",
            "differential testing of the reader against an independent encoder written from docs/binary.md, driven by proptest-generated encoding plans",
            "Generated logical DOMs are rendered by a reference encoder written from docs/binary.md under a generated plan that varies every degree of "
            "freedom the document leaves open (per-chunk compression, INST/PROP order, class ids, sparse referents, PRNT order, META, unknown chunks, "
            "service-format INST, SSTR tables with zero hash fields / duplicate and unreferenced entries / zero entries, narrower legacy numeric columns, truncated / unknown-type PROP chunks); rbx_binary must decode each to the logical DOM.",
            "trusts: docs/binary.md, the implementation's UniqueId/Content.SourceTypes layout (disagreement with the document reported under C03)",
            "DESIGN.md 2/C04"),
    "C05": ("exploration",
            "differential testing both ways against docs/xml.md: an independent XML parser (expat) + value decoder for the writer, an independent document generator for the reader; proptest-generated DOMs and document plans",
            "Writer: every document rbx_xml emits for a generated forest is parsed by Python's expat and decoded by a value decoder written from docs/xml.md (floats decoded exactly from their decimal text); "
            "MUST-level structure and the recovered values are compared with the spec. Reader: generated logical DOMs are rendered under generated document plans by a generator written from docs/xml.md and must "
            "decode to the DOM they describe. The writer is also judged on a fixed list of large documents (values over 64 KiB / 1 MiB, 257-entry tables, 70 000-character names, columns of empty values); the reader is also fed decimals of 80+ digits just above / below the exact midpoint of two neighbouring f32 values (as <float> and as Vector3 / UDim / Color3 components, plain and with an exponent), whose nearest f32 is known by construction. Raw CR in text and non-finite CFrame components spelled inf/NaN are open findings.",
            "trusts: docs/xml.md (MUST-level rules only), Python's xml.etree/expat as the conforming XML parser",
            "DESIGN.md 2/C05"),
    "C06": ("exploration",
            "differential testing of the two codecs against each other on database-driven generated DOMs + exhaustive walk over every (class, property spelling) of the database",
            "Generated DOMs over all 797 database classes and their serializable non-migrating properties (canonical or alias spelling, declared types) are written and read by both codecs; both results "
            "must match the spec-derived expectation, the XML result must be contained in the binary one (extras only as binary-filled defaults), and both conversion chains must lose nothing. Every "
            "(class, inherited property spelling) pair is additionally walked with sampled value pairs.",
            "trusts: the harness's database resolver (cross-checked in C16)",
            "DESIGN.md 2/C06"),
    "C07": ("exploration",
            "metamorphic testing (construction variants, process re-execution, save history incl. injected failed saves, re-save fixed point) on proptest-generated DOMs",
            "The same logical tree built through different insert sequences, property insertion orders and fresh referents (incl. nodes carrying several spellings of one property, and property maps grown and shrunk beforehand; also as parentless trees in a DOM without a root) must serialize to identical bytes (binary x3, XML); a tree saved before and after other saves on "
            "the same thread - successful ones and ones failing inside attribute encoding, on a type mismatch or by an injected sink failure - must give the same bytes; batches are re-serialized in "
            "freshly started processes (own hash seeds) and compared; save(load(save(load(F)))) must equal save(load(F)) for own and foreign files.",
            "trusts: process re-execution as the source of different RandomState seeds",
            "DESIGN.md 2/C07"),
    "C08": ("exploration",
            "metamorphic + round-trip property testing over generated same-class groups and mixed-class families (sibling-order permutations, independence from siblings and from other classes); exhaustive lists of inherited and of all database defaults",
            "Generated groups of 2-6 same-class instances with property subsets spelled through canonical / alias / serializes-as / legacy names: (1) if each serializes alone the group "
            "must serialize in every sibling permutation (all n! up to 4, 24 sampled beyond); (2) after read-back each instance shows its own (migrated where legacy) values and database "
            "defaults / neutral values for what it lacked; (3) what it shows for a lacked property must not change when only the siblings' values change; (4) in files mixing 2-7 instances of related classes every instance reads back what it reads back from a file of its own class only; "
            "(5) every property whose inheriting classes disagree on the database default x all 24 orders of set / lacking instances of two such classes; (6) database-defaults: every (class, canonical property) of the database with a default, stated on the class or inherited (about 6 500 pairs, both sibling orders), must read back that default - found by the harness's own walk up the class chain - for the instance that lacked it, and once more for a class two levels below it in a custom database (bundled database plus two empty subclasses per class) given to both codecs. The two pairs of canonical "
            "properties that share one serialized name in the bundled database are open findings with exhaustive probes.",
            "trusts: PropertyMigration::perform and the BrickColor palette as the definition of a migrated value (their cross-path agreement is C15's subject)",
            "DESIGN.md 2/C08"),
    "C09": ("exploration",
            "model-based (stateful) property testing of operation histories with proptest + bounded-exhaustive enumeration of short histories + fixed large / deep cases",
            "Generated histories of insert/destroy/transfer_within/transfer/clone*/into_raw+from_raw over 1-3 DOMs (arguments always inside the documented "
            "preconditions) are executed on the real WeakDoms; after every step the forest invariants are checked through the public API. All histories of "
            "length <= 2 over every start tree with <= 4 nodes (quick) / length <= 3 over every start tree with <= 3 nodes (thorough) are enumerated exhaustively. Some DOMs and builders draw their referents on freshly spawned threads; large start trees (1023..12 001, thorough ..70 001 instances, "
            "four shapes) go through a fixed 12-step history; destroy / descendants / into_raw on a chain of 100 000 nested instances run in a child process.",
            "trusts: the reference model's reading of the documented operation semantics; the instance set is only fully visible through into_raw (done at the end of every history and as a random step)",
            "DESIGN.md 2/C09-C12"),
    "C10": ("exploration",
            "model-based (stateful) property testing: lock-step diff of the real DOMs against a reference model after every operation",
            "Same histories as C09; after every step every DOM is compared instance by instance (referent, parent, child order, name, class, properties, instance set) "
            "with a plain ordered-tree model executing the documented meaning of the step (a UniqueId that changes without a collision is reported here as well as under C12). Builders are spelled through every builder API variant; start trees of up to 12 001 (thorough 70 001) instances; "
            "transfer / transfer_within on a chain of 100 000 nested instances in a child process. Every documented panic (insert under / destroy / transfer / transfer_within / clone of a referent that does not exist), provoked on throw-away DOMs and caught, may precede any step. Rootless sub-check: histories over a rooted DOM and a WeakDom::default() that holds parentless trees (inserts under the null parent, transfers in and out, clones into it, clone_within on it, destroy), diffed against a second, separate reference model.",
            "trusts: the reference model (about 300 lines, documented semantics only)",
            "DESIGN.md 2/C09-C12"),
    "C11": ("exploration",
            "model-based property testing of clone operations inside generated histories (isomorphism + three-way Ref rule oracle)",
            "Every clone_within / clone_into_external / clone_multiple_into_external inside the C09 histories is bound to its source by a parallel walk and checked for "
            "fresh referents, parentless roots, identical shape/order/names/classes/properties, Refs rewritten by the documented three-way rule, and an untouched source. The three clone operations also run on a chain of 100 000 nested instances in a child process. Rootless sub-check: clones into / within / out of a DOM without a root that already holds instances, with Ref properties set across both DOMs (own small reference model). Ref-fans list: one clone call of each kind over k pointers with k distinct outside targets, half of them in the destination, k around every power of two up to 4 097 (thorough 65 537).",
            "trusts: the reference model's three-way rule taken from the doc comments of clone_into_external / clone_multiple_into_external",
            "DESIGN.md 2/C09-C12"),
    "C12": ("exploration",
            "model-based property testing with an order-agnostic validity predicate for UniqueIds; generated files with duplicate ids; multi-thread stress of UniqueId::now()",
            "C09 histories over instances with UniqueIds from a 4-value pool, plus load-from-file steps; after every step ids are pairwise distinct per DOM, changed only on collision "
            "(group rule that accepts every outcome the statement allows), regenerated ids fresh, freed ids reusable. Files containing duplicate ids are built independently and read by both "
            "readers. UniqueId::now() is hammered from 16 threads (a stress sample, not schedule control). The XML reader defect is an open finding.",
            "trusts: the validity predicate; concurrency part is a stress sample only",
            "DESIGN.md 2/C09-C12"),
    "C13": ("fault_enumeration",
            "mutation fuzzing with the oracle in the target (worker subprocesses + allocation-tracking allocator), exhaustive truncation points, generated read partitions with injected EINTR, write failure injected at every output offset",
            "(1) proptest-generated mutation sequences over valid binary/XML/attribute inputs are decoded in sandboxed worker processes; any panic, abort, single allocation "
            "beyond max(64 MiB, 4096 x input) or reproducible time-out is a violation keyed by site. (2) every strict prefix of generated valid files must be rejected - all cut points "
            "enumerated per file. (3) generated read() partitions incl. one-byte reads and ErrorKind::Interrupted must not change the decoded DOM / the accept-reject verdict. (4) a sink "
            "that fails after k bytes, for every k below the output length, must yield Err. Also: attribute blobs and files of 70 000 / 200 000 incompressible bytes through short and interrupted reads (every format), and arbitrary bytes into the "
            "MaterialColors / Tags blob decoders directly and through a property of a binary / XML file. The XML reader's per-Item recursion (stack overflow on ~20k nested Items) is an open finding.",
            "trusts: the 20 s watchdog as the definition of a hang; the allocator limit as the executable form of 'memory unrelated to the input size'",
            "DESIGN.md 2/C13"),
    "C14": ("exploration",
            "property-based differential testing against an independent attribute codec written from docs/attributes.md; bounded-exhaustive id sweeps",
            "Generated attribute maps are round-tripped through rbx_types, decoded by a reference decoder written from docs/attributes.md, compared byte for byte with the reference "
            "encoding, and blobs from the reference encoder (entry order shuffled) are decoded by the crate; the blob both file formats store for Instance.Attributes is extracted and "
            "compared with Attributes::to_writer. All 256 rotation-id bytes, all BrickColor numbers and all 256 type-id bytes are enumerated, and a fixed list of long values (strings and sequences around and above 64 Ki items, last or followed by another entry). The Attributes map API (insert / with / remove / extend / clear / drain / clone / collect / reload) is run as "
            "generated histories against a plain map, encoding at arbitrary points: the blob always describes the map as it is now.",
            "trusts: docs/attributes.md; rotation snapping within f32::EPSILON is accepted as in the binary format",
            "DESIGN.md 2/C14"),
    "C15": ("exploration",
            "bounded-exhaustive enumeration of the migration domain from the database, differential across four read/write paths with independently built legacy files",
            "Every Migrate property of the database x inheriting classes x every legacy value (all Enum.Font items, all BrickColor numbers, both booleans, a URI pool) x {new property absent, "
            "explicit value with either encounter order} goes through write-binary, write-XML, read-binary (legacy column from the reference encoder) and read-XML (legacy element from the reference "
            "generator); every path must yield exactly the new property with the tabulated / migrated value, an explicit value must win, the legacy name must not survive. Enum.Font items without a "
            "migration are open findings. Context sub-check: the migrating instance is placed under a same-class parent that migrates too, after another class that sets the new property, two levels deep, between same-class siblings, between same-class siblings whose own legacy value the migration rejects - "
            "through every path it must show what it shows alone.",
            "trusts: PropertyMigration::perform for the font table (agreement across paths is what is checked), BrickColor::to_color3uint8 as the database's colour table",
            "DESIGN.md 2/C15"),
    "C16": ("exploration",
            "exhaustive walk over the bundled reflection database + per-class default round trips through both codecs + proptest-generated coherent databases (API and codec differential against an own walk) + generated single-corruption self-test",
            "All 797 classes / 3242 descriptors / 458 enums / 7231 defaults are walked for dangling superclass, alias, serializes-as, migration and enum links and for default type agreement; every "
            "(class, property) is driven through both codecs (no panic, serialized name as predicted); an instance of every class populated with its defaults must survive both formats; "
            "rbx_dom_lua/src/database.json must equal the msgpack database; superclasses / superclasses_iter / has_superclass / find_default_property of rbx_reflection are compared with an own walk for every class "
            "(has_superclass against every other class); random coherent databases (2-23 classes, chains up to 23 deep, aliases, serializes-as links, defaults at random levels) get the same API comparison and a "
            "deep class written and read by both codecs under that database; the database written as MessagePack / JSON and read back is the same database; patches/*.yml agree with the bundled database entry by entry; "
            "rbx_reflector's patches.rs and defaults.rs (compiled into the harness by path) are run as a pipeline on generated dumps, patch files and defaults places and must yield a coherent database with every default where the inputs put it; random single corruptions of a cloned database must all be detected.",
            "trusts: exhaustive only over the database compiled into the tree; a database regenerated from a newer dump cannot be produced offline (generated coherent databases stand in for it)",
            "DESIGN.md 2/C16"),
    "C17": ("exploration",
            "property-based round-trip testing through 7 serde codecs and the text forms; exhaustive u16 / u8 sweeps; fixed list of long values; independent base64 wire-form oracle; fixture replay of allValues.json",
            "Generated values of all 40 Variant variants go through serde_json (str, slice, reader, Value), bincode and rmp_serde (named, compact) and must come back bit-identical (byte strings also compared with an own RFC 4648 encoder; long values with lengths around every power of two from 2^8 to 2^17 and 10^6; reader-based entry points incl. a one-byte-per-read source; decoding after rejected documents and after failed or panicking writes on the same thread); Ref and "
            "UniqueId go through Display/FromStr; every u16 BrickColor number and every Faces / Axes byte is enumerated; Tags and MaterialColors blobs are converted both ways; each sample of "
            "rbx_dom_lua/src/allValues.json must decode to its stated type and re-encode to the same JSON.",
            "trusts: serde_json (float_roundtrip), bincode, rmp_serde as correct transports",
            "DESIGN.md 2/C17"),
    "C18": ("exploration",
            "schedule exploration with a harness-owned deterministic scheduler (cfg hook yield points): exhaustive DFS over all schedules of small programs + proptest-generated programs and schedules + free-running stress",
            "Worker threads run new/clone/drop programs on SharedStrings and stop at every yield point (operation boundaries and the two hook points inside rbx_types); a controller lets "
            "one thread advance per step, so a schedule is a choice sequence that can be enumerated, generated, shrunk and replayed. After every step all live handles are inspected "
            "(bytes, ==, hash, shared buffer), and at quiescence the table must hold no entry of the case. All schedules of all pairs of 2-operation (quick) / 3-operation and triples of "
            "2-operation (thorough) programs are enumerated exhaustively. Free-running part: 16 threads churn (create and drop) four contents so that reference counts cross zero under contention, with checker threads comparing "
            "buffers of back-to-back handles, panics captured per thread and a poisoned-table probe; then a mixed new/clone/drop phase. Single-threaded API sequences (new / clone / clone_from / assignment / drop / Vec::clone_from, "
            "optionally next to 1000-2600 other live contents) are generated and checked with the same oracles. Content-sizes list: for every length around each power of two from 2^8 to 2^22 (thorough 2^26), eight contents differing in one byte or one byte of length are alive together and must stay distinct, share buffers per content and leave no table entry. The free-running part ends with paired last releases: 8 thread pairs drop the last two handles of a never-reused content at the same instant (spin rendezvous, swept skew; 40 000 / 1 000 000 rounds per pair) and the table must hold no entry for it afterwards.",
            "trusts: std's Arc/Mutex; schedules are controlled at exactly the granularity the property names; the free-running part is a stress sample",
            "DESIGN.md 2/C18"),
}

NOT_YET = {
}

def main():
    checks = []
    for pid, (cat, tech, text, note, ref) in sorted(CHECKS.items()):
        checks.append({
            "property_id": pid,
            "quick_cmd": f"./check {pid} quick",
            "thorough_cmd": f"./check {pid} thorough",
            "evidence_file": f"/verif/evidence/{pid}.json",
            "replay_cmd_template": f"./check {pid} quick --replay {{path}}",
            "engine": "rbxverif",
            "level_claimed": {"category": cat, "text": text, "design_ref": ref},
            "level_note": note,
            "technique": tech,
        })
    all_ids = [json.loads(l)["id"] for l in open(os.path.join(HERE, "properties.jsonl"))]
    na = []
    for pid in all_ids:
        if pid not in CHECKS:
            na.append({"property_id": pid, "reason": NOT_YET.get(pid, "check not built yet in this session (planned in DESIGN.md section 2); not claimed until it runs clean on the unchanged tree")})
    hooks_commits = []
    try:
        out = subprocess.run(["git", "-C", "/repo", "log", "--format=%H %s"], capture_output=True, text=True).stdout
        for line in out.splitlines():
            sha, _, subj = line.partition(" ")
            if subj.startswith("hook:"):
                hooks_commits.append(sha)
    except Exception:
        pass
    manifest = {
        "version": 1,
        "setup_cmd": "./check --build-only",
        "hooks": {
            "guard": "rbx_dom_verif",
            "enable": "RUSTFLAGS=\"--cfg rbx_dom_verif\" (set by ./check; cfg(rbx_dom_verif) gates every hook in /repo)",
            "baseline_off_cmd": "./baseline_off.sh",
            "source_commits": hooks_commits,
            "add_only": True,
        },
        "engines": [
            {"name": "rbxverif", "path": "/verif/harness", "serves_properties": sorted(CHECKS),
             "kind_free_text": "Rust binary using proptest 1.11 as a library (sharded runners, shrinking, JSON replay files), bounded-exhaustive enumerators, independent reference codecs written from docs/*.md"},
        ],
        "checks": checks,
        "not_applicable": na,
        "notes": "Every check: exit 0 held / exit 1 + 'VIOLATION property=<id> replay=<path>' / exit 2 inconclusive. VERIF_SEED selects the PRNG seed. Known findings: /verif/known_findings.json.",
    }
    with open(os.path.join(HERE, "MANIFEST.json"), "w") as f:
        json.dump(manifest, f, indent=1)
        f.write("\n")

if __name__ == "__main__":
    main()
