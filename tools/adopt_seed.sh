#!/bin/bash
# tools/adopt_seed.sh <Cxx> <mutN> <check> [<check>...]
# Confirm the seeded change independently (or reuse the confirmation recorded by a parallel
# tools/confirm_all.sh run), run our checks against it, and keep it under /verif/seeded/.
# SEED_OFFSET=k numbers the kept change <Cxx>-<N+k> (later seeding rounds).
set -u
ID="$1"; MUT="$2"; shift; shift
WT=/tmp/wt/$ID
N=$(( ${MUT#mut} + ${SEED_OFFSET:-0} ))
DEST=/verif/seeded/$ID-$N
if [ -s "$WT/_seeded/$MUT/confirm.line" ]; then
  CONF=$(cat "$WT/_seeded/$MUT/confirm.line"); RC=$(cat "$WT/_seeded/$MUT/confirm.rc")
else
  CONF=$(/verif/tools/confirm_seed.sh "$WT" "$MUT" 2>&1 | tail -1)
  if echo "$CONF" | grep -q "demo_on_clean_tree=pass" && echo "$CONF" | grep -q "177/177" && echo "$CONF" | grep -q "demo_with_patch=fails"; then RC=0; else RC=1; fi
fi
echo "$CONF"
if [ "$RC" -ne 0 ]; then echo "ADOPT $ID $MUT: NOT CONFIRMED"; exit 1; fi
RES=$(/verif/tools/run_on_seed.sh "$WT/_seeded/$MUT/patch.diff" "$@" 2>&1)
echo "$RES"
mkdir -p "$DEST"
cp "$WT/_seeded/$MUT/patch.diff" "$DEST/patch.diff"
rm -rf "$DEST/demo"; cp -r "$WT/_seeded/$MUT/demo" "$DEST/demo"
python3 - "$WT/_seeded/$MUT/meta.json" "$DEST/meta.json" "$ID" "$CONF" "$RES" <<'PY'
import json, sys
src, dst, pid, conf, res = sys.argv[1:6]
try:
    m = json.load(open(src))
except Exception as e:
    m = {"property": pid, "summary": "(sub-agent meta.json unreadable: %s)" % e}
m["property"] = pid
m["confirmed_by_us"] = conf
m["our_checks_against_it"] = [l for l in res.splitlines() if l.startswith("RUN_ON_SEED")]
m["caught"] = any(" exit=1 " in l for l in m["our_checks_against_it"])
json.dump(m, open(dst, "w"), indent=1)
print("ADOPT", pid, "caught" if m["caught"] else "MISSED", dst)
PY
