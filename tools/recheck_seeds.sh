#!/bin/bash
# tools/recheck_seeds.sh [<Cxx-N> ...]  - re-run, for every kept seeded change (default: all), the checks that
# caught it, against the current machinery; one line per change in target/recheck.log. Nothing is committed to /repo.
cd /verif
touch target/.batch_mode
LIST=${@:-$(ls seeded | sort -t- -k1,1 -k2,2n)}
: > target/recheck.log
for S in $LIST; do
  CHECKS=$(python3 - "$S" <<'PY'
import json,sys
m=json.load(open(f"/verif/seeded/{sys.argv[1]}/meta.json"))
ids=[]
for r in m.get("our_checks_against_it",[]):
    if " exit=1 " in r:
        c=r.split()[2].rstrip(":")
        if c not in ids: ids.append(c)
print(" ".join(ids))
PY
)
  if [ -z "$CHECKS" ]; then echo "$S: no catching check recorded" >> target/recheck.log; continue; fi
  OUT=$(tools/run_on_seed.sh /verif/seeded/$S/patch.diff $CHECKS 2>&1 | grep RUN_ON_SEED)
  if echo "$OUT" | grep -q " exit=1 "; then V=caught; else V=MISSED; fi
  echo "$S: $V  $(echo "$OUT" | sed 's/RUN_ON_SEED [^ ]* //' | cut -c1-110 | tr '\n' ';')" >> target/recheck.log
done
rm -f target/.batch_mode
./check --build-only
echo "recheck finished: $(grep -c caught target/recheck.log) caught, $(grep -c MISSED target/recheck.log) missed" >> target/recheck.log
