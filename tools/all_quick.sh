#!/bin/bash
# Run every check's quick tier with the given seeds; print one line per (check, seed).
#   tools/all_quick.sh 2 3 4
cd /verif
for seed in "$@"; do
  for id in C01 C02 C03 C04 C05 C06 C07 C08 C09 C10 C11 C12 C13 C14 C15 C16 C17 C18; do
    s=$(date +%s)
    out=$(VERIF_SEED=$seed ./check $id quick 2>&1); rc=$?
    e=$(( $(date +%s) - s ))
    echo "seed=$seed $id exit=$rc ${e}s $(echo "$out" | grep -E "^(VIOLATION|INCONCLUSIVE)" | head -2 | cut -c1-200 | tr '\n' '|')"
  done
done
