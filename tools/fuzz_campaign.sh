#!/bin/bash
# Coverage-guided libFuzzer campaigns for the thorough tier of C13.
# usage: fuzz_campaign.sh <seconds-per-target> <seed>
# Crashing inputs land in /verif/target/fuzz/artifacts/<target>/ and are judged
# afterwards by `rbxverif check C13 --tier thorough` (sub-check fuzz-artifacts);
# this script never decides anything itself and always exits 0.
set -u
SECS="${1:-120}"; SEED="${2:-1}"
[ "$SEED" = "0" ] && SEED=1
ROOT=/verif/target/fuzz
export CARGO_NET_OFFLINE=true
unset RUSTFLAGS
mkdir -p "$ROOT/logs"
rm -rf "$ROOT/artifacts" "$ROOT/corpus" "$ROOT/summary.json"
/verif/target/release/rbxverif corpus "$ROOT/corpus" >/dev/null 2>&1
cd /verif/harness
if ! cargo +nightly fuzz build --fuzz-dir /verif/fuzz --target-dir "$ROOT" >"$ROOT/logs/build.log" 2>&1; then
  echo "fuzz build failed (see $ROOT/logs/build.log); campaign skipped" >&2
  echo '{"built": false}' > "$ROOT/summary.json"
  exit 0
fi
for t in bin_decode xml_decode attr_decode; do
  mkdir -p "$ROOT/artifacts/$t" "$ROOT/logs/$t"
  (
    cd "$ROOT/logs/$t" && rm -f fuzz-*.log
    cargo +nightly fuzz run --fuzz-dir /verif/fuzz --target-dir "$ROOT" "$t" "$ROOT/corpus/$t" -- \
      -max_total_time="$SECS" -seed="$SEED" -max_len=65536 -len_control=0 \
      -malloc_limit_mb=1024 -rss_limit_mb=6144 -timeout=25 \
      -artifact_prefix="$ROOT/artifacts/$t/" -jobs=5 -workers=5 -print_final_stats=1 \
      >"$ROOT/logs/$t/run.log" 2>&1
  ) &
done
wait
python3 - "$ROOT" "$SECS" "$SEED" <<'PY'
import glob, json, re, sys, os
root, secs, seed = sys.argv[1], int(sys.argv[2]), int(sys.argv[3])
out = {"built": True, "seconds_per_target": secs, "seed": seed, "targets": {}, "total_execs": 0}
for t in ["bin_decode", "xml_decode", "attr_decode"]:
    execs = 0; cov = 0
    for f in glob.glob(f"{root}/logs/{t}/fuzz-*.log"):
        txt = open(f, errors="replace").read()
        m = re.findall(r"stat::number_of_executed_units:\s*(\d+)", txt)
        if m: execs += int(m[-1])
        else:
            m = re.findall(r"#(\d+)\s", txt)
            if m: execs += int(m[-1])
        c = re.findall(r"cov: (\d+)", txt)
        if c: cov = max(cov, int(c[-1]))
    arts = len(glob.glob(f"{root}/artifacts/{t}/*"))
    out["targets"][t] = {"executions": execs, "edge_coverage": cov, "artifacts": arts, "corpus_seeds": len(glob.glob(f"{root}/corpus/{t}/seed-*"))}
    out["total_execs"] += execs
json.dump(out, open(f"{root}/summary.json", "w"), indent=1)
print("fuzz campaign:", json.dumps(out["targets"]))
PY
exit 0
