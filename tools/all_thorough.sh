#!/bin/bash
# tools/all_thorough.sh [Cxx...]  - run the thorough tier of the given (default: all) properties, one after another;
# one summary line per property in target/thorough.log
cd /verif
IDS=${@:-C01 C02 C03 C04 C05 C06 C07 C08 C09 C10 C11 C12 C13 C14 C15 C16 C17 C18}
for c in $IDS; do
  start=$(date +%s)
  ./check $c thorough > target/thorough_$c.out 2>&1; rc=$?
  echo "$c exit=$rc secs=$(( $(date +%s) - start )) $(grep -E '^(OK|RESULT|INCONCLUSIVE|VIOLATION)' target/thorough_$c.out | head -3 | tr '\n' ' ')" >> target/thorough.log
done
