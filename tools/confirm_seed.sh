#!/bin/bash
# Independently confirm a seeded change delivered by a sub-agent:
#   tools/confirm_seed.sh <worktree> <mutN>
# expects <worktree>/_seeded/<mutN>/{patch.diff,demo/HOWTO.txt,demo/*.rs}; the HOWTO names the
# crate and test (`cargo test ... -p <crate> --test <name>`).
# Confirms: (1) demo passes on the unchanged tree, (2) patch applies, compiles and keeps the 177
# baseline tests passing, (3) demo fails with the patch. Leaves the worktree clean.
set -u
WT="$1"; MUT="$2"
S="$WT/_seeded/$MUT"
export CARGO_NET_OFFLINE=true CARGO_TARGET_DIR="$WT/target"
unset RUSTFLAGS
cd "$WT" || exit 2
git checkout -q -- . ; git clean -fdq -e _seeded -e _baseline -e target
# the command line is the one that has both "cargo test" and "--test" (prose may mention other crates)
CMDLINE=$(grep -E "cargo test.*--test" "$S/demo/HOWTO.txt" | head -1)
CRATE=$(echo "$CMDLINE" | grep -oE -e "-p [a-z_]+" | head -1 | awk '{print $2}')
TEST=$(echo "$CMDLINE" | grep -oE -e "--test [A-Za-z0-9_]+" | head -1 | awk '{print $2}')
if [ -z "$CRATE" ] || [ -z "$TEST" ]; then echo "CONFIRM: cannot parse crate/test from HOWTO"; exit 2; fi
mkdir -p "$WT/$CRATE/tests"; cp "$S"/demo/*.rs "$WT/$CRATE/tests/" 2>/dev/null
run_demo() { cargo test --offline -p "$CRATE" --test "$TEST" >"$WT/_seeded/$MUT/demo_$1.log" 2>&1; }
run_demo clean; RC_CLEAN=$?
git apply "$S/patch.diff" || { echo "CONFIRM: patch does not apply"; exit 2; }
"$WT/_baseline/run_baseline.sh" > "$S/baseline_with_patch.log" 2>&1; RC_BASE=$?
run_demo patched; RC_PATCH=$?
git checkout -q -- . ; rm -rf "$WT/$CRATE/tests/$TEST.rs"; rmdir "$WT/$CRATE/tests" 2>/dev/null
git clean -fdq -e _seeded -e _baseline -e target
echo "CONFIRM $WT $MUT: demo_on_clean_tree=$([ $RC_CLEAN -eq 0 ] && echo pass || echo FAIL) baseline_with_patch=$(tail -1 "$S/baseline_with_patch.log" | head -c 80) demo_with_patch=$([ $RC_PATCH -ne 0 ] && echo fails || echo PASSES)"
[ $RC_CLEAN -eq 0 ] && [ $RC_BASE -eq 0 ] && [ $RC_PATCH -ne 0 ]
