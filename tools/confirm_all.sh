#!/bin/bash
# tools/confirm_all.sh <Cxx> [<Cxx> ...]  - confirm every delivered seeded change of the given worktrees,
# worktrees in parallel (they share nothing), changes of one worktree one after another. Records
# confirm.line / confirm.rc next to each patch for tools/adopt_seed.sh.
for ID in "$@"; do
  (
    for S in /tmp/wt/$ID/_seeded/mut*; do
      [ -f "$S/patch.diff" ] || continue
      MUT=$(basename "$S")
      LINE=$(/verif/tools/confirm_seed.sh /tmp/wt/$ID "$MUT" 2>&1 | tail -1); RC=$?
      # confirm_seed's exit status is lost through the pipe; recompute from the line
      if echo "$LINE" | grep -q "demo_on_clean_tree=pass" && echo "$LINE" | grep -q "177/177" && echo "$LINE" | grep -q "demo_with_patch=fails"; then RC=0; else RC=1; fi
      echo "$LINE" > "$S/confirm.line"; echo $RC > "$S/confirm.rc"
      echo "$LINE"
    done
  ) &
done
wait
