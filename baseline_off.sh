#!/bin/bash
# Runs the repository's own test suite with the verification guard OFF and
# compares the outcome with the pinned baseline (/root/.vp/BASELINE.json):
# every stable-pass test must still pass. Exit 0 iff so.
set -u
cd "${BASELINE_REPO:-/repo}"
unset RUSTFLAGS
export CARGO_NET_OFFLINE=true
LOG=$(mktemp /tmp/baseline.XXXXXX.log)
cargo test --workspace --no-fail-fast --offline >"$LOG" 2>&1
python3 - "$LOG" <<'PY'
import json, re, sys
log = open(sys.argv[1], errors="replace").read().splitlines()
base = json.load(open("/root/.vp/BASELINE.json"))
crate = None
results = {}
for line in log:
    m = re.search(r"Running (?:unittests )?\S+ \(target/debug/deps/([A-Za-z0-9_]+)-[0-9a-f]+\)", line)
    if m:
        crate = m.group(1)
        continue
    m = re.search(r"Doc-tests (\S+)", line)
    if m:
        crate = None
        continue
    m = re.match(r"test (\S+)(?: - should panic)? \.\.\. (ok|FAILED|ignored)", line)
    if m and crate:
        results[f"{crate}::{m.group(1)}"] = m.group(2)
missing = [t for t in base["stable_pass"] if results.get(t) != "ok"]
passed = sum(1 for t in base["stable_pass"] if results.get(t) == "ok")
print(f"baseline: {passed}/{len(base['stable_pass'])} stable-pass tests pass with the guard off")
for t in missing[:40]:
    print("  NOT PASSING:", t, results.get(t))
sys.exit(1 if missing else 0)
PY
rc=$?
rm -f "$LOG"
exit $rc
