#!/usr/bin/env python3
"""XML oracle for C05 (writer direction), written from docs/xml.md.

A second, independent XML parser (expat via xml.etree) checks well-formedness;
a value decoder written from docs/xml.md turns the document into a plain JSON
model. Protocol: one JSON object per line on stdin ({"xml": "<text>"}), one JSON
object per line on stdout:
  {"ok": true, "roots": [...], "shared": {key: [bytes]}, "violations": [...], "notes": [...]}
  {"ok": false, "error": "<why the document is not well-formed XML>"}
Values use the harness's GVal JSON encoding (floats as IEEE bit patterns).
Only MUST-level rules of docs/xml.md are reported as violations; SHOULD-level
deviations are reported as notes.
"""
import sys, json, base64, struct, re
import xml.etree.ElementTree as ET
from fractions import Fraction
from decimal import Decimal, InvalidOperation

DEC_RE = re.compile(r'^[+-]?(\d+(\.\d*)?|\.\d+)([eE][+-]?\d+)?$')

class Bad(Exception):
    pass

NOTES_SINK = []

def f32_from_bits(b):
    return struct.unpack('<f', struct.pack('<I', b))[0]

def round_to_float(text, bits):
    """Exact decimal -> nearest IEEE float (ties to even), without double rounding."""
    t = text.strip()
    if t in ('INF', '+INF'):
        return 0x7f800000 if bits == 32 else 0x7ff0000000000000
    if t == '-INF':
        return 0xff800000 if bits == 32 else 0xfff0000000000000
    if t == 'NAN':
        return 0x7fc00000 if bits == 32 else 0x7ff8000000000000
    if not DEC_RE.match(t):
        raise Bad('float spelling %r is not an XSD decimal nor INF/-INF/NAN' % text)
    try:
        v = Fraction(Decimal(t))
    except (InvalidOperation, ValueError):
        raise Bad('float spelling %r' % text)
    neg = t.startswith('-')
    if v == 0:
        z = 0
        if neg:
            z = 0x80000000 if bits == 32 else 0x8000000000000000
        return z
    a = abs(v)
    if bits == 32:
        mant_bits, emin, emax, fmt_i = 23, -126, 127, '<I'
    else:
        mant_bits, emin, emax, fmt_i = 52, -1022, 1023, '<Q'
    # find exponent e with 2^e <= a < 2^(e+1)
    e = a.numerator.bit_length() - a.denominator.bit_length()
    if Fraction(2) ** e > a:
        e -= 1
    if Fraction(2) ** (e + 1) <= a:
        e += 1
    if e < emin:
        e = emin  # subnormal range
    # quantum
    q = Fraction(2) ** (e - mant_bits)
    n = a / q
    fl = n.numerator // n.denominator
    rem = n - fl
    if rem > Fraction(1, 2) or (rem == Fraction(1, 2) and fl % 2 == 1):
        fl += 1
    # fl is the significand in units of q
    if fl >= (1 << (mant_bits + 1)):
        fl >>= 1
        e += 1
    if e > emax:
        # overflow -> infinity
        out = (0x7f800000 if bits == 32 else 0x7ff0000000000000)
    elif fl < (1 << mant_bits):
        out = fl  # subnormal (exponent field 0)
    else:
        out = ((e - emin + 1) << mant_bits) | (fl - (1 << mant_bits))
    if neg:
        out |= (0x80000000 if bits == 32 else 0x8000000000000000)
    return out

def text_of(el):
    if len(el):
        raise Bad('<%s> must hold text only, found child <%s>' % (el.tag, el[0].tag))
    return el.text or ''

def child(el, name):
    kids = [c for c in el if c.tag == name]
    if len(kids) != 1:
        raise Bad('<%s> must have exactly one <%s> child, found %d' % (el.tag, name, len(kids)))
    return kids[0]

def children_exact(el, names):
    got = [c.tag for c in el]
    if got != list(names):
        raise Bad('<%s> children must be %s in that order, found %s' % (el.tag, list(names), got))
    return list(el)

def f32(el):
    return round_to_float(text_of(el), 32)

def intval(text, lo, hi, what):
    t = text.strip()
    if not re.match(r'^-?\d+$', t):
        raise Bad('%s %r is not an integer (a leading + is forbidden)' % (what, text))
    v = int(t)
    if v < lo or v > hi:
        raise Bad('%s %d out of range' % (what, v))
    return v

def b64(text):
    t = ''.join(text.split())
    try:
        return list(base64.b64decode(t, validate=True))
    except Exception as e:
        raise Bad('not RFC 2045 base64: %s' % e)

def content_like(el, allowed):
    if len(el) != 1:
        raise Bad('<%s> must have exactly one child element, found %d' % (el.tag, len(el)))
    c = el[0]
    if c.tag not in allowed:
        raise Bad('<%s> child must be one of %s, found <%s>' % (el.tag, allowed, c.tag))
    if c.tag == 'null':
        # "The null element MUST be empty": no children, no text. Indentation
        # whitespace between the tags is tolerated (the document itself says
        # leading and trailing whitespace is ignored) and tallied as a note.
        if (c.text or '').strip() != '' or len(c):
            raise Bad('<null> must be empty')
        if (c.text or '') != '':
            NOTES_SINK.append('indentation whitespace inside <null>')
        return None
    if c.tag in ('binary', 'hash'):
        raise Bad('<%s> must not be written by encoders' % c.tag)
    return text_of(c)

def cframe(el):
    names = ['X', 'Y', 'Z', 'R00', 'R01', 'R02', 'R10', 'R11', 'R12', 'R20', 'R21', 'R22']
    kids = children_exact(el, names)
    v = [f32(k) for k in kids]
    return {'pos': v[0:3], 'rot': v[3:12]}

def vec(el, names):
    return [f32(k) for k in children_exact(el, names)]

def decode_value(el, notes):
    t = el.tag
    if t == 'string' or t == 'ProtectedString':
        return {'String': text_of(el)}
    if t == 'BinaryString':
        return {'BinaryString': b64(text_of(el))}
    if t == 'bool':
        s = text_of(el)
        if s not in ('true', 'false'):
            if s.lower() in ('true', 'false'):
                notes.append('bool not lower case')
            else:
                raise Bad('bool %r' % s)
        return {'Bool': s.lower() == 'true'}
    if t == 'int':
        return {'Int32': intval(text_of(el), -2**31, 2**31 - 1, 'int')}
    if t == 'int64':
        return {'Int64': intval(text_of(el), -2**63, 2**63 - 1, 'int64')}
    if t == 'float':
        return {'Float32': round_to_float(text_of(el), 32)}
    if t == 'double':
        return {'Float64': round_to_float(text_of(el), 64)}
    if t == 'token':
        return {'Enum': intval(text_of(el), 0, 2**32 - 1, 'token')}
    if t == 'Ref':
        return {'RefText': text_of(el)}
    if t == 'SharedString':
        return {'SharedKey': text_of(el)}
    if t == 'Axes':
        return {'Axes': intval(text_of(child(el, 'axes')), 0, 7, 'axes')}
    if t == 'Faces':
        return {'Faces': intval(text_of(child(el, 'faces')), 0, 63, 'faces')}
    if t == 'Color3':
        return {'Color3': vec(el, ['R', 'G', 'B'])}
    if t == 'Color3uint8':
        v = intval(text_of(el), 0, 2**32 - 1, 'Color3uint8')
        if (v >> 24) != 0xFF:
            notes.append('Color3uint8 top byte is not FF (SHOULD)')
        return {'Color3uint8': [(v >> 16) & 255, (v >> 8) & 255, v & 255]}
    if t in ('ColorSequence', 'NumberSequence', 'NumberRange'):
        s = text_of(el)
        parts = s.split(' ')
        if parts and parts[-1] == '':
            parts = parts[:-1]
        if any(p == '' for p in parts):
            raise Bad('%s numbers must be separated by a single space: %r' % (t, s))
        nums = [round_to_float(p, 32) for p in parts]
        if t == 'NumberRange':
            if len(nums) != 2:
                raise Bad('NumberRange needs 2 numbers, found %d' % len(nums))
            return {'NumberRange': nums}
        if t == 'NumberSequence':
            if len(nums) % 3:
                raise Bad('NumberSequence needs 3 numbers per keypoint')
            return {'NumberSequence': [nums[i:i + 3] for i in range(0, len(nums), 3)]}
        if len(nums) % 5:
            raise Bad('ColorSequence needs 5 numbers per keypoint')
        kps = []
        for i in range(0, len(nums), 5):
            if nums[i + 4] != 0:
                notes.append('ColorSequence envelope not 0')
            kps.append([nums[i], nums[i + 1:i + 4]])
        return {'ColorSequence': kps}
    if t == 'Content':
        u = content_like(el, ('null', 'uri', 'Ref'))
        if el[0].tag == 'Ref':
            return {'ContentRef': u}
        return {'Content': 'None' if u is None else {'Uri': u}}
    if t == 'ContentId':
        u = content_like(el, ('null', 'url', 'binary', 'hash'))
        return {'ContentId': '' if u is None else u}
    if t == 'CoordinateFrame':
        return {'CFrame': cframe(el)}
    if t == 'OptionalCoordinateFrame':
        if len(el) == 0:
            return {'OptionalCFrame': None}
        c = children_exact(el, ['CFrame'])[0]
        return {'OptionalCFrame': cframe(c)}
    if t == 'Font':
        tags = [c.tag for c in el]
        if tags not in (['Family', 'Weight', 'Style'], ['Family', 'Weight', 'Style', 'CachedFaceId']):
            raise Bad('Font children %s' % tags)
        fam = content_like(el[0], ('null', 'url', 'uri'))
        weight = intval(text_of(el[1]), 0, 65535, 'Weight')
        style = text_of(el[2])
        if style not in ('Normal', 'Italic'):
            raise Bad('Font Style %r' % style)
        cached = None
        if len(el) == 4:
            cached = content_like(el[3], ('null', 'url', 'uri'))
            if cached is None:
                cached = ''
        return {'Font': {'family': fam or '', 'weight': weight, 'style': 1 if style == 'Italic' else 0, 'cached': cached}}
    if t == 'PhysicalProperties':
        first = child(el, 'CustomPhysics') if len(el) else None
        if first is None or el[0].tag != 'CustomPhysics':
            raise Bad('PhysicalProperties must start with CustomPhysics')
        custom = text_of(el[0])
        if custom == 'false':
            if len(el) != 1:
                raise Bad('PhysicalProperties: CustomPhysics false must be the only child')
            return {'PhysicalProperties': None}
        if custom != 'true':
            raise Bad('CustomPhysics %r' % custom)
        kids = children_exact(el, ['CustomPhysics', 'Density', 'Friction', 'Elasticity', 'FrictionWeight', 'ElasticityWeight'])
        return {'PhysicalProperties': [f32(k) for k in kids[1:]]}
    if t == 'Ray':
        o, d = children_exact(el, ['origin', 'direction'])
        return {'Ray': vec(o, ['X', 'Y', 'Z']) + vec(d, ['X', 'Y', 'Z'])}
    if t == 'Rect2D':
        a, b = children_exact(el, ['min', 'max'])
        return {'Rect': vec(a, ['X', 'Y']) + vec(b, ['X', 'Y'])}
    if t == 'UDim':
        s, o = children_exact(el, ['S', 'O'])
        return {'UDim': [f32(s), intval(text_of(o), -2**31, 2**31 - 1, 'O')]}
    if t == 'UDim2':
        xs, xo, ys, yo = children_exact(el, ['XS', 'XO', 'YS', 'YO'])
        return {'UDim2': [f32(xs), intval(text_of(xo), -2**31, 2**31 - 1, 'XO'), f32(ys), intval(text_of(yo), -2**31, 2**31 - 1, 'YO')]}
    if t == 'UniqueId':
        s = text_of(el)
        if not re.match(r'^[0-9a-fA-F]{32}$', s):
            raise Bad('UniqueId must be 32 hexadecimal digits: %r' % s)
        rnd = int(s[0:16], 16)
        if rnd >= 2**63:
            rnd -= 2**64
        return {'UniqueId': [int(s[24:32], 16), int(s[16:24], 16), rnd]}
    if t == 'Vector2':
        return {'Vector2': vec(el, ['X', 'Y'])}
    if t == 'Vector3':
        return {'Vector3': vec(el, ['X', 'Y', 'Z'])}
    if t == 'Vector3int16':
        return {'Vector3int16': [intval(text_of(k), -32768, 32767, 'Vector3int16') for k in children_exact(el, ['X', 'Y', 'Z'])]}
    # element names docs/xml.md does not describe: decoded by analogy, reported as a note
    if t == 'Vector2int16':
        notes.append('undocumented element Vector2int16')
        return {'Vector2int16': [intval(text_of(k), -32768, 32767, 'Vector2int16') for k in children_exact(el, ['X', 'Y'])]}
    if t == 'SecurityCapabilities':
        notes.append('undocumented element SecurityCapabilities')
        return {'SecurityCapabilities': intval(text_of(el), 0, 2**64 - 1, 'SecurityCapabilities')}
    raise Bad('unknown type element <%s>' % t)

def decode_item(el, violations, notes, referents):
    if 'class' not in el.attrib:
        violations.append('Item without class attribute')
    if 'referent' not in el.attrib:
        violations.append('Item without referent attribute')
    ref = el.attrib.get('referent')
    if ref == 'null':
        violations.append('Item referent is the reserved value null')
    if ref in referents:
        violations.append('referent %r is used by two Items' % ref)
    referents.add(ref)
    props_els = [c for c in el if c.tag == 'Properties']
    if len(props_els) != 1:
        violations.append('Item has %d Properties elements (MUST be one)' % len(props_els))
    props = []
    for pe in props_els:
        for v in pe:
            if 'name' not in v.attrib:
                violations.append('property element <%s> without name attribute' % v.tag)
                continue
            try:
                props.append({'name': v.attrib['name'], 'element': v.tag, 'value': decode_value(v, notes)})
            except Bad as e:
                violations.append('property %s (<%s>): %s' % (v.attrib['name'], v.tag, e))
    kids = []
    for c in el:
        if c.tag == 'Item':
            kids.append(c)
        elif c.tag != 'Properties':
            violations.append('unexpected <%s> under Item' % c.tag)
    return {'class': el.attrib.get('class'), 'referent': ref, 'props': props, 'kids': kids}

def decode_document(text):
    try:
        root = ET.fromstring(text.encode('utf-8'))
    except ET.ParseError as e:
        return {'ok': False, 'error': 'not well-formed XML: %s' % e}
    violations, notes = [], []
    if root.tag != 'roblox':
        violations.append('root element is <%s>, not <roblox>' % root.tag)
    if root.attrib.get('version') != '4':
        violations.append('roblox version attribute is %r (MUST be 4)' % root.attrib.get('version'))
    referents = set()
    shared = {}
    n_dict = 0
    # iterative walk (deep documents)
    out_roots = []
    stack = []
    for c in reversed(list(root)):
        stack.append((c, out_roots))
    while stack:
        el, sink = stack.pop()
        if el.tag == 'Item':
            d = decode_item(el, violations, notes, referents)
            node = {'class': d['class'], 'referent': d['referent'], 'props': d['props'], 'children': []}
            sink.append(node)
            for k in reversed(d['kids']):
                stack.append((k, node['children']))
        elif el.tag == 'SharedStrings' and sink is out_roots:
            n_dict += 1
            for s in el:
                if s.tag != 'SharedString':
                    violations.append('unexpected <%s> under SharedStrings' % s.tag)
                    continue
                key = s.attrib.get('md5')
                if key is None:
                    violations.append('SharedString definition without md5 attribute')
                    continue
                if key in shared:
                    violations.append('SharedString md5 %r defined twice' % key)
                try:
                    shared[key] = b64(s.text or '')
                except Bad as e:
                    violations.append('SharedString %r: %s' % (key, e))
        elif el.tag == 'Meta' and sink is out_roots:
            if 'name' not in el.attrib:
                violations.append('Meta without name attribute')
        elif el.tag == 'External' and sink is out_roots:
            pass
        else:
            violations.append('unexpected element <%s>' % el.tag)
    if n_dict > 1:
        violations.append('%d SharedStrings elements (at most one)' % n_dict)
    if not any(c.tag == 'Meta' for c in root):
        notes.append('no ExplicitAutoJoints Meta element (RECOMMENDED)')
    notes.extend(NOTES_SINK)
    del NOTES_SINK[:]
    return {'ok': True, 'roots': out_roots, 'shared': shared, 'violations': violations, 'notes': sorted(set(notes))}

def main():
    sys.setrecursionlimit(1000000)
    for line in sys.stdin:
        line = line.strip()
        if not line:
            continue
        try:
            req = json.loads(line)
            res = decode_document(req['xml'])
        except Exception as e:  # the oracle itself failed: say so, never guess
            res = {'ok': False, 'oracle_error': repr(e)}
        sys.stdout.write(json.dumps(res) + '\n')
        sys.stdout.flush()

if __name__ == '__main__':
    main()
