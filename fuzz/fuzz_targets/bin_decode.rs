#![no_main]
//! Coverage-guided target for C13: the binary decoder must return Ok or Err on
//! any bytes (libFuzzer turns panics, aborts, sanitizer reports and allocations
//! beyond -malloc_limit_mb into crashes). Oracle inside the target: a file the
//! decoder accepts must be re-serializable and decode again to the same shape.
use libfuzzer_sys::fuzz_target;

fuzz_target!(|data: &[u8]| {
    if let Ok(dom) = rbx_binary::from_reader(data) {
        let n = dom.descendants().count();
        let mut out = Vec::new();
        if rbx_binary::to_writer(&mut out, &dom, dom.root().children()).is_ok() {
            let again = rbx_binary::from_reader(out.as_slice())
                .expect("a file rbx_binary wrote from a decoded DOM must decode");
            assert_eq!(again.descendants().count(), n, "re-save changed the number of instances");
        }
    }
});
