#![no_main]
//! Coverage-guided target for C13 / C14: the attribute decoder must return Ok or
//! Err; an accepted blob must re-encode and decode to the same map.
use libfuzzer_sys::fuzz_target;

fuzz_target!(|data: &[u8]| {
    if let Ok(attrs) = rbx_types::Attributes::from_reader(data) {
        let mut out = Vec::new();
        if attrs.to_writer(&mut out).is_ok() {
            let again = rbx_types::Attributes::from_reader(out.as_slice())
                .expect("a blob Attributes::to_writer wrote must decode");
            // NaN payloads make PartialEq useless here: compare the re-encoding
            let mut out2 = Vec::new();
            again.to_writer(&mut out2).expect("re-encode");
            assert_eq!(out, out2, "attribute blob is not stable under decode/encode");
        }
    }
});
