#![no_main]
//! Coverage-guided target for C13: the XML decoder must return Ok or Err.
//! The confirmed open finding (one stack frame per nested <Item>) is excluded by
//! construction so that a campaign does not rediscover it forever.
use libfuzzer_sys::fuzz_target;

fn nesting_bomb(data: &[u8]) -> bool {
    // more than 1500 "<Item" openings cannot come from a <= 64 KiB fuzz input
    // with meaningful content; it is the recursion finding
    data.windows(5).filter(|w| *w == b"<Item").count() > 1500
}

fuzz_target!(|data: &[u8]| {
    if nesting_bomb(data) {
        return;
    }
    let opts = rbx_xml::DecodeOptions::new()
        .property_behavior(rbx_xml::DecodePropertyBehavior::ReadUnknown);
    if let Ok(dom) = rbx_xml::from_reader(data, opts) {
        let n = dom.descendants().count();
        let mut out = Vec::new();
        let enc = rbx_xml::EncodeOptions::new()
            .property_behavior(rbx_xml::EncodePropertyBehavior::WriteUnknown);
        if rbx_xml::to_writer(&mut out, &dom, dom.root().children(), enc).is_ok() {
            let opts = rbx_xml::DecodeOptions::new()
                .property_behavior(rbx_xml::DecodePropertyBehavior::ReadUnknown);
            let again = rbx_xml::from_reader(out.as_slice(), opts)
                .expect("a document rbx_xml wrote from a decoded DOM must decode");
            assert_eq!(again.descendants().count(), n, "re-save changed the number of instances");
        }
    }
});
