//! Reference model of WeakDom (plain ordered trees keyed by Ref) and an
//! interpreter that runs generated operation histories against the real DOMs
//! and the model in lock-step (C09 / C10 / C11 / C12).

use std::collections::{BTreeMap, HashMap, HashSet};

use proptest::prelude::*;
use rbx_dom_weak::{InstanceBuilder, WeakDom};
use rbx_types::{Ref, UniqueId, Variant};
use serde::{Deserialize, Serialize};

use crate::engine::{CaseCtx, Fail};

// ---------------------------------------------------------------------------
// History specs (plain data)

#[derive(Clone, Debug, PartialEq, Serialize, Deserialize)]
pub enum RefSel {
    Null,
    /// a referent that is in no DOM
    Absent,
    /// the node itself
    SelfNode,
    /// k-th node of the builder tree being inserted (pre-order), monotone map
    InTree(u16),
    /// k-th live node of DOM `dom` (monotone map over the model's node list)
    Live(u8, u16),
}

#[derive(Clone, Debug, PartialEq, Serialize, Deserialize)]
pub struct BNode {
    pub class: u8,
    pub name: u8,
    /// index into a pool of 4 UniqueIds (collisions are frequent)
    pub uid: Option<u8>,
    pub refs: Vec<(u8, RefSel)>,
    pub children: Vec<BNode>,
    /// bit mask over `EXTRA_PROPS`: ordinary properties under names real files use (an operation
    /// that treats some well-known property specially must still keep it)
    #[serde(default)]
    pub extras: u8,
}

impl BNode {
    pub fn count(&self) -> usize {
        1 + self.children.iter().map(|c| c.count()).sum::<usize>()
    }
}

#[derive(Clone, Debug, PartialEq, Serialize, Deserialize)]
pub enum Op {
    Insert {
        dom: u8,
        /// None = the null parent (a new parentless tree)
        parent: Option<u16>,
        tree: BNode,
    },
    Destroy {
        dom: u8,
        node: u16,
    },
    TransferWithin {
        dom: u8,
        node: u16,
        dest: u16,
    },
    Transfer {
        src: u8,
        node: u16,
        dst: u8,
        dest: u16,
    },
    CloneWithin {
        dom: u8,
        node: u16,
    },
    CloneIntoExternal {
        src: u8,
        node: u16,
        dst: u8,
    },
    CloneMulti {
        src: u8,
        nodes: Vec<u16>,
        dst: u8,
        /// keep repeated and nested referents in the list (each listed referent is cloned as a
        /// root of its own; nothing in the documentation excludes such a list)
        #[serde(default)]
        overlap: bool,
    },
    /// A clone call that panics (a referent that does not exist) into a throw-away DOM that is not
    /// part of the history, caught; the history's own DOMs must not notice.
    FailedCloneElsewhere {
        src: u8,
        node: u16,
    },
    /// Walk `descendants()` / `descendants_of(node)` only part of the way and drop the iterator.
    PartialWalk {
        dom: u8,
        node: u16,
        steps: u8,
    },
    RawRoundTrip {
        dom: u8,
    },
    LoadBinary {
        dom: u8,
    },
    LoadXml {
        dom: u8,
    },
}

impl Op {
    pub fn kind(&self) -> &'static str {
        match self {
            Op::Insert { .. } => "insert",
            Op::Destroy { .. } => "destroy",
            Op::TransferWithin { .. } => "transfer_within",
            Op::Transfer { .. } => "transfer",
            Op::CloneWithin { .. } => "clone_within",
            Op::CloneIntoExternal { .. } => "clone_into_external",
            Op::CloneMulti { .. } => "clone_multiple_into_external",
            Op::FailedCloneElsewhere { .. } => "failed_clone_elsewhere",
            Op::PartialWalk { .. } => "partial_walk",
            Op::RawRoundTrip { .. } => "raw_round_trip",
            Op::LoadBinary { .. } => "load_binary",
            Op::LoadXml { .. } => "load_xml",
        }
    }
}

#[derive(Clone, Debug, PartialEq, Serialize, Deserialize)]
pub struct History {
    pub doms: Vec<BNode>,
    pub ops: Vec<Op>,
}

pub const CLASSES: [&str; 4] = ["Folder", "Model", "ObjectValue", "Part"];
pub const NAMES: [&str; 5] = ["a", "b", "c", "d", "e"];
pub const REF_PROPS: [&str; 3] = ["RefA", "RefB", "RefC"];
pub const EXTRA_PROPS: [(&str, bool); 6] = [("Archivable", false), ("Archivable", true), ("Locked", true), ("Disabled", true), ("Anchored", false), ("Enabled", false)];

pub fn uid_pool(i: u8) -> UniqueId {
    // four ids; two of them share a negative random part and differ only in index / time, so an
    // equality that looks at less than all three components confuses them
    match i % 4 {
        0 => UniqueId::new(7, 1000, 42),
        1 => UniqueId::new(8, 1000, -3),
        2 => UniqueId::new(9, 1001, -3),
        _ => UniqueId::new(10, 1000, 45),
    }
}

/// A UniqueId compared and hashed by its three components - never through the library's own
/// `==` / `Hash`, which are part of what is under test.
#[derive(Clone, Copy, Debug)]
pub struct Uk(pub UniqueId);

impl Uk {
    fn key(&self) -> (u32, u32, i64) {
        (self.0.index(), self.0.time(), self.0.random())
    }
}

impl PartialEq for Uk {
    fn eq(&self, o: &Uk) -> bool {
        self.key() == o.key()
    }
}

impl Eq for Uk {}

impl std::hash::Hash for Uk {
    fn hash<H: std::hash::Hasher>(&self, h: &mut H) {
        self.key().hash(h)
    }
}

// ---------------------------------------------------------------------------
// Model

#[derive(Clone, Debug)]
pub enum MVal {
    Ref(Ref),
    Uid(UniqueId),
    Bool(bool),
}

impl PartialEq for MVal {
    fn eq(&self, o: &MVal) -> bool {
        match (self, o) {
            (MVal::Ref(a), MVal::Ref(b)) => a == b,
            (MVal::Uid(a), MVal::Uid(b)) => Uk(*a) == Uk(*b),
            (MVal::Bool(a), MVal::Bool(b)) => a == b,
            _ => false,
        }
    }
}

#[derive(Clone, Debug, PartialEq)]
pub struct MNode {
    pub parent: Ref,
    pub children: Vec<Ref>,
    pub name: String,
    pub class: String,
    pub props: BTreeMap<String, MVal>,
}

#[derive(Clone, Debug)]
pub struct MDom {
    pub root: Ref,
    pub nodes: HashMap<Ref, MNode>,
    /// deterministic listing order for index-based selection: creation order
    pub order: Vec<Ref>,
}

impl Default for MDom {
    fn default() -> Self {
        MDom {
            root: Ref::none(),
            nodes: HashMap::new(),
            order: vec![],
        }
    }
}

impl Default for MNode {
    fn default() -> Self {
        MNode {
            parent: Ref::none(),
            children: vec![],
            name: String::new(),
            class: String::new(),
            props: BTreeMap::new(),
        }
    }
}

impl MDom {
    fn live(&self) -> Vec<Ref> {
        // a node that left and came back is listed once (at its first position)
        let mut seen = HashSet::new();
        self.order
            .iter()
            .copied()
            .filter(|r| self.nodes.contains_key(r) && seen.insert(*r))
            .collect()
    }
    fn subtree(&self, r: Ref) -> Vec<Ref> {
        // pre-order
        let mut out = Vec::new();
        let mut stack = vec![r];
        while let Some(n) = stack.pop() {
            out.push(n);
            for c in self.nodes[&n].children.iter().rev() {
                stack.push(*c);
            }
        }
        out
    }
    fn is_ancestor_or_self(&self, a: Ref, mut b: Ref) -> bool {
        loop {
            if a == b {
                return true;
            }
            let p = self.nodes[&b].parent;
            if p.is_none() {
                return false;
            }
            b = p;
        }
    }
    fn held_ids(&self) -> HashMap<Uk, usize> {
        let mut m = HashMap::new();
        for n in self.nodes.values() {
            if let Some(MVal::Uid(u)) = n.props.get("UniqueId") {
                *m.entry(Uk(*u)).or_default() += 1;
            }
        }
        m
    }
    fn detach(&mut self, r: Ref) {
        let p = self.nodes[&r].parent;
        if p.is_some() {
            self.nodes.get_mut(&p).unwrap().children.retain(|c| *c != r);
        }
    }
}

fn pick(sel: u16, len: usize) -> Option<usize> {
    if len == 0 {
        None
    } else {
        Some((sel as usize * len) >> 16)
    }
}

pub struct World {
    pub real: Vec<WeakDom>,
    pub model: Vec<MDom>,
    pub seen_ids: HashSet<Uk>,
    pub all_refs_ever: HashSet<Ref>,
    /// DOM came out of the XML reader (open finding: its ids are not registered)
    pub from_xml: Vec<bool>,
    /// a problem met while the start DOMs were built (reported by `run_history`)
    pub init_error: Option<Fail>,
}

/// A failure some other property states as well: a UniqueId that changed although nothing collided is a
/// broken C12 rule and also a property that was not kept across insert / move / transfer (C10).
pub fn also_owned_by(key: &str, property: &str) -> bool {
    property == "C10" && (key == "c12:changed-without-collision" || key == "c12:id-changed-on-untouched")
}

/// Oracle classes -> owning property.
pub fn owner_of(key: &str) -> &'static str {
    if key.starts_with("c09") {
        "C09"
    } else if key.starts_with("c10") {
        "C10"
    } else if key.starts_with("c11") {
        "C11"
    } else if key.starts_with("c12") {
        "C12"
    } else {
        "*"
    }
}

type R = Result<(), Fail>;

fn fail(key: &str, msg: String) -> Fail {
    Fail::new(key, msg)
}

/// Flatten a builder tree: returns (pre-order list of (own ref, parent index), builders)
struct Flat {
    refs: Vec<Ref>,
    parent: Vec<Option<usize>>,
    specs: Vec<BNode>,
}

/// `other_thread`: the referents are drawn by a freshly spawned thread (DOMs and builders made on
/// different threads meet in one history; `Ref::new()` must be unique process-wide).
fn flatten(tree: &BNode, other_thread: bool) -> Flat {
    let mut f = Flat {
        refs: vec![],
        parent: vec![],
        specs: vec![],
    };
    let n = tree.count();
    let mut fresh: Vec<Ref> = if other_thread {
        std::thread::spawn(move || (0..n).map(|_| Ref::new()).collect::<Vec<_>>()).join().unwrap()
    } else {
        (0..n).map(|_| Ref::new()).collect()
    };
    fresh.reverse();
    fn go(n: &BNode, parent: Option<usize>, f: &mut Flat, fresh: &mut Vec<Ref>) {
        let idx = f.refs.len();
        f.refs.push(fresh.pop().unwrap());
        f.parent.push(parent);
        f.specs.push(BNode {
            children: vec![],
            ..n.clone()
        });
        for c in &n.children {
            go(c, Some(idx), f, fresh);
        }
    }
    go(tree, None, &mut f, &mut fresh);
    f
}

impl World {
    pub fn new(h: &History) -> World {
        let mut w = World {
            real: vec![],
            model: vec![],
            seen_ids: HashSet::new(),
            all_refs_ever: HashSet::new(),
            from_xml: vec![],
            init_error: None,
        };
        for i in 0..4 {
            w.seen_ids.insert(Uk(uid_pool(i)));
        }
        for (di, tree) in h.doms.iter().enumerate() {
            // DOM roots never carry Refs to other DOMs at creation
            let flat = flatten(tree, di >= 1 && h.ops.len() % 2 == 0);
            for r in &flat.refs {
                if !w.all_refs_ever.insert(*r) && w.init_error.is_none() {
                    w.init_error = Some(fail("ref:fresh-referent-repeats", format!("Ref::new() returned {r}, which an earlier Ref::new() of this process already returned")));
                }
            }
            let absent = Ref::new();
            let (builder, mnodes) = w.make_builder(&flat, usize::MAX, absent);
            let dom = WeakDom::new(builder);
            let mut m = MDom {
                root: flat.refs[0],
                ..Default::default()
            };
            for (r, n) in mnodes {
                m.order.push(r);
                m.nodes.insert(r, n);
            }
            w.real.push(dom);
            w.model.push(m);
            w.from_xml.push(false);
        }
        // initial DOMs went through the same id regeneration as any insert
        for d in 0..w.real.len() {
            let refs: Vec<Ref> = w.model[d].order.clone();
            let _ = w.adopt_ids(d, &refs, &HashMap::new());
        }
        w
    }

    fn resolve_ref(&self, sel: &RefSel, flat: &Flat, me: usize, absent: Ref) -> Ref {
        match sel {
            RefSel::Null => Ref::none(),
            RefSel::Absent => absent,
            RefSel::SelfNode => flat.refs[me],
            RefSel::InTree(k) => flat.refs[pick(*k, flat.refs.len()).unwrap()],
            RefSel::Live(d, k) => {
                if self.model.is_empty() {
                    return Ref::none();
                }
                let d = *d as usize % self.model.len();
                let live = self.model[d].live();
                match pick(*k, live.len()) {
                    Some(i) => live[i],
                    None => Ref::none(),
                }
            }
        }
    }

    /// Build the real builder tree and the model nodes it denotes.
    fn make_builder(&self, flat: &Flat, _dom: usize, absent: Ref) -> (InstanceBuilder, Vec<(Ref, MNode)>) {
        let n = flat.refs.len();
        let mut mnodes: Vec<(Ref, MNode)> = Vec::with_capacity(n);
        for i in 0..n {
            let s = &flat.specs[i];
            let class = CLASSES[s.class as usize % CLASSES.len()];
            let name = NAMES[s.name as usize % NAMES.len()];
            let mut props = BTreeMap::new();
            if let Some(u) = s.uid {
                props.insert("UniqueId".to_string(), MVal::Uid(uid_pool(u)));
            }
            for (bit, (pname, val)) in EXTRA_PROPS.iter().enumerate() {
                if s.extras >> bit & 1 == 1 {
                    props.insert(pname.to_string(), MVal::Bool(*val));
                }
            }
            for (slot, sel) in &s.refs {
                let pname = REF_PROPS[*slot as usize % REF_PROPS.len()];
                let r = self.resolve_ref(sel, flat, i, absent);
                // a later entry for the same name replaces an earlier one
                props.insert(pname.to_string(), MVal::Ref(r));
            }
            mnodes.push((
                flat.refs[i],
                MNode {
                    parent: flat.parent[i].map(|p| flat.refs[p]).unwrap_or(Ref::none()),
                    children: vec![],
                    name: name.to_string(),
                    class: class.to_string(),
                    props,
                },
            ));
        }
        for i in 0..n {
            if let Some(p) = flat.parent[i] {
                let r = flat.refs[i];
                mnodes[p].1.children.push(r);
            }
        }
        // Every way the builder API offers to say the same thing is used; which one is a pure
        // function of the node's spec, so a case stays replayable and shrinkable.
        fn build(i: usize, flat: &Flat, mnodes: &[(Ref, MNode)]) -> InstanceBuilder {
            let (r, m) = &mnodes[i];
            let spec = &flat.specs[i];
            let style = spec.class as usize * 7 + spec.name as usize * 3 + spec.refs.len() * 5 + spec.children.len() + i;
            let mut b = match style % 3 {
                0 => InstanceBuilder::new(m.class.as_str()),
                1 => InstanceBuilder::empty().with_class(m.class.as_str()),
                _ => {
                    let mut b = InstanceBuilder::with_property_capacity("Placeholder", 3);
                    b.set_class(m.class.as_str());
                    b
                }
            };
            b = b.with_referent(*r);
            if style % 2 == 0 {
                b = b.with_name(m.name.clone());
            } else {
                b.set_name(m.name.clone());
            }
            let props: Vec<(String, rbx_types::Variant)> = m
                .props
                .iter()
                .map(|(k, v)| {
                    (
                        k.clone(),
                        match v {
                            MVal::Ref(x) => rbx_types::Variant::Ref(*x),
                            MVal::Uid(u) => rbx_types::Variant::UniqueId(*u),
                            MVal::Bool(b) => rbx_types::Variant::Bool(*b),
                        },
                    )
                })
                .collect();
            // a UniqueId named twice: the value given last is the instance's (the decoy comes first)
            let mut props = props;
            if style % 7 == 3 {
                if let Some(pos) = props.iter().position(|(k, _)| k == "UniqueId") {
                    let decoy = rbx_types::Variant::UniqueId(uid_pool(((style / 7) % 4) as u8));
                    props.insert(pos.min(style % (props.len() + 1)).min(pos), ("UniqueId".to_string(), decoy));
                }
            }
            match (style / 2) % 5 {
                0 => {
                    for (k, v) in props {
                        b.add_property(k.as_str(), v);
                    }
                }
                1 => {
                    for (k, v) in props {
                        b = b.with_property(k.as_str(), v);
                    }
                }
                2 => b = b.with_properties(props.iter().map(|(k, v)| (k.as_str(), v.clone()))),
                3 => b.add_properties(props.iter().map(|(k, v)| (k.as_str(), v.clone()))),
                _ => {
                    // one by one first, the rest in bulk
                    let mut it = props.into_iter();
                    if let Some((k, v)) = it.next() {
                        b.add_property(k.as_str(), v);
                    }
                    let rest: Vec<(String, rbx_types::Variant)> = it.collect();
                    b = b.with_properties(rest.iter().map(|(k, v)| (k.as_str(), v.clone())));
                }
            }
            let mut kids: Vec<InstanceBuilder> = flat
                .parent
                .iter()
                .enumerate()
                .filter(|(_, p)| **p == Some(i))
                .map(|(j, _)| build(j, flat, mnodes))
                .collect();
            match (style / 3) % 6 {
                0 => {
                    for k in kids {
                        b.add_child(k);
                    }
                }
                1 => {
                    for k in kids {
                        b = b.with_child(k);
                    }
                }
                2 => b = b.with_children(kids),
                3 => b.add_children(kids),
                4 => {
                    // bulk call on a builder that already has children
                    if !kids.is_empty() {
                        let first = kids.remove(0);
                        b.add_child(first);
                    }
                    b = b.with_children(kids);
                }
                _ => {
                    if !kids.is_empty() {
                        let first = kids.remove(0);
                        b = b.with_child(first);
                    }
                    let mid = kids.len() / 2;
                    let tail = kids.split_off(mid);
                    b.add_children(kids);
                    b.add_children(tail);
                }
            }
            b
        }
        (build(0, flat, &mnodes), mnodes)
    }

    // ---------------- UniqueId rule (C12) ----------------

    /// After `incoming` instances entered DOM `d`: validate the ids the real
    /// DOM gave them against the rule, then adopt the actual values.
    /// `before`: ids held in the destination *before* the operation (by
    /// instances that are not incoming).
    fn adopt_ids(&mut self, d: usize, incoming: &[Ref], before: &HashMap<Uk, usize>) -> R {
        let res = self.adopt_ids_inner(d, incoming, before);
        self.taint(d, res)
    }

    /// A C12 failure on a DOM that came out of the XML reader is attributed to
    /// the (open) finding that the reader bypasses the DOM's id set.
    fn taint(&self, d: usize, res: R) -> R {
        match res {
            Err(f) if self.from_xml[d] && f.key.starts_with("c12:") => Err(Fail::new(
                "c12:xml-reader-bypasses-id-set",
                format!("(DOM produced by rbx_xml) {}", f.msg),
            )),
            other => other,
        }
    }

    fn adopt_ids_inner(&mut self, d: usize, incoming: &[Ref], before: &HashMap<Uk, usize>) -> R {
        // group incomers by the id they arrived with
        let mut groups: BTreeMap<(u32, u32, i64), Vec<Ref>> = BTreeMap::new();
        for r in incoming {
            if let Some(MVal::Uid(u)) = self.model[d].nodes[r].props.get("UniqueId") {
                groups
                    .entry((u.index(), u.time(), u.random()))
                    .or_default()
                    .push(*r);
            }
        }
        let mut fresh_now: HashSet<Uk> = HashSet::new();
        for ((i, t, rnd), members) in groups {
            let original = UniqueId::new(i, t, rnd);
            let held_before = before.contains_key(&Uk(original));
            let mut kept = 0;
            for r in &members {
                let actual = match self.real[d]
                    .get_by_ref(*r)
                    .and_then(|inst| inst.properties.get(&"UniqueId".into()).cloned())
                {
                    Some(Variant::UniqueId(u)) => u,
                    other => {
                        return Err(fail(
                            "c12:id-missing",
                            format!("instance lost its UniqueId property: {other:?}"),
                        ))
                    }
                };
                if self.real[d].get_unique_id(*r).map(Uk) != Some(Uk(actual)) {
                    return Err(fail(
                        "c12:get-unique-id",
                        "get_unique_id disagrees with the property".to_string(),
                    ));
                }
                if Uk(actual) == Uk(original) {
                    kept += 1;
                } else {
                    // changed: must be fresh
                    if self.seen_ids.contains(&Uk(actual)) || !fresh_now.insert(Uk(actual)) {
                        return Err(fail(
                            "c12:regenerated-not-fresh",
                            format!("regenerated id {actual} was already in use"),
                        ));
                    }
                }
                self.model[d]
                    .nodes
                    .get_mut(r)
                    .unwrap()
                    .props
                    .insert("UniqueId".into(), MVal::Uid(actual));
            }
            if held_before {
                if kept != 0 {
                    return Err(fail(
                        "c12:collision-kept",
                        format!("{kept} incoming instance(s) kept id {original} although the destination already held it"),
                    ));
                }
            } else if kept != 1 {
                return Err(fail(
                    if kept == 0 {
                        "c12:changed-without-collision"
                    } else {
                        "c12:duplicate-kept"
                    },
                    format!(
                        "{} incoming instance(s) shared id {original}, destination did not hold it, {kept} kept it",
                        members.len()
                    ),
                ));
            }
        }
        for u in fresh_now {
            self.seen_ids.insert(u);
        }
        Ok(())
    }

    fn check_unique(&self, d: usize) -> R {
        let res = self.check_unique_inner(d);
        self.taint(d, res)
    }

    fn check_unique_inner(&self, d: usize) -> R {
        let mut seen = HashSet::new();
        for r in self.model[d].live() {
            if let Some(id) = self.real[d].get_unique_id(r) {
                if !seen.insert(Uk(id)) {
                    return Err(fail(
                        "c12:duplicate-in-dom",
                        format!("two instances of one DOM hold UniqueId {id}"),
                    ));
                }
            }
        }
        Ok(())
    }

    // ---------------- invariants (C09) and full diff (C10) ----------------

    pub fn check_all(&self) -> R {
        for d in 0..self.real.len() {
            self.check_dom(d)?;
        }
        Ok(())
    }

    fn check_dom(&self, d: usize) -> R {
        let real = &self.real[d];
        let m = &self.model[d];
        // C09: root exists, no parent
        if real.root_ref() != m.root {
            return Err(fail("c10:root-changed", "root referent changed".into()));
        }
        if real.get_by_ref(real.root_ref()).is_none() {
            return Err(fail("c09:root-missing", "root cannot be looked up".into()));
        }
        if real.root().parent().is_some() {
            return Err(fail("c09:root-has-parent", "root has a parent".into()));
        }
        for (r, mn) in &m.nodes {
            let Some(inst) = real.get_by_ref(*r) else {
                return Err(fail(
                    "c10:instance-missing",
                    format!("instance {} ({}) should exist in DOM {d}", mn.name, mn.class),
                ));
            };
            // C09 structural agreement, through the public API only
            if inst.referent() != *r {
                return Err(fail("c09:referent-mismatch", "instance stored under another referent".into()));
            }
            let mut seen = HashSet::new();
            for c in inst.children() {
                if !seen.insert(*c) {
                    return Err(fail("c09:child-listed-twice", format!("{} lists a child twice", mn.name)));
                }
                match real.get_by_ref(*c) {
                    None => {
                        return Err(fail(
                            "c09:dangling-child",
                            format!("{} lists a child that does not exist", mn.name),
                        ))
                    }
                    Some(ci) => {
                        if ci.parent() != *r {
                            return Err(fail(
                                "c09:child-parent-disagree",
                                format!("child of {} names another parent", mn.name),
                            ));
                        }
                    }
                }
            }
            let p = inst.parent();
            if p.is_some() {
                match real.get_by_ref(p) {
                    None => return Err(fail("c09:dangling-parent", format!("{} has a parent that does not exist", mn.name))),
                    Some(pi) => {
                        let n = pi.children().iter().filter(|c| **c == *r).count();
                        if n != 1 {
                            return Err(fail(
                                "c09:not-listed-once-by-parent",
                                format!("{} is listed {n} times by its parent", mn.name),
                            ));
                        }
                    }
                }
            }
            // acyclic
            let mut cur = p;
            let mut steps = 0;
            while cur.is_some() {
                if cur == *r {
                    return Err(fail("c09:cycle", format!("{} is its own ancestor", mn.name)));
                }
                steps += 1;
                if steps > 100_000 {
                    return Err(fail("c09:cycle", "parent chain does not end".into()));
                }
                cur = match real.get_by_ref(cur) {
                    Some(i) => i.parent(),
                    None => break,
                };
            }
            // C10: exact agreement with the model
            if inst.parent() != mn.parent {
                return Err(fail("c10:parent", format!("{}: parent differs from the documented effect", mn.name)));
            }
            if inst.children() != mn.children.as_slice() {
                return Err(fail(
                    "c10:children-order",
                    format!(
                        "{}: children {:?}, documented effect {:?}",
                        mn.name,
                        inst.children().iter().map(|c| self.name_of(d, *c)).collect::<Vec<_>>(),
                        mn.children.iter().map(|c| self.name_of(d, *c)).collect::<Vec<_>>()
                    ),
                ));
            }
            if inst.name != mn.name || inst.class.as_str() != mn.class {
                return Err(fail("c10:name-class", format!("{}: name/class changed", mn.name)));
            }
            if inst.properties.len() != mn.props.len() {
                return Err(fail(
                    "c10:property-set",
                    format!("{}: property set changed: {:?} vs model {:?}", mn.name, inst.properties.keys().collect::<Vec<_>>(), mn.props.keys().collect::<Vec<_>>()),
                ));
            }
            for (k, v) in &mn.props {
                let actual = inst.properties.get(&k.as_str().into());
                let ok = match (v, actual) {
                    (MVal::Ref(a), Some(Variant::Ref(b))) => a == b,
                    (MVal::Uid(a), Some(Variant::UniqueId(b))) => Uk(*a) == Uk(*b),
                    (MVal::Bool(a), Some(Variant::Bool(b))) => a == b,
                    _ => false,
                };
                if !ok {
                    let key = if k == "UniqueId" { "c12:id-changed-on-untouched" } else { "c10:property-value" };
                    return Err(fail(key, format!("{}: property {k} is {actual:?}, model says {v:?}", mn.name)));
                }
            }
        }
        // removed / transferred-away instances cannot be looked up
        for r in &self.all_refs_ever {
            if !m.nodes.contains_key(r) && real.get_by_ref(*r).is_some() {
                return Err(fail(
                    "c09:removed-still-resolvable",
                    "an instance that was destroyed or transferred away can still be looked up".into(),
                ));
            }
        }
        // descendants(): reachable set once each, parents before children
        let expect: Vec<Ref> = m.subtree(m.root);
        let got: Vec<Ref> = real.descendants().map(|i| i.referent()).collect();
        self.check_descendants(d, &expect, &got)?;
        // descendants_of(x) for every node of small DOMs, a sample of large ones
        let live = m.live();
        let step = (live.len() / 8).max(1);
        for x in live.iter().step_by(step) {
            let expect: Vec<Ref> = m.subtree(*x);
            let got: Vec<Ref> = real.descendants_of(*x).map(|i| i.referent()).collect();
            if got.first() != Some(x) {
                return Err(fail("c09:descendants-of-start", "descendants_of(x) does not start at x".into()));
            }
            self.check_descendants(d, &expect, &got)?;
        }
        self.check_unique(d)?;
        Ok(())
    }

    fn check_descendants(&self, d: usize, expect: &[Ref], got: &[Ref]) -> R {
        let eset: HashSet<Ref> = expect.iter().copied().collect();
        let mut seen = HashSet::new();
        for r in got {
            if !seen.insert(*r) {
                return Err(fail("c09:descendants-duplicate", "descendants() yielded an instance twice".into()));
            }
            if !eset.contains(r) {
                return Err(fail("c09:descendants-extra", "descendants() yielded an unreachable instance".into()));
            }
            let p = self.model[d].nodes[r].parent;
            if p.is_some() && eset.contains(&p) && !seen.contains(&p) {
                return Err(fail("c09:descendants-order", "descendants() yielded a child before its parent".into()));
            }
        }
        if seen.len() != eset.len() {
            return Err(fail(
                "c09:descendants-missing",
                format!("descendants() yielded {} of {} reachable instances", seen.len(), eset.len()),
            ));
        }
        Ok(())
    }

    fn name_of(&self, d: usize, r: Ref) -> String {
        self.model[d]
            .nodes
            .get(&r)
            .map(|n| n.name.clone())
            .unwrap_or_else(|| "?".into())
    }

    // ---------------- operations ----------------

    pub fn apply(&mut self, op: &Op, ctx: &mut CaseCtx) -> R {
        let nd = self.real.len();
        match op {
            Op::Insert { dom, parent, tree } => {
                let d = *dom as usize % nd;
                let live = self.model[d].live();
                let parent_ref = match parent {
                    None => Ref::none(),
                    Some(k) => live[pick(*k, live.len()).unwrap()],
                };
                let flat = flatten(tree, tree.count() % 5 == 2);
                for r in &flat.refs {
                    if self.all_refs_ever.contains(r) {
                        return Err(fail("ref:fresh-referent-repeats", format!("Ref::new() returned {r}, which is already in use in this process")));
                    }
                }
                let absent = Ref::new();
                let (builder, mnodes) = self.make_builder(&flat, d, absent);
                let before = self.model[d].held_ids();
                let ret = self.real[d].insert(parent_ref, builder);
                if ret != flat.refs[0] {
                    return Err(fail("c10:insert-return", "insert did not return the referent of the subtree root".into()));
                }
                for (r, mut n) in mnodes {
                    if r == flat.refs[0] {
                        n.parent = parent_ref;
                    }
                    self.model[d].order.push(r);
                    self.all_refs_ever.insert(r);
                    self.model[d].nodes.insert(r, n);
                }
                if parent_ref.is_some() {
                    self.model[d].nodes.get_mut(&parent_ref).unwrap().children.push(flat.refs[0]);
                }
                ctx.label_if(parent.is_none(), "insert_with_null_parent");
                ctx.label_if(flat.refs.len() > 1, "insert_subtree");
                let incoming = flat.refs.clone();
                if flat.specs.iter().any(|s| s.uid.is_some()) {
                    let collided = flat
                        .specs
                        .iter()
                        .filter_map(|s| s.uid)
                        .any(|u| before.contains_key(&Uk(uid_pool(u))));
                    ctx.label_if(collided, "uid_collision_on_insert");
                    if collided {
                        ctx.nontrivial();
                    }
                }
                self.adopt_ids(d, &incoming, &before)?;
            }
            Op::Destroy { dom, node } => {
                let d = *dom as usize % nd;
                let live: Vec<Ref> = self.model[d].live().into_iter().filter(|r| *r != self.model[d].root).collect();
                let Some(i) = pick(*node, live.len()) else { return Ok(()) };
                let r = live[i];
                let sub = self.model[d].subtree(r);
                self.real[d].destroy(r);
                self.model[d].detach(r);
                for s in &sub {
                    self.model[d].nodes.remove(s);
                }
                ctx.label_if(sub.len() > 1, "destroy_subtree");
            }
            Op::TransferWithin { dom, node, dest } => {
                let d = *dom as usize % nd;
                let m = &self.model[d];
                let movable: Vec<Ref> = m.live().into_iter().filter(|r| *r != m.root).collect();
                let Some(i) = pick(*node, movable.len()) else { return Ok(()) };
                let r = movable[i];
                // never under itself or its own descendant
                let dests: Vec<Ref> = m.live().into_iter().filter(|c| !m.is_ancestor_or_self(r, *c)).collect();
                let Some(j) = pick(*dest, dests.len()) else { return Ok(()) };
                let dst = dests[j];
                let old_parent = m.nodes[&r].parent;
                let siblings_before = if old_parent.is_some() { m.nodes[&old_parent].children.len() } else { 0 };
                self.real[d].transfer_within(r, dst);
                self.model[d].detach(r);
                self.model[d].nodes.get_mut(&r).unwrap().parent = dst;
                self.model[d].nodes.get_mut(&dst).unwrap().children.push(r);
                let siblings_after = self.model[d].nodes[&dst].children.len();
                if siblings_before >= 2 && siblings_after >= 2 {
                    ctx.label("move_with_siblings_on_both_sides");
                    ctx.nontrivial();
                }
                ctx.label_if(old_parent == dst, "move_to_same_parent");
            }
            Op::Transfer { src, node, dst, dest } => {
                if nd < 2 {
                    return Ok(());
                }
                let s = *src as usize % nd;
                let mut t = *dst as usize % nd;
                if t == s {
                    t = (s + 1) % nd;
                }
                let movable: Vec<Ref> = self.model[s].live().into_iter().filter(|r| *r != self.model[s].root).collect();
                let Some(i) = pick(*node, movable.len()) else { return Ok(()) };
                let r = movable[i];
                let dests = self.model[t].live();
                let Some(j) = pick(*dest, dests.len()) else { return Ok(()) };
                let dparent = dests[j];
                let sub = self.model[s].subtree(r);
                let before = self.model[t].held_ids();
                let total_before = self.model[s].nodes.len() + self.model[t].nodes.len();
                {
                    let (a, b) = two_mut(&mut self.real, s, t);
                    a.transfer(r, b, dparent);
                }
                self.model[s].detach(r);
                for x in &sub {
                    let n = self.model[s].nodes.remove(x).unwrap();
                    self.model[t].order.push(*x);
                    self.model[t].nodes.insert(*x, n);
                }
                self.model[t].nodes.get_mut(&r).unwrap().parent = dparent;
                self.model[t].nodes.get_mut(&dparent).unwrap().children.push(r);
                if self.model[s].nodes.len() + self.model[t].nodes.len() != total_before {
                    return Err(fail("c10:transfer-conservation", "model lost an instance".into()));
                }
                ctx.label_if(sub.len() > 1, "transfer_subtree");
                let collided = sub.iter().any(|x| match self.model[t].nodes[x].props.get("UniqueId") {
                    Some(MVal::Uid(u)) => before.contains_key(&Uk(*u)),
                    _ => false,
                });
                if collided {
                    ctx.label("uid_collision_on_transfer");
                    ctx.nontrivial();
                }
                self.adopt_ids(t, &sub, &before)?;
            }
            Op::CloneWithin { dom, node } => {
                let d = *dom as usize % nd;
                let live = self.model[d].live();
                let Some(i) = pick(*node, live.len()) else { return Ok(()) };
                let r = live[i];
                let snapshot = self.model[d].clone();
                let before = self.model[d].held_ids();
                let ret = self.real[d].clone_within(r);
                self.bind_clones(d, d, &snapshot, &[r], &[ret], &before, ctx)?;
            }
            Op::CloneIntoExternal { src, node, dst } => {
                if nd < 2 {
                    return Ok(());
                }
                let s = *src as usize % nd;
                let mut t = *dst as usize % nd;
                if t == s {
                    t = (s + 1) % nd;
                }
                let live = self.model[s].live();
                let Some(i) = pick(*node, live.len()) else { return Ok(()) };
                let r = live[i];
                let snapshot = self.model[s].clone();
                let before = self.model[t].held_ids();
                let ret = {
                    let (a, b) = two_mut(&mut self.real, s, t);
                    a.clone_into_external(r, b)
                };
                self.bind_clones(s, t, &snapshot, &[r], &[ret], &before, ctx)?;
            }
            Op::FailedCloneElsewhere { src, node } => {
                let s = *src as usize % nd;
                let live = self.model[s].live();
                let existing = live[pick(*node, live.len()).unwrap()];
                let missing = Ref::new();
                let src_dom = &self.real[s];
                let r = crate::engine::catch(|| {
                    let mut scratch = WeakDom::new(InstanceBuilder::new("Folder"));
                    let _ = src_dom.clone_multiple_into_external(&[existing, missing], &mut scratch);
                });
                ctx.label_if(r.is_err(), "clone_of_missing_referent_panicked_elsewhere");
                // the other documented panics, likewise on throw-away DOMs: whatever an operation
                // stages before it panics must not reach a later, valid call on this thread
                let tree = || InstanceBuilder::new("Folder").with_name("ghost").with_child(InstanceBuilder::new("Part").with_name("ghost-child").with_child(InstanceBuilder::new("Part").with_name("ghost-grandchild")));
                let mut panicked = 0;
                for kind in 0..6 {
                    let r = crate::engine::catch(|| {
                        let mut scratch = WeakDom::new(InstanceBuilder::new("Folder").with_child(tree()));
                        let mut other = WeakDom::new(InstanceBuilder::new("Folder"));
                        let child = scratch.root().children()[0];
                        match kind {
                            0 => {
                                scratch.insert(missing, tree());
                            }
                            1 => scratch.destroy(missing),
                            2 => {
                                let to = scratch.root_ref();
                                scratch.transfer_within(missing, to)
                            }
                            3 => scratch.transfer_within(child, missing),
                            4 => {
                                let to = other.root_ref();
                                scratch.transfer(missing, &mut other, to)
                            }
                            _ => scratch.transfer(child, &mut other, missing),
                        }
                    });
                    if r.is_err() {
                        panicked += 1;
                    }
                }
                ctx.label_if(panicked > 0, "other_operations_panicked_elsewhere");
            }
            Op::PartialWalk { dom, node, steps } => {
                let d = *dom as usize % nd;
                let live = self.model[d].live();
                let start = live[pick(*node, live.len()).unwrap()];
                {
                    let mut it = self.real[d].descendants();
                    for _ in 0..*steps {
                        if it.next().is_none() {
                            break;
                        }
                    }
                }
                {
                    let mut it = self.real[d].descendants_of(start);
                    for _ in 0..(*steps / 2) {
                        if it.next().is_none() {
                            break;
                        }
                    }
                }
                ctx.label("iterator_dropped_part_way");
            }
            Op::CloneMulti { src, nodes, dst, overlap } => {
                if nd < 2 {
                    return Ok(());
                }
                let s = *src as usize % nd;
                let mut t = *dst as usize % nd;
                if t == s {
                    t = (s + 1) % nd;
                }
                let live = self.model[s].live();
                // disjoint subtrees
                let mut chosen: Vec<Ref> = Vec::new();
                for k in nodes {
                    let Some(i) = pick(*k, live.len()) else { continue };
                    let c = live[i];
                    if *overlap
                        || chosen.iter().all(|x| {
                            !self.model[s].is_ancestor_or_self(*x, c) && !self.model[s].is_ancestor_or_self(c, *x)
                        })
                    {
                        chosen.push(c);
                    }
                }
                let snapshot = self.model[s].clone();
                let before = self.model[t].held_ids();
                let rets = {
                    let (a, b) = two_mut(&mut self.real, s, t);
                    a.clone_multiple_into_external(&chosen, b)
                };
                ctx.label_if(chosen.len() >= 2, "clone_multiple_subtrees");
                let overlapping = (0..chosen.len()).any(|i| (0..chosen.len()).any(|j| i != j && self.model[s].is_ancestor_or_self(chosen[i], chosen[j])));
                ctx.label_if(overlapping, "clone_multiple_overlapping_referents");
                self.bind_clones(s, t, &snapshot, &chosen, &rets, &before, ctx)?;
            }
            Op::RawRoundTrip { dom } => {
                let d = *dom as usize % nd;
                let real = std::mem::take(&mut self.real[d]);
                let (root, map) = real.into_raw();
                let keys: HashSet<Ref> = map.keys().copied().collect();
                let mkeys: HashSet<Ref> = self.model[d].nodes.keys().copied().collect();
                if keys != mkeys {
                    return Err(fail(
                        "c09:instance-set",
                        format!("DOM holds {} instances, documented effects give {}", keys.len(), mkeys.len()),
                    ));
                }
                self.real[d] = WeakDom::from_raw(root, map);
                ctx.label("raw_round_trip");
            }
            Op::LoadBinary { dom } | Op::LoadXml { dom } => {
                let d = *dom as usize % nd;
                self.load(d, matches!(op, Op::LoadXml { .. }), ctx)?;
            }
        }
        Ok(())
    }

    /// Write the children of DOM d's root to a file, read it back and replace
    /// DOM d by the decoded DOM (its root is a fresh DataModel).
    fn load(&mut self, d: usize, xml: bool, ctx: &mut CaseCtx) -> R {
        let roots: Vec<Ref> = self.real[d].root().children().to_vec();
        let mut buf = Vec::new();
        let decoded = if xml {
            let enc = rbx_xml::EncodeOptions::new()
                .property_behavior(rbx_xml::EncodePropertyBehavior::WriteUnknown);
            let dec = rbx_xml::DecodeOptions::new()
                .property_behavior(rbx_xml::DecodePropertyBehavior::ReadUnknown);
            rbx_xml::to_writer(&mut buf, &self.real[d], &roots, enc)
                .map_err(|e| fail("harness:xml-write", e.to_string()))?;
            rbx_xml::from_reader(buf.as_slice(), dec).map_err(|e| fail("harness:xml-read", e.to_string()))?
        } else {
            rbx_binary::to_writer(&mut buf, &self.real[d], &roots)
                .map_err(|e| fail("harness:bin-write", e.to_string()))?;
            rbx_binary::from_reader(buf.as_slice()).map_err(|e| fail("harness:bin-read", e.to_string()))?
        };
        ctx.label(if xml { "load_xml" } else { "load_binary" });
        // bind: old subtree under root <-> decoded forest, in order
        let old = self.model[d].clone();
        let mut m = MDom {
            root: decoded.root_ref(),
            ..Default::default()
        };
        m.order.push(m.root);
        m.nodes.insert(
            m.root,
            MNode {
                name: "DataModel".into(),
                class: "DataModel".into(),
                ..Default::default()
            },
        );
        let mut map: HashMap<Ref, Ref> = HashMap::new();
        let mut stack: Vec<(Ref, Ref)> = Vec::new();
        let old_children = old.nodes[&old.root].children.clone();
        let new_children = decoded.root().children().to_vec();
        if old_children.len() != new_children.len() {
            return Err(fail("harness:load-shape", "decoded forest has another shape".into()));
        }
        for (o, n) in old_children.iter().zip(new_children.iter()) {
            stack.push((*o, *n));
        }
        m.nodes.get_mut(&decoded.root_ref()).unwrap().children = new_children.clone();
        let mut pairs = Vec::new();
        while let Some((o, n)) = stack.pop() {
            map.insert(o, n);
            pairs.push((o, n));
            let inst = decoded
                .get_by_ref(n)
                .ok_or_else(|| fail("harness:load-shape", "decoded child missing".into()))?;
            let oc = &old.nodes[&o].children;
            if oc.len() != inst.children().len() {
                return Err(fail("harness:load-shape", "decoded forest has another shape".into()));
            }
            for (a, b) in oc.iter().zip(inst.children().iter()) {
                stack.push((*a, *b));
            }
        }
        let mut gained = false;
        for (o, n) in &pairs {
            let on = &old.nodes[o];
            let inst = decoded.get_by_ref(*n).unwrap();
            if inst.name != on.name || inst.class.as_str() != on.class {
                return Err(fail("harness:load-shape", "decoded instance differs in name/class".into()));
            }
            // what the decoded instance holds (a file may add default columns)
            let mut props = BTreeMap::new();
            for (k, v) in &inst.properties {
                match v {
                    Variant::Ref(r) => {
                        props.insert(k.to_string(), MVal::Ref(*r));
                    }
                    Variant::UniqueId(u) => {
                        props.insert(k.to_string(), MVal::Uid(*u));
                    }
                    Variant::Bool(b) => {
                        props.insert(k.to_string(), MVal::Bool(*b));
                    }
                    _ => {}
                }
            }
            // what it must hold: every tracked property, Refs mapped. A tracked
            // UniqueId may only change if a default column the file format added
            // collides with it (then exactly one of the colliding instances keeps it).
            for (k, v) in &on.props {
                match v {
                    MVal::Ref(r) => {
                        let want = MVal::Ref(map.get(r).copied().unwrap_or(Ref::none()));
                        if props.get(k) != Some(&want) {
                            return Err(fail("harness:load-value", format!("{}: {k} was {v:?}, file gave back {:?}", on.name, props.get(k))));
                        }
                    }
                    MVal::Bool(_) => {
                        if props.get(k) != Some(v) {
                            return Err(fail("harness:load-value", format!("{}: {k} was {v:?}, file gave back {:?}", on.name, props.get(k))));
                        }
                    }
                    MVal::Uid(u) => {
                        let holders = decoded
                            .descendants()
                            .filter(|i| decoded.get_unique_id(i.referent()).map(Uk) == Some(Uk(*u)))
                            .count();
                        let actual = match props.get(k) {
                            Some(MVal::Uid(a)) => *a,
                            other => return Err(fail("c12:id-changed-by-load", format!("{}: UniqueId {u} came back as {other:?}", on.name))),
                        };
                        let fresh = !self.seen_ids.contains(&Uk(actual));
                        if holders != 1 || !(Uk(actual) == Uk(*u) || fresh) {
                            return Err(fail(
                                "c12:id-changed-by-load",
                                format!("{}: UniqueId {u} came back as {actual}; {holders} decoded instance(s) hold the original", on.name),
                            ));
                        }
                    }
                }
            }
            gained |= props.len() > on.props.len();
            m.order.push(*n);
            self.all_refs_ever.insert(*n);
            m.nodes.insert(
                *n,
                MNode {
                    parent: inst.parent(),
                    children: inst.children().to_vec(),
                    name: on.name.clone(),
                    class: on.class.clone(),
                    props,
                },
            );
        }
        ctx.label_if(gained, "load_gained_default_columns");
        self.all_refs_ever.insert(m.root);
        for u in m.nodes.values().filter_map(|n| match n.props.get("UniqueId") {
            Some(MVal::Uid(u)) => Some(*u),
            _ => None,
        }) {
            self.seen_ids.insert(Uk(u));
        }
        self.real[d] = decoded;
        self.model[d] = m;
        self.from_xml[d] = xml;
        // properties other than Ref / UniqueId are not tracked by this engine: the
        // instances here only ever carry those two kinds
        Ok(())
    }

    /// Bind the clones the real DOM produced to the model's expectation,
    /// checking isomorphism (C11), then register them in the model.
    #[allow(clippy::too_many_arguments)]
    /// Forest invariants of what a clone call returned, through the public API only and without the
    /// model (so they are judged even when the clone cannot be bound to its source afterwards).
    fn clone_result_is_a_forest(&self, t: usize, returned: &[Ref]) -> R {
        let dom = &self.real[t];
        let mut seen: HashSet<Ref> = HashSet::new();
        for root in returned {
            let mut stack = vec![*root];
            while let Some(r) = stack.pop() {
                if !seen.insert(r) {
                    return Err(fail("c09:child-listed-twice", "an instance created by a clone call is listed by two parents (or twice)".into()));
                }
                let Some(inst) = dom.get_by_ref(r) else {
                    return Err(fail("c09:dangling-child", "a clone lists a child that cannot be looked up".into()));
                };
                for c in inst.children() {
                    match dom.get_by_ref(*c) {
                        None => return Err(fail("c09:dangling-child", "a clone lists a child that cannot be looked up".into())),
                        Some(ci) if ci.parent() != r => {
                            return Err(fail(
                                "c09:child-parent-disagree",
                                format!("clone {} lists {} as a child, but that instance names another parent", inst.name, ci.name),
                            ))
                        }
                        Some(_) => stack.push(*c),
                    }
                }
            }
        }
        Ok(())
    }

    fn bind_clones(
        &mut self,
        s: usize,
        t: usize,
        src_snapshot: &MDom,
        originals: &[Ref],
        returned: &[Ref],
        before: &HashMap<Uk, usize>,
        ctx: &mut CaseCtx,
    ) -> R {
        if originals.len() != returned.len() {
            return Err(fail("c11:return-count", "wrong number of clone roots returned".into()));
        }
        self.clone_result_is_a_forest(t, returned)?;
        // original -> its clones (a referent listed twice, or listed below another listed one, is
        // cloned more than once), by parallel walk; every walk keeps its own parent / children links
        let mut clones_of: HashMap<Ref, Vec<Ref>> = HashMap::new();
        let mut all_clones: HashSet<Ref> = HashSet::new();
        // (original, clone, clone of the parent within this subtree, clones of the children)
        let mut order: Vec<(Ref, Ref, Ref, Vec<Ref>)> = Vec::new();
        let mut roots_idx: HashSet<usize> = HashSet::new();
        for (o, c) in originals.iter().zip(returned.iter()) {
            roots_idx.insert(order.len());
            let mut stack = vec![(*o, *c, Ref::none())];
            while let Some((o, c, pc)) = stack.pop() {
                if self.all_refs_ever.contains(&c) || !all_clones.insert(c) {
                    return Err(fail("c11:referent-not-fresh", "a clone reuses an existing referent".into()));
                }
                clones_of.entry(o).or_default().push(c);
                let Some(inst) = self.real[t].get_by_ref(c) else {
                    return Err(fail("c11:clone-missing", "a cloned instance cannot be looked up in the destination".into()));
                };
                let oc = &src_snapshot.nodes[&o].children;
                if inst.children().len() != oc.len() {
                    return Err(fail(
                        "c11:shape",
                        format!("clone of {} has {} children, original {}", src_snapshot.nodes[&o].name, inst.children().len(), oc.len()),
                    ));
                }
                order.push((o, c, pc, inst.children().to_vec()));
                for (a, b) in oc.iter().zip(inst.children().iter()).rev() {
                    stack.push((*a, *b, c));
                }
            }
        }
        let cloned_set: HashSet<Ref> = clones_of.keys().copied().collect();
        let map_one = |r: &Ref| -> Option<Ref> { clones_of.get(r).filter(|v| v.len() == 1).map(|v| v[0]) };
        let mut inside = false;
        let mut outside_kept = false;
        let mut outside_nulled = false;
        // register clones in the model with the documented property values
        for (i, (o, c, pc, kids)) in order.iter().enumerate() {
            let on = &src_snapshot.nodes[o];
            let is_root = roots_idx.contains(&i);
            let mut props = BTreeMap::new();
            for (k, v) in &on.props {
                let nv = match v {
                    MVal::Ref(r) => {
                        if r.is_none() {
                            MVal::Ref(*r)
                        } else if let Some(n) = map_one(r) {
                            inside = true;
                            MVal::Ref(n)
                        } else if let Some(many) = clones_of.get(r) {
                            // the target was cloned several times in this call: any of its copies
                            inside = true;
                            match self.real[t].get_by_ref(*c).and_then(|x| x.properties.get(&k.as_str().into())) {
                                Some(Variant::Ref(got)) if many.contains(got) => MVal::Ref(*got),
                                other => {
                                    return Err(fail(
                                        "c11:ref-rewrite:inside",
                                        format!("clone of {}: Ref property {k} points at an instance cloned {} times in this call; it is {other:?}, none of the copies", on.name, many.len()),
                                    ))
                                }
                            }
                        } else if self.model[t].nodes.contains_key(r) {
                            outside_kept = true;
                            MVal::Ref(*r)
                        } else {
                            outside_nulled = true;
                            MVal::Ref(Ref::none())
                        }
                    }
                    other => other.clone(),
                };
                props.insert(k.clone(), nv);
            }
            let node = MNode {
                parent: if is_root { Ref::none() } else { *pc },
                children: kids.clone(),
                name: on.name.clone(),
                class: on.class.clone(),
                props,
            };
            self.model[t].order.push(*c);
            self.all_refs_ever.insert(*c);
            self.model[t].nodes.insert(*c, node);
        }
        if inside {
            ctx.label("clone_ref_inside");
        }
        if outside_kept {
            ctx.label("clone_ref_outside_kept");
        }
        if outside_nulled {
            ctx.label("clone_ref_outside_nulled");
        }
        if inside && (outside_kept || outside_nulled) {
            ctx.nontrivial();
        }
        // C11 direct checks (the full diff of check_all would attribute them to C10)
        for (i, (o, c, _, _)) in order.iter().enumerate() {
            let inst = self.real[t].get_by_ref(*c).unwrap();
            let mn = &self.model[t].nodes[c];
            if roots_idx.contains(&i) && inst.parent().is_some() {
                return Err(fail("c11:clone-root-has-parent", "the root of a clone has a parent".into()));
            }
            if inst.name != mn.name || inst.class.as_str() != mn.class {
                return Err(fail("c11:name-class", "clone differs in name or class".into()));
            }
            if inst.children() != mn.children.as_slice() {
                return Err(fail("c11:child-order", "clone differs in child order".into()));
            }
            for (k, v) in &mn.props {
                if let MVal::Ref(want) = v {
                    match inst.properties.get(&k.as_str().into()) {
                        Some(Variant::Ref(got)) if got == want => {}
                        other => {
                            let on = &src_snapshot.nodes[o];
                            let orig = on.props.get(k);
                            let kind = match orig {
                                Some(MVal::Ref(r)) if clones_of.contains_key(r) => "inside",
                                Some(MVal::Ref(r)) if self.model[t].nodes.contains_key(r) => "outside-present",
                                _ => "outside-absent",
                            };
                            return Err(fail(
                                &format!("c11:ref-rewrite:{kind}"),
                                format!("clone of {}: Ref property {k} ({kind} the cloned set) is {other:?}, documented {want:?}", on.name),
                            ));
                        }
                    }
                }
            }
            if inst.properties.len() != mn.props.len() {
                return Err(fail("c11:property-set", "clone has another property set".into()));
            }
        }
        // source untouched (when cloning into another DOM the snapshot is the source's model;
        // for clone_within the source nodes are still in the model unchanged)
        if s != t {
            for (r, n) in &src_snapshot.nodes {
                if self.model[s].nodes.get(r) != Some(n) {
                    return Err(fail("c11:source-changed", "model of the source changed".into()));
                }
            }
        }
        let incoming: Vec<Ref> = order.iter().map(|x| x.1).collect();
        let _ = &cloned_set;
        let collided = incoming.iter().any(|x| match self.model[t].nodes[x].props.get("UniqueId") {
            Some(MVal::Uid(u)) => before.contains_key(&Uk(*u)),
            _ => false,
        });
        if collided {
            ctx.label("uid_collision_on_clone");
        }
        self.adopt_ids(t, &incoming, before)?;
        Ok(())
    }
}

fn two_mut<T>(v: &mut [T], a: usize, b: usize) -> (&mut T, &mut T) {
    assert!(a != b);
    if a < b {
        let (x, y) = v.split_at_mut(b);
        (&mut x[a], &mut y[0])
    } else {
        let (x, y) = v.split_at_mut(a);
        (&mut y[0], &mut x[b])
    }
}

/// Run a history; the first oracle failure is returned.
pub fn run_history(h: &History, ctx: &mut CaseCtx) -> R {
    let mut w = World::new(h);
    if let Some(f) = w.init_error.take() {
        return Err(f);
    }
    for d in 0..w.model.len() {
        let refs: Vec<Ref> = w.model[d].order.clone();
        for r in refs {
            w.all_refs_ever.insert(r);
        }
    }
    w.check_all()?;
    for op in &h.ops {
        ctx.label(op.kind());
        w.apply(op, ctx)?;
        w.check_all()?;
    }
    // final: the instance maps hold exactly what the documented effects give
    for d in 0..w.real.len() {
        w.apply(&Op::RawRoundTrip { dom: d as u8 }, &mut CaseCtx::default())?;
    }
    w.check_all()?;
    Ok(())
}

// ---------------------------------------------------------------------------
// Strategies

pub fn ref_sel() -> BoxedStrategy<RefSel> {
    prop_oneof![
        1 => Just(RefSel::Null),
        1 => Just(RefSel::Absent),
        1 => Just(RefSel::SelfNode),
        3 => any::<u16>().prop_map(RefSel::InTree),
        4 => (0u8..3, any::<u16>()).prop_map(|(d, k)| RefSel::Live(d, k)),
    ]
    .boxed()
}

pub fn bnode(depth: u32) -> BoxedStrategy<BNode> {
    let leaf = (
        0u8..4,
        0u8..5,
        proptest::option::weighted(0.6, 0u8..4),
        proptest::collection::vec((0u8..3, ref_sel()), 0..3),
        prop_oneof![3 => Just(0u8), 2 => 0u8..64],
    )
        .prop_map(|(class, name, uid, refs, extras)| BNode {
            class,
            name,
            uid,
            refs,
            children: vec![],
            extras,
        });
    leaf.prop_recursive(depth, 12, 3, |inner| {
        (
            0u8..4,
            0u8..5,
            proptest::option::weighted(0.6, 0u8..4),
            proptest::collection::vec((0u8..3, ref_sel()), 0..3),
            proptest::collection::vec(inner, 0..4),
            prop_oneof![3 => Just(0u8), 2 => 0u8..64],
        )
            .prop_map(|(class, name, uid, refs, children, extras)| BNode {
                class,
                name,
                uid,
                refs,
                children,
                extras,
            })
    })
    .boxed()
}

pub fn op(loads: u8) -> BoxedStrategy<Op> {
    let d = || 0u8..3;
    let k = || any::<u16>();
    let base = prop_oneof![
        5 => (d(), proptest::option::weighted(0.85, k()), bnode(2)).prop_map(|(dom, parent, tree)| Op::Insert { dom, parent, tree }),
        2 => (d(), k()).prop_map(|(dom, node)| Op::Destroy { dom, node }),
        4 => (d(), k(), k()).prop_map(|(dom, node, dest)| Op::TransferWithin { dom, node, dest }),
        3 => (d(), k(), d(), k()).prop_map(|(src, node, dst, dest)| Op::Transfer { src, node, dst, dest }),
        3 => (d(), k()).prop_map(|(dom, node)| Op::CloneWithin { dom, node }),
        3 => (d(), k(), d()).prop_map(|(src, node, dst)| Op::CloneIntoExternal { src, node, dst }),
        3 => (d(), proptest::collection::vec(k(), 1..4), d(), proptest::bool::weighted(0.3)).prop_map(|(src, nodes, dst, overlap)| Op::CloneMulti { src, nodes, dst, overlap }),
        1 => d().prop_map(|dom| Op::RawRoundTrip { dom }),
        1 => (d(), k()).prop_map(|(src, node)| Op::FailedCloneElsewhere { src, node }),
        1 => (d(), k(), 0u8..6).prop_map(|(dom, node, steps)| Op::PartialWalk { dom, node, steps }),
    ];
    match loads {
        0 => base.boxed(),
        1 => prop_oneof![
            12 => base,
            2 => d().prop_map(|dom| Op::LoadBinary { dom }),
        ]
        .boxed(),
        _ => prop_oneof![
            12 => base,
            1 => d().prop_map(|dom| Op::LoadBinary { dom }),
            2 => d().prop_map(|dom| Op::LoadXml { dom }),
        ]
        .boxed(),
    }
}

/// `loads`: 0 = none, 1 = binary loads, 2 = binary and XML loads
pub fn history(max_ops: usize, loads: u8) -> BoxedStrategy<History> {
    (
        proptest::collection::vec(bnode(2), 1..4),
        proptest::collection::vec(op(loads), 0..=max_ops),
    )
        .prop_map(|(doms, ops)| History { doms, ops })
        .boxed()
}
