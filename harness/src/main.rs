//! rbxverif — property-based verification harness for rbx-dom.
//!
//! usage: rbxverif check <Cxx> [--tier quick|thorough] [--seed N] [--replay FILE] [--strict]
//!        rbxverif worker            (internal: C13 sandbox worker)
//!        rbxverif dbstats

mod checks;
mod dbview;
mod engine;
mod gen;
mod model;
mod oracle;
mod sandbox;
mod spec;

use std::path::PathBuf;
use std::time::Instant;

use engine::{Findings, RunCfg, Tier};

#[global_allocator]
static GLOBAL: sandbox::Tracking = sandbox::Tracking;

fn usage() -> ! {
    eprintln!("usage: rbxverif check <Cxx> [--tier quick|thorough] [--seed N] [--replay FILE] [--strict]");
    std::process::exit(2)
}

fn main() {
    let args: Vec<String> = std::env::args().collect();
    if args.len() < 2 {
        usage();
    }
    match args[1].as_str() {
        "check" => {
            if args.len() < 3 {
                usage();
            }
            let property = args[2].to_uppercase();
            let mut tier = match std::env::var("VERIF_TIER").ok().as_deref() {
                Some("thorough") => Tier::Thorough,
                _ => Tier::Quick,
            };
            let mut seed: u64 = std::env::var("VERIF_SEED")
                .ok()
                .and_then(|s| s.trim().parse::<i128>().ok())
                .map(|v| v as u64)
                .unwrap_or(1);
            let mut replay = None;
            let mut strict = false;
            let mut i = 3;
            while i < args.len() {
                match args[i].as_str() {
                    "--tier" => {
                        i += 1;
                        tier = match args.get(i).map(|s| s.as_str()) {
                            Some("thorough") => Tier::Thorough,
                            Some("quick") => Tier::Quick,
                            _ => usage(),
                        };
                    }
                    "--seed" => {
                        i += 1;
                        seed = args.get(i).and_then(|s| s.parse().ok()).unwrap_or_else(|| usage());
                    }
                    "--replay" => {
                        i += 1;
                        replay = Some(PathBuf::from(args.get(i).unwrap_or_else(|| usage())));
                    }
                    "--strict" => strict = true,
                    _ => usage(),
                }
                i += 1;
            }
            let threads = std::env::var("VERIF_THREADS")
                .ok()
                .and_then(|s| s.parse().ok())
                .unwrap_or_else(|| {
                    std::thread::available_parallelism()
                        .map(|n| n.get())
                        .unwrap_or(8)
                        .min(16)
                });
            let scale = std::env::var("VERIF_SCALE")
                .ok()
                .and_then(|s| s.parse().ok())
                .unwrap_or(1.0);
            let Some(entry) = checks::lookup(&property) else {
                eprintln!("unknown property {property}");
                std::process::exit(2);
            };
            let cfg = RunCfg {
                property: entry.id,
                tier,
                seed,
                threads,
                replay,
                strict,
                scale,
            };
            engine::install_panic_hook();
            let findings = Findings::load();
            let start = Instant::now();
            eprintln!(
                "[{}] tier={} seed={} threads={}",
                cfg.property,
                cfg.tier.name(),
                cfg.seed,
                cfg.threads
            );
            let ctx = engine::Ctx {
                cfg: &cfg,
                findings: &findings,
            };
            let report = (entry.run)(&ctx);
            let code = report.finish(&cfg, &findings, start.elapsed().as_secs_f64());
            std::process::exit(code);
        }
        "dbstats" => checks::dbstats(),
        "worker" => sandbox::worker_main(),
        "emit" => checks::c07::emit_main(),
        "deepdom" => checks::dom::deepdom_main(&args[2..]),
        "corpus" => checks::c13::corpus_main(args.get(2).map(|s| s.as_str()).unwrap_or("/verif/target/fuzz/corpus")),
        _ => usage(),
    }
}
