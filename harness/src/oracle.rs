//! Expected canonical DOMs computed from the *spec* (never from the built
//! DOM), and comparison under exactly the normalisations the property
//! statements name (DESIGN.md 1.4).

use std::collections::{BTreeMap, BTreeSet, HashMap};

use rbx_types::VariantType;

use crate::dbview::{self, Ty};
use crate::gen::forest::{CanonDom, CanonInst, GForest};
use crate::gen::vals::{self, GCf, GContent, GRef, GVal};

#[derive(Clone, Copy, Debug, PartialEq, Eq)]
pub enum Format {
    Binary,
    /// XML with reflection (default options, or WriteUnknown+ReadUnknown)
    Xml,
    /// XML with NoReflection on both sides
    XmlNoReflection,
}

#[derive(Clone, Debug, Default)]
pub struct Expectation {
    pub dom: CanonDom,
    /// per class: canonical names some written instance of the class carried
    pub class_props: HashMap<String, BTreeSet<String>>,
    /// (class, canonical) pairs where two given spellings collapsed
    pub collapsed: BTreeSet<(String, String)>,
    /// properties dropped because the database says they do not serialize
    pub dropped: usize,
    /// (class, name) of properties the database marks DoesNotSerialize -> values written under that
    /// name. The binary writer and the XML writer with default options drop them; the XML writer
    /// with WriteUnknown / NoReflection treats them as unknown properties and keeps them. Either
    /// is accepted: absent, or present with the value an unknown property would come back with.
    pub optional: HashMap<(String, String), Vec<GVal>>,
    /// legacy values the migration cannot convert
    pub unmigratable: usize,
}

/// Quantise a Color3 like the documented conversion: round(clamp(c,0,1)*255), NaN -> 0.
pub fn quantise(bits: u32) -> u8 {
    let v = f32::from_bits(bits);
    if v.is_nan() {
        return 0;
    }
    let c = if v < 0.0 {
        0.0
    } else if v > 1.0 {
        1.0
    } else {
        v
    };
    (c * 255.0).round() as u8
}

/// The contents of an Attributes value after travelling through the attribute blob.
pub fn normalise_attributes(v: &GVal) -> GVal {
    match v {
        GVal::Attributes(entries) => GVal::Attributes(
            entries
                .iter()
                .map(|(k, v)| {
                    (
                        k.clone(),
                        match v {
                            GVal::String(s) => GVal::BinaryString(s.as_bytes().to_vec()),
                            other => other.clone(),
                        },
                    )
                })
                .collect(),
        ),
        other => other.clone(),
    }
}

/// Encode a Tags value to its blob (docs/binary-strings.md): members joined by NUL.
pub fn tags_blob(tags: &[String]) -> Vec<u8> {
    tags.join("\0").into_bytes()
}

/// MaterialColors blob per docs/binary-strings.md: 69 bytes, 2 reserved triples then
/// 21 materials in table order; missing materials take the default colour.
pub fn material_colors_blob(v: &GVal) -> Vec<u8> {
    let full = v.normalise_material_colors();
    let mut out = vec![0u8; 6];
    if let GVal::MaterialColors(list) = full {
        for (_, c) in list {
            out.extend_from_slice(&c);
        }
    }
    out
}

/// What a value of an *unknown* property turns into.
fn unknown_value(v: &GVal, fmt: Format, attr_blob: &dyn Fn(&GVal) -> Option<Vec<u8>>) -> GVal {
    match fmt {
        Format::Binary => match v {
            // untyped string-like blobs return as BinaryString
            GVal::String(s) | GVal::ContentId(s) => GVal::BinaryString(s.as_bytes().to_vec()),
            GVal::Tags(t) => GVal::BinaryString(tags_blob(t)),
            GVal::MaterialColors(_) => GVal::BinaryString(material_colors_blob(v)),
            GVal::Attributes(_) => {
                let _ = attr_blob;
                normalise_attributes(v)
            }
            other => other.clone(),
        },
        Format::Xml | Format::XmlNoReflection => match v {
            GVal::BrickColor(n) => GVal::Int32(*n as i32),
            GVal::Tags(t) => GVal::BinaryString(tags_blob(t)),
            GVal::MaterialColors(_) => GVal::BinaryString(material_colors_blob(v)),
            GVal::Attributes(_) => normalise_attributes(v),
            other => other.clone(),
        },
    }
}

/// Convert a value of a known property to what the reader is documented to return.
fn known_value(v: &GVal, canonical_ty: &Ty, ser_ty: &Ty) -> GVal {
    let ct = canonical_ty.variant_type();
    let st = ser_ty.variant_type();
    match (v, ct, st) {
        // Color3 stored in a byte-colour property is quantised
        (GVal::Color3(c), _, VariantType::Color3uint8) => {
            GVal::Color3uint8([quantise(c[0]), quantise(c[1]), quantise(c[2])])
        }
        (GVal::Attributes(_), _, _) => normalise_attributes(v),
        (GVal::MaterialColors(_), _, _) => v.normalise_material_colors(),
        // both writers accept the narrower number type for a 64-bit property and store it widened
        (GVal::Int32(i), _, VariantType::Int64) => GVal::Int64(*i as i64),
        (GVal::Float32(b), _, VariantType::Float64) => GVal::Float64((f32::from_bits(*b) as f64).to_bits()),
        _ => v.clone(),
    }
}

/// What a legacy (migrating) property with value `val` must end up as:
/// (canonical name of the new property, value as a reader reports it).
/// None when the database's own migration rejects the value.
pub fn migrate_value(class: &str, view: &dbview::PropView, val: &GVal) -> Option<(String, GVal)> {
    let m = view.migration?;
    let variant = val.to_variant(&|_| rbx_types::Ref::none(), rbx_types::Ref::none());
    let migrated = m.perform(&variant).ok()?;
    let gv = GVal::from_variant(&migrated, &|_| GRef::Dangling);
    let target = dbview::resolve(class, &m.new_property_name)?;
    let ser = target.ser.as_ref()?;
    Some((
        target.roundtrip.clone(),
        known_value(&gv, &target.canonical_ty, &ser.ty),
    ))
}

/// The database default of `(class, canonical)` as a reader of a file would
/// report it, if the database has one.
pub fn default_as_read(class: &str, canonical: &str) -> Option<GVal> {
    let v = dbview::default_of(class, canonical)?;
    let gv = GVal::from_variant(v, &|_| GRef::Dangling);
    let view = dbview::resolve(class, canonical)?;
    let ser = view.ser.as_ref()?;
    Some(known_value(&gv, &view.canonical_ty, &ser.ty))
}

/// Expected result of writing `forest.roots` and reading back.
pub fn expect_roundtrip(
    forest: &GForest,
    fmt: Format,
    attr_blob: &dyn Fn(&GVal) -> Option<Vec<u8>>,
) -> Expectation {
    let written = forest.written_preorder();
    let pos: HashMap<usize, usize> = written.iter().enumerate().map(|(p, n)| (*n, p)).collect();
    let map_ref = |r: &GRef| match r {
        GRef::Node(i) => match pos.get(i) {
            Some(p) => GRef::Node(*p),
            None => GRef::None,
        },
        GRef::None | GRef::Dangling => GRef::None,
    };
    let (_, kids) = forest.child_table();
    let mut exp = Expectation::default();

    let mut built: HashMap<usize, CanonInst> = HashMap::new();
    for &n in written.iter().rev() {
        let node = &forest.nodes[n];
        let mut props: BTreeMap<String, GVal> = BTreeMap::new();
        for (name, val) in &node.props {
            let val = val.map_refs(&map_ref);
            let view = if fmt == Format::XmlNoReflection {
                None
            } else {
                dbview::resolve(&node.class, name)
            };
            let (canonical, value) = match view {
                None => (name.clone(), unknown_value(&val, fmt, attr_blob)),
                Some(view) if view.migration.is_some() => {
                    // legacy property: ends up as the new property with the migrated value
                    match migrate_value(&node.class, &view, &val) {
                        Some(x) => x,
                        None => {
                            exp.unmigratable += 1;
                            continue;
                        }
                    }
                }
                Some(view) => match &view.ser {
                    None => {
                        exp.dropped += 1;
                        exp.optional.entry((node.class.clone(), name.clone())).or_default().push(unknown_value(&val, fmt, attr_blob));
                        continue;
                    }
                    Some(ser) => (
                        view.roundtrip.clone(),
                        known_value(&val, &view.canonical_ty, &ser.ty),
                    ),
                },
            };
            if props.insert(canonical.clone(), value).is_some() {
                exp.collapsed.insert((node.class.clone(), canonical.clone()));
            }
            exp.class_props
                .entry(node.class.clone())
                .or_default()
                .insert(canonical);
        }
        let children = kids[n].iter().filter_map(|c| built.remove(c)).collect();
        built.insert(
            n,
            CanonInst {
                class: node.class.clone(),
                name: node.name.clone(),
                props,
                children,
            },
        );
    }
    exp.dom = CanonDom {
        roots: forest.roots.iter().filter_map(|r| built.remove(r)).collect(),
    };
    exp
}

#[derive(Clone, Copy, Debug)]
pub struct Norm {
    /// a rotation within float epsilon of a basis may come back as that basis
    pub snap_rotation: bool,
    /// NaNs are compared as a class
    pub nan_class: bool,
    /// the same snap inside an attribute blob (the attribute codec uses the
    /// same rotation-id mechanism whatever file format carries the blob)
    pub snap_in_attributes: bool,
    /// an instance may gain properties other same-class instances carried
    pub extra_names_allowed: bool,
}

impl Norm {
    pub fn binary() -> Norm {
        Norm {
            snap_rotation: true,
            nan_class: false,
            snap_in_attributes: true,
            extra_names_allowed: true,
        }
    }
    pub fn xml() -> Norm {
        Norm {
            snap_rotation: false,
            nan_class: true,
            snap_in_attributes: true,
            extra_names_allowed: false,
        }
    }
}

fn canon_nan32(b: u32) -> u32 {
    if f32::from_bits(b).is_nan() {
        0x7fc0_0000
    } else {
        b
    }
}

fn canon_nan64(b: u64) -> u64 {
    if f64::from_bits(b).is_nan() {
        0x7ff8_0000_0000_0000
    } else {
        b
    }
}

/// Map every float inside a value.
pub fn map_floats(v: &GVal, f32m: &dyn Fn(u32) -> u32, f64m: &dyn Fn(u64) -> u64) -> GVal {
    let m3 = |a: &[u32; 3]| [f32m(a[0]), f32m(a[1]), f32m(a[2])];
    let mcf = |c: &GCf| {
        let mut rot = [0u32; 9];
        for i in 0..9 {
            rot[i] = f32m(c.rot[i]);
        }
        GCf {
            pos: m3(&c.pos),
            rot,
        }
    };
    match v {
        GVal::CFrame(c) => GVal::CFrame(mcf(c)),
        GVal::OptionalCFrame(Some(c)) => GVal::OptionalCFrame(Some(mcf(c))),
        GVal::Color3(c) => GVal::Color3(m3(c)),
        GVal::Vector3(c) => GVal::Vector3(m3(c)),
        GVal::ColorSequence(k) => {
            GVal::ColorSequence(k.iter().map(|(t, c)| (f32m(*t), m3(c))).collect())
        }
        GVal::Float32(b) => GVal::Float32(f32m(*b)),
        GVal::Float64(b) => GVal::Float64(f64m(*b)),
        GVal::NumberRange(a, b) => GVal::NumberRange(f32m(*a), f32m(*b)),
        GVal::NumberSequence(k) => GVal::NumberSequence(k.iter().map(m3).collect()),
        GVal::PhysicalProperties(Some(p)) => {
            let mut o = [0u32; 5];
            for i in 0..5 {
                o[i] = f32m(p[i]);
            }
            GVal::PhysicalProperties(Some(o))
        }
        GVal::Ray(r) => {
            let mut o = [0u32; 6];
            for i in 0..6 {
                o[i] = f32m(r[i]);
            }
            GVal::Ray(o)
        }
        GVal::Region3(r) => {
            let mut o = [0u32; 6];
            for i in 0..6 {
                o[i] = f32m(r[i]);
            }
            GVal::Region3(o)
        }
        GVal::Rect(r) => {
            let mut o = [0u32; 4];
            for i in 0..4 {
                o[i] = f32m(r[i]);
            }
            GVal::Rect(o)
        }
        GVal::UDim(s, o) => GVal::UDim(f32m(*s), *o),
        GVal::UDim2(a, b, c, d) => GVal::UDim2(f32m(*a), *b, f32m(*c), *d),
        GVal::Vector2(v) => GVal::Vector2([f32m(v[0]), f32m(v[1])]),
        GVal::Attributes(a) => GVal::Attributes(
            a.iter()
                .map(|(k, v)| (k.clone(), map_floats(v, f32m, f64m)))
                .collect(),
        ),
        other => other.clone(),
    }
}

fn cf_matches(exp: &GCf, act: &GCf, norm: &Norm) -> bool {
    if exp == act {
        return true;
    }
    if norm.snap_rotation && exp.pos == act.pos {
        if let Some((_, snapped)) = vals::snap_target(&exp.rot) {
            return act.rot == snapped;
        }
    }
    false
}

/// Does `act` equal `exp` under the normalisations of `norm`?
pub fn val_matches(exp: &GVal, act: &GVal, norm: &Norm) -> bool {
    let (exp, act) = if norm.nan_class {
        (
            map_floats(exp, &canon_nan32, &canon_nan64),
            map_floats(act, &canon_nan32, &canon_nan64),
        )
    } else {
        (exp.clone(), act.clone())
    };
    match (&exp, &act) {
        (GVal::CFrame(e), GVal::CFrame(a)) => cf_matches(e, a, norm),
        (GVal::OptionalCFrame(Some(e)), GVal::OptionalCFrame(Some(a))) => cf_matches(e, a, norm),
        (GVal::Attributes(e), GVal::Attributes(a)) => {
            let inner = Norm {
                snap_rotation: norm.snap_rotation || norm.snap_in_attributes,
                ..*norm
            };
            e.len() == a.len()
                && e.iter()
                    .zip(a.iter())
                    .all(|((ek, ev), (ak, av))| ek == ak && val_matches(ev, av, &inner))
        }
        // an attribute map stored on a property unknown to the database comes
        // back as the blob itself: decode it with the independent codec
        (GVal::Attributes(_), GVal::BinaryString(b)) => {
            match crate::spec::refattr::decode_map(b) {
                Ok(entries) => val_matches(&exp, &GVal::Attributes(entries), norm),
                Err(_) => false,
            }
        }
        (GVal::MaterialColors(_), GVal::MaterialColors(_)) => {
            exp.normalise_material_colors() == act.normalise_material_colors()
        }
        (e, a) => e == a,
    }
}

/// Compare an observed DOM with the expectation. Returns a description of the
/// first difference.
pub fn compare_dom(exp: &Expectation, act: &CanonDom, norm: &Norm) -> Result<(), (String, String)> {
    if exp.dom.roots.len() != act.roots.len() {
        return Err((
            "root-count".into(),
            format!(
                "expected {} roots, decoded {}",
                exp.dom.roots.len(),
                act.roots.len()
            ),
        ));
    }
    let mut stack: Vec<(&CanonInst, &CanonInst, String)> = exp
        .dom
        .roots
        .iter()
        .zip(act.roots.iter())
        .enumerate()
        .map(|(i, (e, a))| (e, a, format!("root[{i}]")))
        .collect();
    while let Some((e, a, path)) = stack.pop() {
        if e.class != a.class {
            return Err((
                "class".into(),
                format!("{path}: class {:?} came back as {:?}", e.class, a.class),
            ));
        }
        if e.name != a.name {
            return Err((
                "name".into(),
                format!("{path}: name {:?} came back as {:?}", e.name, a.name),
            ));
        }
        if e.children.len() != a.children.len() {
            return Err((
                "child-count".into(),
                format!(
                    "{path} ({}): expected {} children, decoded {}",
                    e.class,
                    e.children.len(),
                    a.children.len()
                ),
            ));
        }
        for (name, ev) in &e.props {
            if exp.collapsed.contains(&(e.class.clone(), name.clone())) {
                continue;
            }
            match a.props.get(name) {
                None => {
                    return Err((
                        format!("missing:{:?}", ev.ty()),
                        format!(
                            "{path} ({}): property {name:?} ({:?}) missing after decode; has {:?}",
                            e.class,
                            ev.ty(),
                            a.props.keys().collect::<Vec<_>>()
                        ),
                    ))
                }
                Some(av) => {
                    if !val_matches(ev, av, norm) {
                        return Err((
                            format!("value:{:?}", ev.ty()),
                            format!(
                                "{path} ({}): property {name:?} expected {:?} decoded {:?}",
                                e.class, ev, av
                            ),
                        ));
                    }
                }
            }
        }
        for name in a.props.keys() {
            if e.props.contains_key(name) {
                continue;
            }
            let allowed = (norm.extra_names_allowed
                && exp
                    .class_props
                    .get(&e.class)
                    .map(|s| s.contains(name))
                    .unwrap_or(false))
                || exp
                    .optional
                    .get(&(e.class.clone(), name.clone()))
                    .map(|vals| vals.iter().any(|v| val_matches(v, &a.props[name], norm)))
                    .unwrap_or(false);
            if !allowed {
                return Err((
                    "extra-property".into(),
                    format!(
                        "{path} ({}): decoded DOM has property {name:?} = {:?} that was never written for this class",
                        e.class, a.props[name]
                    ),
                ));
            }
        }
        for (i, (ec, ac)) in e.children.iter().zip(a.children.iter()).enumerate() {
            stack.push((ec, ac, format!("{path}.child[{i}]")));
        }
    }
    Ok(())
}
