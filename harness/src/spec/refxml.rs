//! XML document generator written from docs/xml.md (links no rbx_xml code).
//! Renders a logical forest under a *document plan* that varies what the
//! specification leaves open: referent naming, property order, indentation,
//! optional elements, numeric spellings.

use serde::{Deserialize, Serialize};

use crate::dbview;
use crate::gen::forest::GForest;
use crate::gen::vals::{GCf, GContent, GRef, GVal};
use crate::oracle;
use crate::spec::refattr;

#[derive(Clone, Debug, PartialEq, Serialize, Deserialize)]
pub struct DocPlan {
    /// 0 = sequential integers, 1 = RBX + 32 hex digits, 2 = arbitrary tokens
    pub referent_style: u8,
    /// keys ordering the property elements of every Item (empty = given order)
    pub prop_order: Vec<u32>,
    /// indentation / newlines between elements
    pub pretty: bool,
    pub meta: bool,
    pub external: bool,
    /// 0 = shortest decimal, 1 = always with ".0"/exponent variants, 2 = "+INF" / explicit plus for exponents
    pub float_style: u8,
    /// fill the top byte of Color3uint8 with FF (SHOULD in the document)
    pub color_ff: bool,
    /// write string properties named Source as ProtectedString
    pub protected_strings: bool,
    /// wrap base64 at 72 columns
    pub wrap_base64: bool,
    /// CDATA for strings
    pub cdata_strings: bool,
    /// write BrickColor as <int> (true, what Roblox does) or as <BrickColor>
    pub brickcolor_as_int: bool,
    /// put the SharedStrings dictionary before the Items (forward use) instead of after
    pub dictionary_first: bool,
    /// an XML declaration and a comment at the top
    pub prolog: bool,
    /// write legacy ContentId properties with the historical element name `Content`
    pub contentid_as_content: bool,
}

impl DocPlan {
    pub fn plain() -> DocPlan {
        DocPlan {
            referent_style: 1,
            prop_order: vec![],
            pretty: false,
            meta: false,
            external: false,
            float_style: 0,
            color_ff: true,
            protected_strings: false,
            wrap_base64: false,
            cdata_strings: false,
            brickcolor_as_int: true,
            dictionary_first: false,
            prolog: false,
            contentid_as_content: false,
        }
    }
}

pub fn escape_text(s: &str) -> String {
    let mut o = String::with_capacity(s.len());
    for c in s.chars() {
        match c {
            '<' => o.push_str("&lt;"),
            '>' => o.push_str("&gt;"),
            '&' => o.push_str("&amp;"),
            // a literal CR would be normalised to LF by a conforming parser
            '\r' => o.push_str("&#13;"),
            _ => o.push(c),
        }
    }
    o
}

pub fn escape_attr(s: &str) -> String {
    let mut o = String::with_capacity(s.len());
    for c in s.chars() {
        match c {
            '<' => o.push_str("&lt;"),
            '>' => o.push_str("&gt;"),
            '&' => o.push_str("&amp;"),
            '"' => o.push_str("&quot;"),
            '\r' => o.push_str("&#13;"),
            '\n' => o.push_str("&#10;"),
            '\t' => o.push_str("&#9;"),
            _ => o.push(c),
        }
    }
    o
}

fn cdata(s: &str) -> String {
    // "]]>" cannot appear inside a CDATA section: split it
    format!("<![CDATA[{}]]>", s.replace("]]>", "]]]]><![CDATA[>"))
}

pub fn text_content(s: &str, plan: &DocPlan) -> String {
    // Leading / trailing (or only) whitespace is wrapped in CDATA, as Roblox
    // itself does: docs/xml.md says leading and trailing whitespace is ignored,
    // so plain text would be ambiguous. CDATA cannot carry CR (a parser
    // normalises it); the reader-direction generator does not produce CR.
    let outer_ws = s.chars().next().map(|c| c.is_whitespace()).unwrap_or(false)
        || s.chars().last().map(|c| c.is_whitespace()).unwrap_or(false);
    if (plan.cdata_strings || outer_ws) && !s.contains('\r') {
        cdata(s)
    } else {
        escape_text(s)
    }
}

pub fn f32_text(bits: u32, plan: &DocPlan) -> String {
    let v = f32::from_bits(bits);
    if v.is_nan() {
        return "NAN".into();
    }
    if v == f32::INFINITY {
        return if plan.float_style == 2 { "+INF".into() } else { "INF".into() };
    }
    if v == f32::NEG_INFINITY {
        return "-INF".into();
    }
    let shortest = format!("{v}");
    match plan.float_style {
        1 => {
            if shortest.contains('.') || shortest.contains('e') {
                shortest
            } else {
                format!("{shortest}.0")
            }
        }
        2 => format!("{v:e}").replace('e', "e+").replace("e+-", "e-"),
        _ => shortest,
    }
}

pub fn f64_text(bits: u64, plan: &DocPlan) -> String {
    let v = f64::from_bits(bits);
    if v.is_nan() {
        return "NAN".into();
    }
    if v == f64::INFINITY {
        return if plan.float_style == 2 { "+INF".into() } else { "INF".into() };
    }
    if v == f64::NEG_INFINITY {
        return "-INF".into();
    }
    let shortest = format!("{v}");
    match plan.float_style {
        1 => {
            if shortest.contains('.') || shortest.contains('e') {
                shortest
            } else {
                format!("{shortest}.0")
            }
        }
        2 => format!("{v:e}").replace('e', "e+").replace("e+-", "e-"),
        _ => shortest,
    }
}

fn b64(bytes: &[u8], plan: &DocPlan) -> String {
    let s = base64::encode(bytes);
    if plan.wrap_base64 && s.len() > 72 {
        let mut o = String::new();
        for (i, c) in s.chars().enumerate() {
            if i > 0 && i % 72 == 0 {
                o.push('\n');
            }
            o.push(c);
        }
        o
    } else {
        s
    }
}

fn tag(name: &str, inner: String) -> String {
    format!("<{name}>{inner}</{name}>")
}

fn v3(tags: [&str; 3], v: &[u32], plan: &DocPlan) -> String {
    (0..3).map(|i| tag(tags[i], f32_text(v[i], plan))).collect()
}

fn cframe_body(c: &GCf, plan: &DocPlan) -> String {
    let names = ["R00", "R01", "R02", "R10", "R11", "R12", "R20", "R21", "R22"];
    let mut s = v3(["X", "Y", "Z"], &c.pos, plan);
    for i in 0..9 {
        s.push_str(&tag(names[i], f32_text(c.rot[i], plan)));
    }
    s
}

fn content_child(uri: &str, plan: &DocPlan, legacy: bool) -> String {
    if uri.is_empty() {
        "<null></null>".into()
    } else if legacy {
        tag("url", text_content(uri, plan))
    } else {
        tag("uri", text_content(uri, plan))
    }
}

/// Context needed to render references.
pub struct RefNames<'a> {
    pub referent_of: &'a dyn Fn(&GRef) -> String,
    /// md5 attribute for a shared string
    pub shared_key: &'a dyn Fn(&[u8]) -> String,
}

/// Render one property element. Returns None for types docs/xml.md does not cover.
pub fn value_element(name: &str, v: &GVal, plan: &DocPlan, refs: &RefNames, protected: bool) -> Option<String> {
    let n = escape_attr(name);
    let el = |t: &str, inner: String| format!("<{t} name=\"{n}\">{inner}</{t}>");
    Some(match v {
        GVal::Axes(b) => el("Axes", tag("axes", b.to_string())),
        GVal::BinaryString(b) => el("BinaryString", b64(b, plan)),
        GVal::Bool(b) => el("bool", b.to_string()),
        GVal::BrickColor(num) => {
            if plan.brickcolor_as_int {
                el("int", num.to_string())
            } else {
                el("BrickColor", num.to_string())
            }
        }
        GVal::CFrame(c) => el("CoordinateFrame", cframe_body(c, plan)),
        GVal::Color3(c) => el("Color3", v3(["R", "G", "B"], c, plan)),
        GVal::Color3uint8(c) => {
            let mut packed = (c[0] as u32) << 16 | (c[1] as u32) << 8 | c[2] as u32;
            if plan.color_ff {
                packed |= 0xFF00_0000;
            }
            el("Color3uint8", packed.to_string())
        }
        GVal::ColorSequence(k) => {
            let mut s = String::new();
            for (t, c) in k {
                for x in [*t, c[0], c[1], c[2]] {
                    s.push_str(&f32_text(x, plan));
                    s.push(' ');
                }
                s.push_str("0 ");
            }
            el("ColorSequence", s)
        }
        GVal::ContentId(u) => {
            if plan.contentid_as_content {
                el("Content", content_child(u, plan, true))
            } else {
                el("ContentId", content_child(u, plan, true))
            }
        }
        GVal::Content(GContent::None) => el("Content", "<null></null>".into()),
        GVal::Content(GContent::Uri(u)) => el("Content", tag("uri", text_content(u, plan))),
        GVal::Content(GContent::Object(_)) => return None,
        GVal::Enum(x) => el("token", x.to_string()),
        GVal::Faces(b) => el("Faces", tag("faces", b.to_string())),
        GVal::Float32(b) => el("float", f32_text(*b, plan)),
        GVal::Float64(b) => el("double", f64_text(*b, plan)),
        GVal::Int32(i) => el("int", i.to_string()),
        GVal::Int64(i) => el("int64", i.to_string()),
        GVal::NumberRange(a, b) => el("NumberRange", format!("{} {} ", f32_text(*a, plan), f32_text(*b, plan))),
        GVal::NumberSequence(k) => {
            let mut s = String::new();
            for p in k {
                for x in p {
                    s.push_str(&f32_text(*x, plan));
                    s.push(' ');
                }
            }
            el("NumberSequence", s)
        }
        GVal::PhysicalProperties(None) => el("PhysicalProperties", tag("CustomPhysics", "false".into())),
        GVal::PhysicalProperties(Some(p)) => {
            let names = ["Density", "Friction", "Elasticity", "FrictionWeight", "ElasticityWeight"];
            let mut s = tag("CustomPhysics", "true".into());
            for i in 0..5 {
                s.push_str(&tag(names[i], f32_text(p[i], plan)));
            }
            el("PhysicalProperties", s)
        }
        GVal::Ray(r) => el(
            "Ray",
            format!(
                "{}{}",
                tag("origin", v3(["X", "Y", "Z"], &r[0..3], plan)),
                tag("direction", v3(["X", "Y", "Z"], &r[3..6], plan))
            ),
        ),
        GVal::Rect(r) => el(
            "Rect2D",
            format!(
                "{}{}",
                tag("min", format!("{}{}", tag("X", f32_text(r[0], plan)), tag("Y", f32_text(r[1], plan)))),
                tag("max", format!("{}{}", tag("X", f32_text(r[2], plan)), tag("Y", f32_text(r[3], plan))))
            ),
        ),
        GVal::Ref(r) => el("Ref", (refs.referent_of)(r)),
        GVal::SharedString(b) => el("SharedString", (refs.shared_key)(b)),
        GVal::String(s) => {
            if protected {
                el("ProtectedString", cdata_or_escape(s))
            } else {
                el("string", text_content(s, plan))
            }
        }
        GVal::UDim(s, o) => el("UDim", format!("{}{}", tag("S", f32_text(*s, plan)), tag("O", o.to_string()))),
        GVal::UDim2(xs, xo, ys, yo) => el(
            "UDim2",
            format!(
                "{}{}{}{}",
                tag("XS", f32_text(*xs, plan)),
                tag("XO", xo.to_string()),
                tag("YS", f32_text(*ys, plan)),
                tag("YO", yo.to_string())
            ),
        ),
        GVal::Vector2(v) => el("Vector2", format!("{}{}", tag("X", f32_text(v[0], plan)), tag("Y", f32_text(v[1], plan)))),
        GVal::Vector3(v) => el("Vector3", v3(["X", "Y", "Z"], v, plan)),
        GVal::Vector3int16(v) => el(
            "Vector3int16",
            format!("{}{}{}", tag("X", v[0].to_string()), tag("Y", v[1].to_string()), tag("Z", v[2].to_string())),
        ),
        GVal::OptionalCFrame(None) => el("OptionalCoordinateFrame", String::new()),
        GVal::OptionalCFrame(Some(c)) => el("OptionalCoordinateFrame", tag("CFrame", cframe_body(c, plan))),
        GVal::Tags(t) => el("BinaryString", b64(&oracle::tags_blob(t), plan)),
        GVal::Attributes(e) => el("BinaryString", b64(&refattr::encode(e).ok()?, plan)),
        GVal::MaterialColors(_) => el("BinaryString", b64(&oracle::material_colors_blob(v), plan)),
        GVal::Font { family, weight, style, cached } => {
            let mut s = tag("Family", content_child(family, plan, true));
            s.push_str(&tag("Weight", weight.to_string()));
            s.push_str(&tag("Style", if *style == 1 { "Italic".into() } else { "Normal".into() }));
            if let Some(c) = cached {
                s.push_str(&tag("CachedFaceId", content_child(c, plan, true)));
            }
            el("Font", s)
        }
        GVal::UniqueId(i, t, r) => el("UniqueId", format!("{:016x}{:08x}{:08x}", *r as u64, t, i)),
        // not covered by docs/xml.md
        GVal::SecurityCapabilities(_) | GVal::Vector2int16(_) | GVal::EnumItem(..) | GVal::Region3(_) | GVal::Region3int16(_) => {
            return None
        }
    })
}

fn cdata_or_escape(s: &str) -> String {
    if s.contains('\r') {
        escape_text(s)
    } else {
        cdata(s)
    }
}

pub struct Rendered {
    pub text: String,
    pub degrees: Vec<&'static str>,
    /// properties the document could not express (types docs/xml.md does not cover)
    pub skipped: usize,
}

/// Render the written part of `f` (all top-level nodes) as a docs/xml.md document.
/// Property names are the *serialized* names of the database (a foreign writer
/// such as Roblox Studio uses those).
pub fn document(f: &GForest, plan: &DocPlan) -> Rendered {
    let (top, kids) = f.child_table();
    let n = f.nodes.len();
    let mut degrees: Vec<&'static str> = Vec::new();
    let referent: Vec<String> = (0..n)
        .map(|i| match plan.referent_style {
            0 => i.to_string(),
            1 => format!("RBX{:032X}", (i as u128 + 1).wrapping_mul(0x9E37_79B9_7F4A_7C15_F39C_C060_5CED_C835)),
            _ => format!("ref-{}-{}", i * 7 + 3, ["a", "Z", "_x", "é"][i % 4]),
        })
        .collect();
    if plan.referent_style != 0 {
        degrees.push("non_numeric_referents");
    }
    let referent_of = |r: &GRef| match r {
        GRef::Node(i) => referent[*i].clone(),
        _ => "null".to_string(),
    };
    let shared_key = |b: &[u8]| base64::encode(crate::engine::fxhash(b).to_le_bytes().repeat(2));
    let refs = RefNames {
        referent_of: &referent_of,
        shared_key: &shared_key,
    };
    let nl = if plan.pretty { "\n" } else { "" };
    if plan.pretty {
        degrees.push("indentation");
    }
    let mut shared: Vec<Vec<u8>> = Vec::new();
    let mut skipped = 0usize;
    let mut forward_ref = false;

    // iterative rendering (deep trees)
    let mut body = String::new();
    enum Step {
        Open(usize, usize),
        Close(usize),
    }
    let mut stack: Vec<Step> = top.iter().rev().map(|t| Step::Open(*t, 1)).collect();
    let mut position = vec![usize::MAX; n];
    let mut counter = 0usize;
    {
        // pre-order positions for forward-reference detection
        let mut st: Vec<usize> = top.iter().rev().copied().collect();
        while let Some(i) = st.pop() {
            position[i] = counter;
            counter += 1;
            for c in kids[i].iter().rev() {
                st.push(*c);
            }
        }
    }
    while let Some(step) = stack.pop() {
        match step {
            Step::Open(i, depth) => {
                let node = &f.nodes[i];
                let pad = if plan.pretty { "\t".repeat(depth) } else { String::new() };
                body.push_str(&format!(
                    "{pad}<Item class=\"{}\" referent=\"{}\">{nl}{pad}<Properties>{nl}",
                    escape_attr(&node.class),
                    escape_attr(&referent[i])
                ));
                // property elements, Name among them
                let mut elements: Vec<String> = Vec::new();
                elements.push(format!("<string name=\"Name\">{}</string>", text_content(&node.name, plan)));
                for (pname, val) in &node.props {
                    let (ser_name, ser_val) = match dbview::resolve(&node.class, pname) {
                        None => (pname.clone(), val.clone()),
                        Some(view) => match &view.ser {
                            None => continue,
                            Some(ser) => {
                                let v = match (val, ser.ty.variant_type()) {
                                    (GVal::Color3(c), rbx_types::VariantType::Color3uint8) => GVal::Color3uint8([
                                        oracle::quantise(c[0]),
                                        oracle::quantise(c[1]),
                                        oracle::quantise(c[2]),
                                    ]),
                                    _ => val.clone(),
                                };
                                (ser.name.clone(), v)
                            }
                        },
                    };
                    if let GVal::SharedString(b) = &ser_val {
                        if !shared.contains(b) {
                            shared.push(b.clone());
                        }
                    }
                    if let GVal::Ref(GRef::Node(t)) = &ser_val {
                        if position[*t] > position[i] {
                            forward_ref = true;
                        }
                    }
                    let protected = plan.protected_strings && ser_name == "Source";
                    match value_element(&ser_name, &ser_val, plan, &refs, protected) {
                        Some(e) => elements.push(e),
                        None => skipped += 1,
                    }
                }
                if !plan.prop_order.is_empty() && elements.len() > 1 {
                    let keys = &plan.prop_order;
                    let mut idx: Vec<usize> = (0..elements.len()).collect();
                    idx.sort_by_key(|k| keys[(i + *k) % keys.len()].wrapping_mul(2654435761).wrapping_add((*k as u32) << 2));
                    if idx.iter().enumerate().any(|(a, b)| a != *b) {
                        degrees.push("shuffled_property_order");
                    }
                    elements = idx.into_iter().map(|k| elements[k].clone()).collect();
                }
                for e in elements {
                    body.push_str(&pad);
                    if plan.pretty {
                        body.push('\t');
                    }
                    body.push_str(&e);
                    body.push_str(nl);
                }
                body.push_str(&format!("{pad}</Properties>{nl}"));
                stack.push(Step::Close(depth));
                for c in kids[i].iter().rev() {
                    stack.push(Step::Open(*c, depth + 1));
                }
            }
            Step::Close(depth) => {
                let pad = if plan.pretty { "\t".repeat(depth) } else { String::new() };
                body.push_str(&format!("{pad}</Item>{nl}"));
            }
        }
    }
    if forward_ref {
        degrees.push("forward_reference");
    }
    let mut dict = String::new();
    if !shared.is_empty() {
        dict.push_str(&format!("<SharedStrings>{nl}"));
        for s in &shared {
            dict.push_str(&format!(
                "<SharedString md5=\"{}\">{}</SharedString>{nl}",
                shared_key(s),
                b64(s, plan)
            ));
        }
        dict.push_str(&format!("</SharedStrings>{nl}"));
    }
    let mut text = String::new();
    if plan.prolog {
        text.push_str("<?xml version=\"1.0\" encoding=\"utf-8\"?>\n<!-- written by an independent generator -->\n");
        degrees.push("xml_declaration_and_comment");
    }
    text.push_str(&format!("<roblox xmlns:xmime=\"http://www.w3.org/2005/05/xmlmime\" version=\"4\">{nl}"));
    if plan.meta {
        text.push_str(&format!("<Meta name=\"ExplicitAutoJoints\">true</Meta>{nl}"));
        degrees.push("meta_element");
    }
    if plan.external {
        text.push_str(&format!("<External>null</External>{nl}<External>nil</External>{nl}"));
        degrees.push("external_elements");
    }
    if plan.dictionary_first && !dict.is_empty() {
        text.push_str(&dict);
        degrees.push("shared_strings_before_items");
    }
    text.push_str(&body);
    if !plan.dictionary_first {
        text.push_str(&dict);
    }
    text.push_str("</roblox>");
    if plan.float_style != 0 {
        degrees.push("alternative_float_spellings");
    }
    if plan.color_ff {
        degrees.push("color3uint8_with_ff_top_byte");
    }
    if plan.wrap_base64 {
        degrees.push("wrapped_base64");
    }
    if plan.cdata_strings {
        degrees.push("cdata_strings");
    }
    if plan.protected_strings {
        degrees.push("protected_string");
    }
    if !plan.brickcolor_as_int {
        degrees.push("brickcolor_element_name");
    }
    if plan.contentid_as_content {
        degrees.push("contentid_as_legacy_content_element");
    }
    degrees.sort();
    degrees.dedup();
    Rendered {
        text,
        degrees,
        skipped,
    }
}
