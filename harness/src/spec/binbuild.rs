//! Build a docs/binary.md file from a logical forest spec and an encoding
//! plan (every degree of freedom the document leaves open).

use std::collections::{BTreeMap, HashMap};

use rbx_types::VariantType;
use serde::{Deserialize, Serialize};

use crate::dbview;
use crate::gen::forest::{self, GForest, GNode};
use crate::gen::vals::{GContent, GRef, GVal};
use crate::oracle;
use crate::spec::refattr;
use crate::spec::refbin::{self, BinClass, Column, Comp, ContentCol, Dialect, PlannedChunk};

#[derive(Clone, Debug, PartialEq, Serialize, Deserialize)]
pub enum ExtraKind {
    /// PROP chunk that ends right after the property name
    Truncated,
    /// PROP chunk with a value-type id the document does not define, plus payload
    UnknownType(u8, Vec<u8>),
}

#[derive(Clone, Debug, PartialEq, Serialize, Deserialize)]
pub struct ExtraProp {
    pub class_sel: u16,
    pub name: String,
    pub kind: ExtraKind,
}

#[derive(Clone, Debug, PartialEq, Serialize, Deserialize)]
pub struct Plan {
    /// compression per chunk, cycled
    pub comp: Vec<Comp>,
    /// keys that order INST chunks / PROP chunks / PRNT entries / SSTR entries
    pub order_keys: Vec<u32>,
    /// raw material for class ids and referents
    pub id_keys: Vec<u32>,
    pub sparse_ids: bool,
    pub meta: Option<Vec<(String, String)>>,
    /// (position selector, name, payload)
    pub junk: Vec<(u16, [u8; 4], Vec<u8>)>,
    /// use Int32 / Float32 columns for Int64 / Float64 properties when exact
    pub narrow: bool,
    pub extra: Vec<ExtraProp>,
    /// freedoms of the SSTR chunk: bit 0 = hash fields all zero ("isn't used ... when loading"),
    /// bit 1 = table padded with unreferenced entries and duplicates (columns point at either copy),
    /// bit 2 = an SSTR chunk of zero entries when no shared string is used
    #[serde(default)]
    pub sstr_mode: u8,
}

impl Plan {
    pub fn plain() -> Plan {
        Plan {
            comp: vec![Comp::Lz4],
            order_keys: vec![],
            id_keys: vec![],
            sparse_ids: false,
            meta: None,
            junk: vec![],
            narrow: false,
            extra: vec![],
            sstr_mode: 0,
        }
    }
    fn key(&self, salt: usize, i: usize) -> u64 {
        if self.order_keys.is_empty() {
            return i as u64;
        }
        let k = self.order_keys[(i + salt * 7) % self.order_keys.len()] as u64;
        // stable tie-break on the index
        (k.wrapping_mul(0x9E37_79B9).wrapping_add(salt as u64 * 0x85EB_CA6B) & 0xffff_ffff) << 20
            | i as u64
    }
}

/// Value used to fill a column for an instance that lacks the property.
pub fn neutral(ty: VariantType) -> GVal {
    match ty {
        VariantType::String => GVal::String(String::new()),
        VariantType::BinaryString => GVal::BinaryString(vec![]),
        VariantType::ContentId => GVal::ContentId(String::new()),
        VariantType::Tags => GVal::Tags(vec![]),
        VariantType::Attributes => GVal::Attributes(vec![]),
        VariantType::MaterialColors => GVal::MaterialColors(vec![]),
        VariantType::Bool => GVal::Bool(false),
        VariantType::Int32 => GVal::Int32(0),
        VariantType::Int64 => GVal::Int64(0),
        VariantType::Float32 => GVal::Float32(0),
        VariantType::Float64 => GVal::Float64(0),
        VariantType::UDim => GVal::UDim(0, 0),
        VariantType::UDim2 => GVal::UDim2(0, 0, 0, 0),
        VariantType::Ray => GVal::Ray([0; 6]),
        VariantType::Faces => GVal::Faces(0),
        VariantType::Axes => GVal::Axes(0),
        VariantType::BrickColor => GVal::BrickColor(194),
        VariantType::Color3 => GVal::Color3([0; 3]),
        VariantType::Vector2 => GVal::Vector2([0; 2]),
        VariantType::Vector3 => GVal::Vector3([0; 3]),
        VariantType::CFrame => GVal::CFrame(crate::gen::vals::GCf::identity_at([0; 3])),
        VariantType::Enum => GVal::Enum(0),
        VariantType::Ref => GVal::Ref(GRef::None),
        VariantType::Vector3int16 => GVal::Vector3int16([0; 3]),
        VariantType::NumberSequence => GVal::NumberSequence(vec![[0; 3], [0x3f80_0000, 0, 0]]),
        VariantType::ColorSequence => {
            GVal::ColorSequence(vec![(0, [0; 3]), (0x3f80_0000, [0; 3])])
        }
        VariantType::NumberRange => GVal::NumberRange(0, 0),
        VariantType::Rect => GVal::Rect([0; 4]),
        VariantType::PhysicalProperties => GVal::PhysicalProperties(None),
        VariantType::Color3uint8 => GVal::Color3uint8([0; 3]),
        VariantType::SharedString => GVal::SharedString(vec![]),
        VariantType::OptionalCFrame => GVal::OptionalCFrame(None),
        VariantType::UniqueId => GVal::UniqueId(0, 0, 0),
        VariantType::Font => GVal::Font {
            family: String::new(),
            weight: 400,
            style: 0,
            cached: None,
        },
        VariantType::SecurityCapabilities => GVal::SecurityCapabilities(0),
        VariantType::Content => GVal::Content(GContent::None),
        other => panic!("no neutral value for {other:?}"),
    }
}

/// Make every instance of a class carry every property any instance of the
/// class carries (the binary format stores whole columns), filling with
/// neutral values; also make `roots` = all top-level nodes.
pub fn complete_columns(f: &GForest) -> GForest {
    let mut g = f.clone();
    let (top, _) = g.child_table();
    g.roots = top;
    // (class) -> roundtrip name -> (given name, type)
    let mut cols: HashMap<String, BTreeMap<String, (String, VariantType)>> = HashMap::new();
    for n in &g.nodes {
        for (name, v) in &n.props {
            let rt = dbview::resolve(&n.class, name)
                .map(|v| v.roundtrip)
                .unwrap_or_else(|| name.clone());
            cols.entry(n.class.clone())
                .or_default()
                .entry(rt)
                .or_insert((name.clone(), v.ty()));
        }
    }
    for (ni, n) in g.nodes.iter_mut().enumerate() {
        let have: Vec<String> = n
            .props
            .iter()
            .map(|(name, _)| {
                dbview::resolve(&n.class, name)
                    .map(|v| v.roundtrip)
                    .unwrap_or_else(|| name.clone())
            })
            .collect();
        if let Some(c) = cols.get(&n.class) {
            for (rt, (given, ty)) in c {
                if !have.contains(rt) {
                    if rt == "UniqueId" {
                        // WeakDom regenerates colliding ids: fillers must be pairwise distinct
                        n.props.push((
                            given.clone(),
                            GVal::UniqueId(0x7000_0000 + ni as u32, 0x7fff_fff0, ni as i64 + 1),
                        ));
                    } else {
                        n.props.push((given.clone(), neutral(*ty)));
                    }
                }
            }
        }
    }
    g
}

/// Reorder siblings by `key[node]`, renumber nodes in the new pre-order and
/// remap Refs accordingly.
pub fn reorder_forest(f: &GForest, key: &dyn Fn(usize) -> u64) -> GForest {
    let (mut top, mut kids) = f.child_table();
    top.sort_by_key(|n| key(*n));
    for k in kids.iter_mut() {
        k.sort_by_key(|n| key(*n));
    }
    let mut order = Vec::with_capacity(f.nodes.len());
    let mut stack: Vec<usize> = top.iter().rev().copied().collect();
    while let Some(n) = stack.pop() {
        order.push(n);
        for c in kids[n].iter().rev() {
            stack.push(*c);
        }
    }
    let mut new_index = vec![usize::MAX; f.nodes.len()];
    for (new, old) in order.iter().enumerate() {
        new_index[*old] = new;
    }
    let map = |r: &GRef| match r {
        GRef::Node(i) => GRef::Node(new_index[*i]),
        other => other.clone(),
    };
    let nodes: Vec<GNode> = order
        .iter()
        .map(|old| {
            let n = &f.nodes[*old];
            GNode {
                parent: n.parent.map(|p| new_index[p]),
                class: n.class.clone(),
                name: n.name.clone(),
                props: n
                    .props
                    .iter()
                    .map(|(k, v)| (k.clone(), v.map_refs(&map)))
                    .collect(),
            }
        })
        .collect();
    let g = GForest {
        nodes,
        roots: Vec::new(),
    };
    let (top2, _) = g.child_table();
    GForest { roots: top2, ..g }
}

fn f32_exact(bits: u64) -> Option<u32> {
    let v = f64::from_bits(bits);
    let n = v as f32;
    if (n as f64).to_bits() == bits {
        Some(n.to_bits())
    } else {
        None
    }
}

pub struct Built {
    pub bytes: Vec<u8>,
    /// the forest in the order the file defines (siblings in PRNT order)
    pub logical: GForest,
    pub narrowed_int: usize,
    pub narrowed_float: usize,
    pub n_chunks: usize,
    pub degrees: Vec<&'static str>,
}

/// Encode `f` (column-complete, all top-level nodes written) under `plan`.
pub fn encode(f: &GForest, plan: &Plan, dialect: Dialect) -> Result<Built, String> {
    let n = f.nodes.len();
    let mut degrees: Vec<&'static str> = Vec::new();

    // referents: arbitrary distinct non-negative i32
    let mut referents: Vec<i32> = Vec::with_capacity(n);
    {
        let mut used = std::collections::HashSet::new();
        for i in 0..n {
            let mut r: i32 = if plan.sparse_ids && !plan.id_keys.is_empty() {
                (plan.id_keys[i % plan.id_keys.len()] >> 1) as i32
            } else {
                i as i32
            };
            while !used.insert(r) {
                r = (r.wrapping_add(7919)) & i32::MAX;
            }
            referents.push(r);
        }
        if plan.sparse_ids && !plan.id_keys.is_empty() && n > 0 {
            degrees.push("sparse_unsorted_referents");
        }
    }

    // classes in first-appearance order, then permuted
    let mut class_names: Vec<String> = Vec::new();
    for node in &f.nodes {
        if !class_names.contains(&node.class) {
            class_names.push(node.class.clone());
        }
    }
    let mut class_order: Vec<usize> = (0..class_names.len()).collect();
    class_order.sort_by_key(|i| plan.key(1, *i));
    if class_order.iter().enumerate().any(|(a, b)| a != *b) {
        degrees.push("inst_chunk_order");
    }
    let mut class_ids: Vec<u32> = Vec::new();
    {
        let mut used = std::collections::HashSet::new();
        for i in 0..class_names.len() {
            let mut id: u32 = if plan.sparse_ids && !plan.id_keys.is_empty() {
                plan.id_keys[(i * 3 + 1) % plan.id_keys.len()]
            } else {
                i as u32
            };
            while !used.insert(id) {
                id = id.wrapping_add(104729);
            }
            class_ids.push(id);
        }
        if plan.sparse_ids && !plan.id_keys.is_empty() && !class_names.is_empty() {
            degrees.push("arbitrary_class_ids");
        }
    }

    // instances per class, in a plan-defined order
    let mut members: Vec<Vec<usize>> = vec![Vec::new(); class_names.len()];
    for (i, node) in f.nodes.iter().enumerate() {
        let ci = class_names.iter().position(|c| c == &node.class).unwrap();
        members[ci].push(i);
    }
    for m in members.iter_mut() {
        m.sort_by_key(|i| plan.key(2, *i));
    }

    // shared strings
    let mut sstr: Vec<Vec<u8>> = Vec::new();
    for node in &f.nodes {
        for (_, v) in &node.props {
            if let GVal::SharedString(b) = v {
                if !sstr.contains(b) {
                    sstr.push(b.clone());
                }
            }
        }
    }
    {
        let mut idx: Vec<usize> = (0..sstr.len()).collect();
        idx.sort_by_key(|i| plan.key(3, *i));
        sstr = idx.into_iter().map(|i| sstr[i].clone()).collect();
    }
    if plan.sstr_mode & 2 != 0 && !sstr.is_empty() {
        let mut padded = Vec::new();
        for (i, s) in sstr.iter().enumerate() {
            padded.push(s.clone());
            padded.push(format!("unreferenced shared string {i}").into_bytes());
        }
        for s in sstr.iter().rev() {
            padded.push(s.clone());
        }
        sstr = padded;
        degrees.push("sstr_duplicates_and_unreferenced");
    }

    let ref_of = |r: &GRef| -> i32 {
        match r {
            GRef::Node(i) => referents[*i],
            _ => -1,
        }
    };

    let mut narrowed_int = 0;
    let mut narrowed_float = 0;

    // columns
    struct PropChunk {
        class: usize,
        name: String,
        col: Column,
    }
    let mut props: Vec<PropChunk> = Vec::new();
    for (ci, cname) in class_names.iter().enumerate() {
        let inst = &members[ci];
        props.push(PropChunk {
            class: ci,
            name: "Name".into(),
            col: Column::String(
                inst.iter()
                    .map(|i| f.nodes[*i].name.as_bytes().to_vec())
                    .collect(),
            ),
        });
        // serialized name -> (serialized type, per-instance value)
        let mut cols: BTreeMap<String, (VariantType, Vec<Option<GVal>>)> = BTreeMap::new();
        let mut declared: std::collections::HashSet<String> = Default::default();
        for (row, i) in inst.iter().enumerate() {
            for (pname, val) in &f.nodes[*i].props {
                let (ser_name, ser_ty) = match dbview::resolve(cname, pname) {
                    None => (pname.clone(), val.ty()),
                    Some(view) => match &view.ser {
                        None => continue,
                        Some(ser) => {
                            declared.insert(ser.name.clone());
                            (ser.name.clone(), ser.ty.variant_type())
                        }
                    },
                };
                let e = cols
                    .entry(ser_name)
                    .or_insert_with(|| (ser_ty, vec![None; inst.len()]));
                e.1[row] = Some(val.clone());
            }
        }
        for (ser_name, (ser_ty, values)) in cols {
            if values.iter().any(|v| v.is_none()) {
                return Err(format!("{cname}.{ser_name}: forest is not column-complete"));
            }
            let values: Vec<GVal> = values.into_iter().map(|v| v.unwrap()).collect();
            let col = build_column(
                ser_ty,
                &values,
                &ref_of,
                &sstr,
                // legacy narrower encodings only make sense for properties the database declares wider
                plan.narrow && declared.contains(&ser_name),
                &mut narrowed_int,
                &mut narrowed_float,
            )
            .map_err(|e| format!("{cname}.{ser_name}: {e}"))?;
            props.push(PropChunk {
                class: ci,
                name: ser_name,
                col,
            });
        }
    }
    if narrowed_int > 0 {
        degrees.push("int32_for_int64");
    }
    if narrowed_float > 0 {
        degrees.push("float32_for_float64");
    }
    let mut prop_order: Vec<usize> = (0..props.len()).collect();
    prop_order.sort_by_key(|i| plan.key(4, *i));
    if prop_order.iter().enumerate().any(|(a, b)| a != *b) {
        degrees.push("prop_chunk_order");
    }

    // PRNT in a plan-defined order; sibling order is *defined* by it
    let mut prnt_order: Vec<usize> = (0..n).collect();
    prnt_order.sort_by_key(|i| plan.key(5, *i));
    if prnt_order.iter().enumerate().any(|(a, b)| a != *b) {
        degrees.push("prnt_order");
    }
    let mut pos = vec![0u64; n];
    for (p, i) in prnt_order.iter().enumerate() {
        pos[*i] = p as u64;
    }
    let logical = reorder_forest(f, &|i| pos[i]);
    let pairs: Vec<(i32, i32)> = prnt_order
        .iter()
        .map(|i| {
            (
                referents[*i],
                f.nodes[*i].parent.map(|p| referents[p]).unwrap_or(-1),
            )
        })
        .collect();

    // chunk list
    let mut chunks: Vec<PlannedChunk> = Vec::new();
    let mut k = 0usize;
    let mut comp_of = |_name: &[u8; 4]| -> Comp {
        let c = if plan.comp.is_empty() {
            Comp::Lz4
        } else {
            plan.comp[k % plan.comp.len()]
        };
        k += 1;
        c
    };
    if let Some(meta) = &plan.meta {
        degrees.push("meta_chunk");
        chunks.push(PlannedChunk {
            name: *b"META",
            data: refbin::meta_chunk(meta),
            comp: comp_of(b"META"),
        });
    }
    if !sstr.is_empty() || plan.sstr_mode & 4 != 0 {
        if sstr.is_empty() {
            degrees.push("sstr_chunk_of_zero_entries");
        } else if plan.sstr_mode & 1 != 0 {
            degrees.push("sstr_hashes_zero");
        }
        chunks.push(PlannedChunk {
            name: *b"SSTR",
            data: refbin::sstr_chunk_with(&sstr, plan.sstr_mode & 1 != 0),
            comp: comp_of(b"SSTR"),
        });
    }
    let mut service_seen = false;
    for ci in &class_order {
        let service = dbview::db()
            .classes
            .get(class_names[*ci].as_str())
            .map(|c| c.tags.contains(&rbx_reflection::ClassTag::Service))
            .unwrap_or(false);
        service_seen |= service;
        let class = BinClass {
            id: class_ids[*ci],
            name: class_names[*ci].clone(),
            object_format: service as u8,
            referents: members[*ci].iter().map(|i| referents[*i]).collect(),
            markers: vec![1; if service { members[*ci].len() } else { 0 }],
        };
        chunks.push(PlannedChunk {
            name: *b"INST",
            data: refbin::inst_chunk(&class),
            comp: comp_of(b"INST"),
        });
    }
    if service_seen {
        degrees.push("service_format_inst");
    }
    let mut extra_chunks: Vec<PlannedChunk> = Vec::new();
    for ex in &plan.extra {
        if class_names.is_empty() {
            break;
        }
        let ci = (ex.class_sel as usize * class_names.len()) >> 16;
        let mut o = refbin::Out::new();
        o.u32(class_ids[ci]);
        o.string(ex.name.as_bytes());
        match &ex.kind {
            ExtraKind::Truncated => degrees.push("truncated_prop_chunk"),
            ExtraKind::UnknownType(id, payload) => {
                degrees.push("unknown_type_prop_chunk");
                o.u8(*id);
                o.bytes(payload);
            }
        }
        extra_chunks.push(PlannedChunk {
            name: *b"PROP",
            data: o.0,
            comp: comp_of(b"PROP"),
        });
    }
    let mut prop_chunks: Vec<PlannedChunk> = Vec::new();
    for pi in &prop_order {
        let p = &props[*pi];
        prop_chunks.push(PlannedChunk {
            name: *b"PROP",
            data: refbin::prop_chunk(class_ids[p.class], &p.name, &p.col, dialect),
            comp: comp_of(b"PROP"),
        });
    }
    // extras are spliced among the PROP chunks
    for (j, ex) in extra_chunks.into_iter().enumerate() {
        let at = if prop_chunks.is_empty() {
            0
        } else {
            (plan.key(6, j) as usize) % (prop_chunks.len() + 1)
        };
        prop_chunks.insert(at, ex);
    }
    chunks.extend(prop_chunks);
    chunks.push(PlannedChunk {
        name: *b"PRNT",
        data: refbin::prnt_chunk(&pairs),
        comp: comp_of(b"PRNT"),
    });
    // junk chunks anywhere before END
    for (sel, name, payload) in &plan.junk {
        let at = (*sel as usize * (chunks.len() + 1)) >> 16;
        degrees.push("unknown_chunk_names");
        chunks.insert(
            at,
            PlannedChunk {
                name: *name,
                data: payload.clone(),
                comp: comp_of(name),
            },
        );
    }
    chunks.push(refbin::end_chunk());
    {
        let kinds: std::collections::HashSet<Comp> = chunks.iter().map(|c| c.comp).collect();
        if kinds.len() > 1 {
            degrees.push("mixed_compression");
        }
        if chunks.iter().any(|c| c.comp == Comp::Zstd) {
            degrees.push("zstd_chunk");
        }
    }
    let n_chunks = chunks.len();
    let bytes = refbin::assemble(class_names.len() as u32, n as u32, &chunks);
    degrees.sort();
    degrees.dedup();
    Ok(Built {
        bytes,
        logical,
        narrowed_int,
        narrowed_float,
        n_chunks,
        degrees,
    })
}

#[allow(clippy::too_many_arguments)]
pub fn build_column(
    ser_ty: VariantType,
    values: &[GVal],
    ref_of: &dyn Fn(&GRef) -> i32,
    sstr: &[Vec<u8>],
    narrow: bool,
    narrowed_int: &mut usize,
    narrowed_float: &mut usize,
) -> Result<Column, String> {
    macro_rules! collect {
        ($pat:pat => $e:expr) => {{
            let mut out = Vec::with_capacity(values.len());
            for v in values {
                match v {
                    $pat => out.push($e),
                    other => {
                        return Err(format!(
                            "value {:?} does not fit a {:?} column",
                            other.ty(),
                            ser_ty
                        ))
                    }
                }
            }
            out
        }};
    }
    Ok(match ser_ty {
        VariantType::String
        | VariantType::BinaryString
        | VariantType::ContentId
        | VariantType::Tags
        | VariantType::Attributes
        | VariantType::MaterialColors => {
            let mut out = Vec::new();
            for v in values {
                out.push(match v {
                    GVal::String(s) | GVal::ContentId(s) => s.as_bytes().to_vec(),
                    GVal::BinaryString(b) => b.clone(),
                    GVal::Tags(t) => oracle::tags_blob(t),
                    GVal::MaterialColors(_) => oracle::material_colors_blob(v),
                    GVal::Attributes(e) => refattr::encode(e).map_err(|e| e.0)?,
                    other => return Err(format!("{:?} in a String column", other.ty())),
                });
            }
            Column::String(out)
        }
        VariantType::Bool => Column::Bool(collect!(GVal::Bool(b) => *b as u8)),
        VariantType::Int32 => Column::Int32(collect!(GVal::Int32(i) => *i)),
        VariantType::Float32 => Column::Float32(collect!(GVal::Float32(b) => *b)),
        VariantType::Float64 => {
            let vals = collect!(GVal::Float64(b) => *b);
            let narrowed: Option<Vec<u32>> = vals.iter().map(|b| f32_exact(*b)).collect();
            match (narrow, narrowed) {
                (true, Some(n)) => {
                    *narrowed_float += 1;
                    Column::Float32(n)
                }
                _ => Column::Float64(vals),
            }
        }
        VariantType::Int64 => {
            let vals = collect!(GVal::Int64(i) => *i);
            if narrow && vals.iter().all(|v| i32::try_from(*v).is_ok()) {
                *narrowed_int += 1;
                Column::Int32(vals.iter().map(|v| *v as i32).collect())
            } else {
                Column::Int64(vals)
            }
        }
        VariantType::UDim => Column::UDim(collect!(GVal::UDim(s, o) => (*s, *o))),
        VariantType::UDim2 => {
            Column::UDim2(collect!(GVal::UDim2(a, b, c, d) => (*a, *b, *c, *d)))
        }
        VariantType::Ray => Column::Ray(collect!(GVal::Ray(r) => *r)),
        VariantType::Faces => Column::Faces(collect!(GVal::Faces(b) => *b)),
        VariantType::Axes => Column::Axes(collect!(GVal::Axes(b) => *b)),
        VariantType::BrickColor => Column::BrickColor(collect!(GVal::BrickColor(n) => *n as u32)),
        VariantType::Color3 => Column::Color3(collect!(GVal::Color3(c) => *c)),
        VariantType::Vector2 => Column::Vector2(collect!(GVal::Vector2(c) => *c)),
        VariantType::Vector3 => Column::Vector3(collect!(GVal::Vector3(c) => *c)),
        VariantType::CFrame => Column::CFrame(collect!(GVal::CFrame(c) => c.clone())),
        VariantType::Enum => Column::Enum(collect!(GVal::Enum(e) => *e)),
        VariantType::Ref => Column::Ref(collect!(GVal::Ref(r) => ref_of(r))),
        VariantType::Vector3int16 => Column::Vector3int16(collect!(GVal::Vector3int16(v) => *v)),
        VariantType::NumberSequence => {
            Column::NumberSequence(collect!(GVal::NumberSequence(k) => k.clone()))
        }
        VariantType::ColorSequence => Column::ColorSequence(
            collect!(GVal::ColorSequence(k) => k.iter().map(|(t, c)| (*t, *c, 0u32)).collect()),
        ),
        VariantType::NumberRange => Column::NumberRange(collect!(GVal::NumberRange(a, b) => (*a, *b))),
        VariantType::Rect => Column::Rect(collect!(GVal::Rect(r) => *r)),
        VariantType::PhysicalProperties => {
            Column::PhysicalProperties(collect!(GVal::PhysicalProperties(p) => *p))
        }
        VariantType::Color3uint8 => {
            let mut out = Vec::new();
            for v in values {
                out.push(match v {
                    GVal::Color3uint8(c) => *c,
                    GVal::Color3(c) => [
                        oracle::quantise(c[0]),
                        oracle::quantise(c[1]),
                        oracle::quantise(c[2]),
                    ],
                    other => return Err(format!("{:?} in a Color3uint8 column", other.ty())),
                });
            }
            Column::Color3uint8(out)
        }
        VariantType::SharedString => {
            let mut out = Vec::new();
            for v in values {
                match v {
                    GVal::SharedString(b) => {
                        // with a padded table (duplicates) alternate between the first and the last copy
                        let at = if out.len() % 2 == 0 { sstr.iter().position(|s| s == b) } else { sstr.iter().rposition(|s| s == b) };
                        out.push(at.ok_or("sstr missing")? as u32)
                    }
                    other => return Err(format!("{:?} in a SharedString column", other.ty())),
                }
            }
            Column::SharedString(out)
        }
        VariantType::OptionalCFrame => Column::OptionalCFrame(collect!(GVal::OptionalCFrame(c) => match c {
            None => (0u8, crate::gen::vals::GCf::identity_at([0; 3])),
            Some(c) => (1u8, c.clone()),
        })),
        VariantType::UniqueId => Column::UniqueId(collect!(GVal::UniqueId(i, t, r) => (*i, *t, *r))),
        VariantType::Font => Column::Font(collect!(GVal::Font { family, weight, style, cached } =>
            (family.clone(), *weight, *style, cached.clone().unwrap_or_default()))),
        VariantType::SecurityCapabilities => {
            Column::SecurityCapabilities(collect!(GVal::SecurityCapabilities(b) => *b as i64))
        }
        VariantType::Content => {
            let mut c = ContentCol {
                source_types: vec![],
                uris: vec![],
                objects: vec![],
                externals: vec![],
            };
            for v in values {
                match v {
                    GVal::Content(GContent::None) => c.source_types.push(0),
                    GVal::Content(GContent::Uri(u)) => {
                        c.source_types.push(1);
                        c.uris.push(u.clone());
                    }
                    GVal::Content(GContent::Object(r)) => {
                        c.source_types.push(2);
                        c.objects.push(ref_of(r));
                    }
                    other => return Err(format!("{:?} in a Content column", other.ty())),
                }
            }
            Column::Content(c)
        }
        other => return Err(format!("no wire encoding for {other:?}")),
    })
}

#[allow(dead_code)]
pub fn unused(_: &forest::BuiltDom) {}
