//! Independent reference codecs written from the repository's own format
//! documents (docs/*.md). They link no rbx_binary / rbx_xml code.
pub mod binbuild;
pub mod refattr;
pub mod refbin;
pub mod refxml;
