//! Binary model format codec written from docs/binary.md. Links no rbx_binary
//! code; uses the lz4 / zstd crates only for block (de)compression.
//!
//! Where the document is silent or contradicts itself the choice made is
//! listed in `ASSUMPTIONS`; where it contradicts the implementation there is a
//! switch (`Dialect`) so that the disagreement can be reported once and the
//! search continue.

use serde::{Deserialize, Serialize};

use crate::gen::vals::{self, GCf};

pub const ASSUMPTIONS: &[&str] = &[
    "docs/binary.md gives no endianness for SharedString indices and UniqueId fields: read as big-endian like every other interleaved array in the document",
    "docs/binary.md Faces: prose/bit example (Front = 0x01) contradicts docs/xml.md and rbx_types (Front = 0x20); Faces are compared as raw bytes, the bit naming of docs/xml.md is used",
    "docs/binary.md Vector3int16 example shows big-endian bytes for the first value; the prose (little-endian i16) is followed",
    "SecurityCapabilities (type 0x21) is not documented; such columns are checked structurally only (read as an interleaved transformed Int64 column, as Int64 is documented)",
    "Tags / Attributes / MaterialColors are String columns whose blobs follow docs/binary-strings.md and docs/attributes.md",
    "Bytecode (0x1d) columns are read like String columns (documented as identical)",
];

pub const MAGIC: &[u8] = b"<roblox!";
pub const SIGNATURE: &[u8] = b"\x89\xff\x0d\x0a\x1a\x0a";
pub const ZSTD_MAGIC: &[u8] = b"\x28\xb5\x2f\xfd";

#[derive(Clone, Copy, Debug, PartialEq, Eq, Hash, Serialize, Deserialize)]
pub enum Comp {
    None,
    Lz4,
    Zstd,
}

#[derive(Clone, Copy, Debug, PartialEq, Eq)]
pub struct Dialect {
    /// true: UniqueId.Random stored rotated left by one bit (what rbx_binary does);
    /// false: stored unmodified (what docs/binary.md says)
    pub uid_random_rotated: bool,
    /// true: Content.SourceTypes zig-zag transformed like Int32 (rbx_binary);
    /// false: plain big-endian u32 like Enum (docs/binary.md)
    pub content_types_transformed: bool,
}

impl Dialect {
    pub fn doc() -> Dialect {
        Dialect {
            uid_random_rotated: false,
            content_types_transformed: false,
        }
    }
    pub fn implementation() -> Dialect {
        Dialect {
            uid_random_rotated: true,
            content_types_transformed: true,
        }
    }
}

// ---------------------------------------------------------------------------
// Container level

#[derive(Clone, Debug)]
pub struct RawChunk {
    pub name: [u8; 4],
    pub compressed_len: u32,
    pub uncompressed_len: u32,
    pub reserved: u32,
    pub comp: Comp,
    pub data: Vec<u8>,
    pub offset: usize,
    pub stored_len: usize,
}

#[derive(Clone, Debug)]
pub struct RawFile {
    pub version: u16,
    pub class_count: u32,
    pub instance_count: u32,
    pub header_reserved: [u8; 8],
    pub chunks: Vec<RawChunk>,
    /// bytes after the END chunk
    pub trailing: usize,
}

struct Cur<'a> {
    b: &'a [u8],
    p: usize,
}

impl<'a> Cur<'a> {
    fn new(b: &'a [u8]) -> Self {
        Cur { b, p: 0 }
    }
    fn left(&self) -> usize {
        self.b.len() - self.p
    }
    fn take(&mut self, n: usize) -> Result<&'a [u8], String> {
        if self.left() < n {
            return Err(format!(
                "need {n} bytes at offset {}, only {} left",
                self.p,
                self.left()
            ));
        }
        let s = &self.b[self.p..self.p + n];
        self.p += n;
        Ok(s)
    }
    fn u8(&mut self) -> Result<u8, String> {
        Ok(self.take(1)?[0])
    }
    fn u16(&mut self) -> Result<u16, String> {
        Ok(u16::from_le_bytes(self.take(2)?.try_into().unwrap()))
    }
    fn i16(&mut self) -> Result<i16, String> {
        Ok(i16::from_le_bytes(self.take(2)?.try_into().unwrap()))
    }
    fn u32(&mut self) -> Result<u32, String> {
        Ok(u32::from_le_bytes(self.take(4)?.try_into().unwrap()))
    }
    fn u64(&mut self) -> Result<u64, String> {
        Ok(u64::from_le_bytes(self.take(8)?.try_into().unwrap()))
    }
    fn string(&mut self) -> Result<Vec<u8>, String> {
        let n = self.u32()? as usize;
        Ok(self.take(n)?.to_vec())
    }
    fn utf8(&mut self) -> Result<String, String> {
        String::from_utf8(self.string()?).map_err(|_| "string is not UTF-8".to_string())
    }
    /// Interleaved array of `n` items of `width` bytes; returns rows.
    fn interleaved(&mut self, n: usize, width: usize) -> Result<Vec<Vec<u8>>, String> {
        let total = n
            .checked_mul(width)
            .ok_or_else(|| "interleaved array too large".to_string())?;
        let raw = self.take(total)?;
        let mut rows = vec![vec![0u8; width]; n];
        for j in 0..width {
            for i in 0..n {
                rows[i][j] = raw[j * n + i];
            }
        }
        Ok(rows)
    }
    fn be_u32s(&mut self, n: usize) -> Result<Vec<u32>, String> {
        Ok(self
            .interleaved(n, 4)?
            .into_iter()
            .map(|r| u32::from_be_bytes(r.try_into().unwrap()))
            .collect())
    }
    fn int32s(&mut self, n: usize) -> Result<Vec<i32>, String> {
        Ok(self.be_u32s(n)?.into_iter().map(untransform32).collect())
    }
    fn floats(&mut self, n: usize) -> Result<Vec<u32>, String> {
        Ok(self.be_u32s(n)?.into_iter().map(unrobloxfloat).collect())
    }
    fn int64s(&mut self, n: usize) -> Result<Vec<i64>, String> {
        Ok(self
            .interleaved(n, 8)?
            .into_iter()
            .map(|r| untransform64(u64::from_be_bytes(r.try_into().unwrap())))
            .collect())
    }
    fn referents(&mut self, n: usize) -> Result<Vec<i32>, String> {
        let deltas = self.int32s(n)?;
        let mut out = Vec::with_capacity(n);
        let mut last: i64 = 0;
        for d in deltas {
            last += d as i64;
            // accumulate in 32-bit two's complement like any implementation would
            let v = last as i32;
            last = v as i64;
            out.push(v);
        }
        Ok(out)
    }
}

/// docs: "if x is divisible by 2, x / 2, otherwise -(x + 1) / 2"
pub fn untransform32(x: u32) -> i32 {
    if x % 2 == 0 {
        (x / 2) as i32
    } else {
        (-(((x as i64) + 1) / 2)) as i32
    }
}

/// docs: "if x >= 0, 2 * x, otherwise 2 * |x| - 1"
pub fn transform32(x: i32) -> u32 {
    if x >= 0 {
        2 * (x as u32)
    } else {
        (2 * (-(x as i64)) - 1) as u32
    }
}

pub fn untransform64(x: u64) -> i64 {
    if x % 2 == 0 {
        (x / 2) as i64
    } else {
        (-(((x as i128) + 1) / 2)) as i64
    }
}

pub fn transform64(x: i64) -> u64 {
    if x >= 0 {
        2 * (x as u64)
    } else {
        (2 * (-(x as i128)) - 1) as u64
    }
}

/// Roblox float format `eeeeeeee mmmmmmmm mmmmmmmm mmmmmmms` -> IEEE bits.
pub fn unrobloxfloat(x: u32) -> u32 {
    (x >> 1) | ((x & 1) << 31)
}

pub fn robloxfloat(bits: u32) -> u32 {
    (bits << 1) | (bits >> 31)
}

/// Interleaved Int32 / Float32 / Referent columns decoded per docs/binary.md (for sweeps).
pub fn parse_i32_column(bytes: &[u8], n: usize) -> Result<Vec<i32>, String> {
    Cur::new(bytes).int32s(n)
}

pub fn parse_f32_column(bytes: &[u8], n: usize) -> Result<Vec<u32>, String> {
    Cur::new(bytes).floats(n)
}

pub fn parse_referent_column(bytes: &[u8], n: usize) -> Result<Vec<i32>, String> {
    Cur::new(bytes).referents(n)
}

pub fn parse_container(bytes: &[u8]) -> Result<RawFile, String> {
    let mut c = Cur::new(bytes);
    if c.take(8).map_err(|e| format!("header: {e}"))? != MAGIC {
        return Err("bad magic number".into());
    }
    if c.take(6).map_err(|e| format!("header: {e}"))? != SIGNATURE {
        return Err("bad signature".into());
    }
    let version = c.u16()?;
    let class_count = c.u32()?;
    let instance_count = c.u32()?;
    let header_reserved: [u8; 8] = c.take(8)?.try_into().unwrap();
    let mut chunks = Vec::new();
    loop {
        let offset = c.p;
        let name: [u8; 4] = c
            .take(4)
            .map_err(|e| format!("chunk header at {offset}: {e}"))?
            .try_into()
            .unwrap();
        let compressed_len = c.u32()?;
        let uncompressed_len = c.u32()?;
        let reserved = c.u32()?;
        let (comp, data, stored_len) = if compressed_len == 0 {
            let d = c
                .take(uncompressed_len as usize)
                .map_err(|e| format!("chunk {:?} payload: {e}", String::from_utf8_lossy(&name)))?;
            (Comp::None, d.to_vec(), uncompressed_len as usize)
        } else {
            let d = c
                .take(compressed_len as usize)
                .map_err(|e| format!("chunk {:?} payload: {e}", String::from_utf8_lossy(&name)))?;
            if d.len() >= 4 && &d[0..4] == ZSTD_MAGIC {
                let out = zstd::bulk::decompress(d, uncompressed_len as usize)
                    .map_err(|e| format!("zstd: {e}"))?;
                (Comp::Zstd, out, compressed_len as usize)
            } else {
                if uncompressed_len > i32::MAX as u32 {
                    return Err("lz4 chunk too large".into());
                }
                let out = lz4::block::decompress(d, Some(uncompressed_len as i32))
                    .map_err(|e| format!("lz4: {e}"))?;
                (Comp::Lz4, out, compressed_len as usize)
            }
        };
        if data.len() != uncompressed_len as usize {
            return Err(format!(
                "chunk {:?}: uncompressed length field {} but payload expands to {}",
                String::from_utf8_lossy(&name),
                uncompressed_len,
                data.len()
            ));
        }
        let is_end = &name == b"END\0";
        chunks.push(RawChunk {
            name,
            compressed_len,
            uncompressed_len,
            reserved,
            comp,
            data,
            offset,
            stored_len,
        });
        if is_end {
            break;
        }
    }
    Ok(RawFile {
        version,
        class_count,
        instance_count,
        header_reserved,
        chunks,
        trailing: c.left(),
    })
}

// ---------------------------------------------------------------------------
// Logical level

#[derive(Clone, Debug, PartialEq, Serialize, Deserialize)]
pub struct BinClass {
    pub id: u32,
    pub name: String,
    pub object_format: u8,
    pub referents: Vec<i32>,
    pub markers: Vec<u8>,
}

#[derive(Clone, Debug, PartialEq, Serialize, Deserialize)]
pub struct ContentCol {
    pub source_types: Vec<i64>,
    pub uris: Vec<String>,
    pub objects: Vec<i32>,
    pub externals: Vec<i32>,
}

#[derive(Clone, Debug, PartialEq, Serialize, Deserialize)]
pub enum Column {
    String(Vec<Vec<u8>>),
    Bool(Vec<u8>),
    Int32(Vec<i32>),
    Float32(Vec<u32>),
    Float64(Vec<u64>),
    UDim(Vec<(u32, i32)>),
    UDim2(Vec<(u32, i32, u32, i32)>),
    Ray(Vec<[u32; 6]>),
    Faces(Vec<u8>),
    Axes(Vec<u8>),
    BrickColor(Vec<u32>),
    Color3(Vec<[u32; 3]>),
    Vector2(Vec<[u32; 2]>),
    Vector3(Vec<[u32; 3]>),
    CFrame(Vec<GCf>),
    Enum(Vec<u32>),
    Ref(Vec<i32>),
    Vector3int16(Vec<[i16; 3]>),
    NumberSequence(Vec<Vec<[u32; 3]>>),
    /// (time, rgb, envelope)
    ColorSequence(Vec<Vec<(u32, [u32; 3], u32)>>),
    NumberRange(Vec<(u32, u32)>),
    Rect(Vec<[u32; 4]>),
    PhysicalProperties(Vec<Option<[u32; 5]>>),
    Color3uint8(Vec<[u8; 3]>),
    Int64(Vec<i64>),
    SharedString(Vec<u32>),
    Bytecode(Vec<Vec<u8>>),
    /// (has value flag byte, cframe)
    OptionalCFrame(Vec<(u8, GCf)>),
    /// (index, time, random) under the dialect in use
    UniqueId(Vec<(u32, u32, i64)>),
    /// (family, weight, style, cached face id)
    Font(Vec<(String, u16, u8, String)>),
    SecurityCapabilities(Vec<i64>),
    Content(ContentCol),
}

impl Column {
    pub fn type_id(&self) -> u8 {
        match self {
            Column::String(_) => 0x01,
            Column::Bool(_) => 0x02,
            Column::Int32(_) => 0x03,
            Column::Float32(_) => 0x04,
            Column::Float64(_) => 0x05,
            Column::UDim(_) => 0x06,
            Column::UDim2(_) => 0x07,
            Column::Ray(_) => 0x08,
            Column::Faces(_) => 0x09,
            Column::Axes(_) => 0x0a,
            Column::BrickColor(_) => 0x0b,
            Column::Color3(_) => 0x0c,
            Column::Vector2(_) => 0x0d,
            Column::Vector3(_) => 0x0e,
            Column::CFrame(_) => 0x10,
            Column::Enum(_) => 0x12,
            Column::Ref(_) => 0x13,
            Column::Vector3int16(_) => 0x14,
            Column::NumberSequence(_) => 0x15,
            Column::ColorSequence(_) => 0x16,
            Column::NumberRange(_) => 0x17,
            Column::Rect(_) => 0x18,
            Column::PhysicalProperties(_) => 0x19,
            Column::Color3uint8(_) => 0x1a,
            Column::Int64(_) => 0x1b,
            Column::SharedString(_) => 0x1c,
            Column::Bytecode(_) => 0x1d,
            Column::OptionalCFrame(_) => 0x1e,
            Column::UniqueId(_) => 0x1f,
            Column::Font(_) => 0x20,
            Column::SecurityCapabilities(_) => 0x21,
            Column::Content(_) => 0x22,
        }
    }

    pub fn len(&self) -> usize {
        match self {
            Column::String(v) | Column::Bytecode(v) => v.len(),
            Column::Bool(v) | Column::Faces(v) | Column::Axes(v) => v.len(),
            Column::Int32(v) | Column::Ref(v) => v.len(),
            Column::Float32(v) | Column::BrickColor(v) | Column::Enum(v) | Column::SharedString(v) => v.len(),
            Column::Float64(v) => v.len(),
            Column::UDim(v) => v.len(),
            Column::UDim2(v) => v.len(),
            Column::Ray(v) => v.len(),
            Column::Color3(v) | Column::Vector3(v) => v.len(),
            Column::Vector2(v) => v.len(),
            Column::CFrame(v) => v.len(),
            Column::Vector3int16(v) => v.len(),
            Column::NumberSequence(v) => v.len(),
            Column::ColorSequence(v) => v.len(),
            Column::NumberRange(v) => v.len(),
            Column::Rect(v) => v.len(),
            Column::PhysicalProperties(v) => v.len(),
            Column::Color3uint8(v) => v.len(),
            Column::Int64(v) | Column::SecurityCapabilities(v) => v.len(),
            Column::OptionalCFrame(v) => v.len(),
            Column::UniqueId(v) => v.len(),
            Column::Font(v) => v.len(),
            Column::Content(c) => c.source_types.len(),
        }
    }
}

#[derive(Clone, Debug, PartialEq, Serialize, Deserialize)]
pub struct BinProp {
    pub class_id: u32,
    pub name: String,
    /// None: the chunk ends after the name
    pub type_id: Option<u8>,
    /// None: type id not defined by the document, or no type id
    pub column: Option<Column>,
    /// bytes of the chunk left unread after one value per instance
    pub leftover: usize,
}

#[derive(Clone, Debug, Default, PartialEq, Serialize, Deserialize)]
pub struct BinModel {
    pub meta: Vec<(String, String)>,
    pub sstr: Vec<([u8; 16], Vec<u8>)>,
    pub sstr_version: u32,
    pub classes: Vec<BinClass>,
    pub props: Vec<BinProp>,
    pub prnt_version: u8,
    /// (child, parent) in file order
    pub prnt: Vec<(i32, i32)>,
    /// chunk names in file order
    pub order: Vec<String>,
    pub n_meta: usize,
    pub n_sstr: usize,
    pub n_prnt: usize,
    pub leftovers: Vec<(String, usize)>,
}

fn read_cframes(c: &mut Cur, n: usize) -> Result<Vec<GCf>, String> {
    let mut rots = Vec::with_capacity(n.min(1 << 16));
    for _ in 0..n {
        let id = c.u8()?;
        if id == 0 {
            let mut rot = [0u32; 9];
            for x in rot.iter_mut() {
                *x = c.u32()?;
            }
            rots.push(rot);
        } else {
            let m = vals::rotation_from_doc(id)
                .ok_or_else(|| format!("rotation id {id:#04x} is not in the document's table"))?;
            let mut rot = [0u32; 9];
            for i in 0..9 {
                rot[i] = (m[i] as f32).to_bits();
            }
            rots.push(rot);
        }
    }
    let xs = c.floats(n)?;
    let ys = c.floats(n)?;
    let zs = c.floats(n)?;
    Ok((0..n)
        .map(|i| GCf {
            pos: [xs[i], ys[i], zs[i]],
            rot: rots[i],
        })
        .collect())
}

fn read_column(c: &mut Cur, ty: u8, n: usize, d: Dialect) -> Result<Option<Column>, String> {
    // guard against absurd counts before allocating
    if n > c.left().saturating_mul(8) + 16 && !matches!(ty, 0x1e) {
        // every type needs at least one bit... be generous: at least 1 byte per value
        if n > c.left() {
            return Err(format!("{n} values cannot fit in {} bytes", c.left()));
        }
    }
    Ok(Some(match ty {
        0x01 => {
            let mut v = Vec::new();
            for _ in 0..n {
                v.push(c.string()?);
            }
            Column::String(v)
        }
        0x1d => {
            let mut v = Vec::new();
            for _ in 0..n {
                v.push(c.string()?);
            }
            Column::Bytecode(v)
        }
        0x02 => Column::Bool(c.take(n)?.to_vec()),
        0x03 => Column::Int32(c.int32s(n)?),
        0x04 => Column::Float32(c.floats(n)?),
        0x05 => {
            let mut v = Vec::new();
            for _ in 0..n {
                v.push(c.u64()?);
            }
            Column::Float64(v)
        }
        0x06 => {
            let s = c.floats(n)?;
            let o = c.int32s(n)?;
            Column::UDim(s.into_iter().zip(o).collect())
        }
        0x07 => {
            let xs = c.floats(n)?;
            let ys = c.floats(n)?;
            let xo = c.int32s(n)?;
            let yo = c.int32s(n)?;
            Column::UDim2((0..n).map(|i| (xs[i], xo[i], ys[i], yo[i])).collect())
        }
        0x08 => {
            let mut v = Vec::new();
            for _ in 0..n {
                let mut r = [0u32; 6];
                for x in r.iter_mut() {
                    *x = c.u32()?;
                }
                v.push(r);
            }
            Column::Ray(v)
        }
        0x09 => Column::Faces(c.take(n)?.to_vec()),
        0x0a => Column::Axes(c.take(n)?.to_vec()),
        0x0b => Column::BrickColor(c.be_u32s(n)?),
        0x0c => {
            let r = c.floats(n)?;
            let g = c.floats(n)?;
            let b = c.floats(n)?;
            Column::Color3((0..n).map(|i| [r[i], g[i], b[i]]).collect())
        }
        0x0d => {
            let x = c.floats(n)?;
            let y = c.floats(n)?;
            Column::Vector2((0..n).map(|i| [x[i], y[i]]).collect())
        }
        0x0e => {
            let x = c.floats(n)?;
            let y = c.floats(n)?;
            let z = c.floats(n)?;
            Column::Vector3((0..n).map(|i| [x[i], y[i], z[i]]).collect())
        }
        0x10 => Column::CFrame(read_cframes(c, n)?),
        0x12 => Column::Enum(c.be_u32s(n)?),
        0x13 => Column::Ref(c.referents(n)?),
        0x14 => {
            let mut v = Vec::new();
            for _ in 0..n {
                v.push([c.i16()?, c.i16()?, c.i16()?]);
            }
            Column::Vector3int16(v)
        }
        0x15 => {
            let mut v = Vec::new();
            for _ in 0..n {
                let k = c.u32()? as usize;
                if k > c.left() / 12 {
                    return Err(format!("NumberSequence with {k} keypoints does not fit"));
                }
                let mut kp = Vec::new();
                for _ in 0..k {
                    kp.push([c.u32()?, c.u32()?, c.u32()?]);
                }
                v.push(kp);
            }
            Column::NumberSequence(v)
        }
        0x16 => {
            let mut v = Vec::new();
            for _ in 0..n {
                let k = c.u32()? as usize;
                if k > c.left() / 20 {
                    return Err(format!("ColorSequence with {k} keypoints does not fit"));
                }
                let mut kp = Vec::new();
                for _ in 0..k {
                    let t = c.u32()?;
                    let rgb = [c.u32()?, c.u32()?, c.u32()?];
                    let env = c.u32()?;
                    kp.push((t, rgb, env));
                }
                v.push(kp);
            }
            Column::ColorSequence(v)
        }
        0x17 => {
            let mut v = Vec::new();
            for _ in 0..n {
                v.push((c.u32()?, c.u32()?));
            }
            Column::NumberRange(v)
        }
        0x18 => {
            let a = c.floats(n)?;
            let b = c.floats(n)?;
            let cc = c.floats(n)?;
            let dd = c.floats(n)?;
            Column::Rect((0..n).map(|i| [a[i], b[i], cc[i], dd[i]]).collect())
        }
        0x19 => {
            let mut v = Vec::new();
            for _ in 0..n {
                let flag = c.u8()?;
                if flag == 0 {
                    v.push(None);
                } else if flag == 1 {
                    v.push(Some([c.u32()?, c.u32()?, c.u32()?, c.u32()?, c.u32()?]));
                } else {
                    return Err(format!("PhysicalProperties flag {flag}"));
                }
            }
            Column::PhysicalProperties(v)
        }
        0x1a => {
            let r = c.take(n)?.to_vec();
            let g = c.take(n)?.to_vec();
            let b = c.take(n)?.to_vec();
            Column::Color3uint8((0..n).map(|i| [r[i], g[i], b[i]]).collect())
        }
        0x1b => Column::Int64(c.int64s(n)?),
        0x21 => Column::SecurityCapabilities(c.int64s(n)?),
        0x1c => Column::SharedString(c.be_u32s(n)?),
        0x1e => {
            let inner = c.u8()?;
            if inner != 0x10 {
                return Err(format!(
                    "OptionalCoordinateFrame: expected CFrame type id 0x10, found {inner:#04x}"
                ));
            }
            let cfs = read_cframes(c, n)?;
            let marker = c.u8()?;
            if marker != 0x02 {
                return Err(format!(
                    "OptionalCoordinateFrame: expected Bool type id 0x02, found {marker:#04x}"
                ));
            }
            let flags = c.take(n)?.to_vec();
            Column::OptionalCFrame(flags.into_iter().zip(cfs).collect())
        }
        0x1f => {
            let rows = c.interleaved(n, 16)?;
            Column::UniqueId(
                rows.into_iter()
                    .map(|r| {
                        let index = u32::from_be_bytes(r[0..4].try_into().unwrap());
                        let time = u32::from_be_bytes(r[4..8].try_into().unwrap());
                        let raw = i64::from_be_bytes(r[8..16].try_into().unwrap());
                        let random = if d.uid_random_rotated {
                            raw.rotate_right(1)
                        } else {
                            raw
                        };
                        (index, time, random)
                    })
                    .collect(),
            )
        }
        0x20 => {
            let mut v = Vec::new();
            for _ in 0..n {
                let family = c.utf8()?;
                let weight = c.u16()?;
                let style = c.u8()?;
                let cached = c.utf8()?;
                v.push((family, weight, style, cached));
            }
            Column::Font(v)
        }
        0x22 => {
            let source_types: Vec<i64> = if d.content_types_transformed {
                c.int32s(n)?.into_iter().map(|x| x as i64).collect()
            } else {
                c.be_u32s(n)?.into_iter().map(|x| x as i64).collect()
            };
            let nu = c.u32()? as usize;
            if nu > c.left() / 4 + 1 {
                return Err(format!("Content: {nu} URIs cannot fit"));
            }
            let mut uris = Vec::new();
            for _ in 0..nu {
                uris.push(c.utf8()?);
            }
            let no = c.u32()? as usize;
            let objects = c.referents(no)?;
            let ne = c.u32()? as usize;
            let externals = c.referents(ne)?;
            Column::Content(ContentCol {
                source_types,
                uris,
                objects,
                externals,
            })
        }
        _ => return Ok(None),
    }))
}

pub fn decode_model(raw: &RawFile, d: Dialect) -> Result<BinModel, String> {
    let mut m = BinModel::default();
    for ch in &raw.chunks {
        let name = String::from_utf8_lossy(&ch.name).to_string();
        m.order.push(name.clone());
        let mut c = Cur::new(&ch.data);
        match &ch.name {
            b"META" => {
                m.n_meta += 1;
                let n = c.u32()?;
                for _ in 0..n {
                    let k = c.utf8()?;
                    let v = c.utf8()?;
                    m.meta.push((k, v));
                }
                if c.left() != 0 {
                    m.leftovers.push((name, c.left()));
                }
            }
            b"SSTR" => {
                m.n_sstr += 1;
                m.sstr_version = c.u32()?;
                let n = c.u32()?;
                for _ in 0..n {
                    let hash: [u8; 16] = c.take(16)?.try_into().unwrap();
                    let s = c.string()?;
                    m.sstr.push((hash, s));
                }
                if c.left() != 0 {
                    m.leftovers.push((name, c.left()));
                }
            }
            b"INST" => {
                let id = c.u32()?;
                let cname = c.utf8()?;
                let object_format = c.u8()?;
                let n = c.u32()? as usize;
                if n > c.left() / 4 {
                    return Err(format!("INST {cname}: {n} referents cannot fit"));
                }
                let referents = c.referents(n)?;
                let markers = if object_format == 1 {
                    c.take(n)?.to_vec()
                } else {
                    Vec::new()
                };
                if c.left() != 0 {
                    m.leftovers.push((format!("INST {cname}"), c.left()));
                }
                m.classes.push(BinClass {
                    id,
                    name: cname,
                    object_format,
                    referents,
                    markers,
                });
            }
            b"PROP" => {
                let class_id = c.u32()?;
                let pname = c.utf8()?;
                let class = m
                    .classes
                    .iter()
                    .find(|k| k.id == class_id)
                    .ok_or_else(|| format!("PROP {pname}: class id {class_id} not declared by a preceding INST"))?;
                let n = class.referents.len();
                if c.left() == 0 {
                    m.props.push(BinProp {
                        class_id,
                        name: pname,
                        type_id: None,
                        column: None,
                        leftover: 0,
                    });
                    continue;
                }
                let ty = c.u8()?;
                let column = read_column(&mut c, ty, n, d)
                    .map_err(|e| format!("PROP {}.{pname} (type {ty:#04x}): {e}", class.name))?;
                let leftover = if column.is_some() { c.left() } else { 0 };
                m.props.push(BinProp {
                    class_id,
                    name: pname,
                    type_id: Some(ty),
                    column,
                    leftover,
                });
            }
            b"PRNT" => {
                m.n_prnt += 1;
                m.prnt_version = c.u8()?;
                let n = c.u32()? as usize;
                if n > c.left() / 8 + 1 {
                    return Err(format!("PRNT: {n} pairs cannot fit"));
                }
                let children = c.referents(n)?;
                let parents = c.referents(n)?;
                m.prnt.extend(children.into_iter().zip(parents));
                if c.left() != 0 {
                    m.leftovers.push((name, c.left()));
                }
            }
            _ => {}
        }
    }
    Ok(m)
}

// ---------------------------------------------------------------------------
// Encoder (used by C04 / C15 / C13 to produce spec-conformant foreign files)

pub struct Out(pub Vec<u8>);

impl Out {
    pub fn new() -> Out {
        Out(Vec::new())
    }
    pub fn u8(&mut self, v: u8) {
        self.0.push(v)
    }
    pub fn u16(&mut self, v: u16) {
        self.0.extend_from_slice(&v.to_le_bytes())
    }
    pub fn i16(&mut self, v: i16) {
        self.0.extend_from_slice(&v.to_le_bytes())
    }
    pub fn u32(&mut self, v: u32) {
        self.0.extend_from_slice(&v.to_le_bytes())
    }
    pub fn u64(&mut self, v: u64) {
        self.0.extend_from_slice(&v.to_le_bytes())
    }
    pub fn bytes(&mut self, b: &[u8]) {
        self.0.extend_from_slice(b)
    }
    pub fn string(&mut self, b: &[u8]) {
        self.u32(b.len() as u32);
        self.bytes(b)
    }
    pub fn interleave(&mut self, rows: &[Vec<u8>], width: usize) {
        let n = rows.len();
        for j in 0..width {
            for r in rows.iter().take(n) {
                self.0.push(r[j]);
            }
        }
    }
    pub fn be_u32s(&mut self, v: &[u32]) {
        let rows: Vec<Vec<u8>> = v.iter().map(|x| x.to_be_bytes().to_vec()).collect();
        self.interleave(&rows, 4)
    }
    pub fn int32s(&mut self, v: &[i32]) {
        let t: Vec<u32> = v.iter().map(|x| transform32(*x)).collect();
        self.be_u32s(&t)
    }
    pub fn floats(&mut self, v: &[u32]) {
        let t: Vec<u32> = v.iter().map(|x| robloxfloat(*x)).collect();
        self.be_u32s(&t)
    }
    pub fn int64s(&mut self, v: &[i64]) {
        let rows: Vec<Vec<u8>> = v
            .iter()
            .map(|x| transform64(*x).to_be_bytes().to_vec())
            .collect();
        self.interleave(&rows, 8)
    }
    pub fn referents(&mut self, v: &[i32]) {
        let mut last = 0i32;
        let deltas: Vec<i32> = v
            .iter()
            .map(|x| {
                let d = x.wrapping_sub(last);
                last = *x;
                d
            })
            .collect();
        self.int32s(&deltas)
    }
}

impl Default for Out {
    fn default() -> Self {
        Out::new()
    }
}

fn write_cframes(o: &mut Out, v: &[GCf], use_ids: bool) {
    for c in v {
        let id = if use_ids {
            crate::spec::refattr::exact_rotation_id(&c.rot)
        } else {
            None
        };
        match id {
            Some(id) => o.u8(id),
            None => {
                o.u8(0);
                for b in c.rot {
                    o.u32(b);
                }
            }
        }
    }
    o.floats(&v.iter().map(|c| c.pos[0]).collect::<Vec<_>>());
    o.floats(&v.iter().map(|c| c.pos[1]).collect::<Vec<_>>());
    o.floats(&v.iter().map(|c| c.pos[2]).collect::<Vec<_>>());
}

pub fn write_column(o: &mut Out, col: &Column, d: Dialect) {
    match col {
        Column::String(v) | Column::Bytecode(v) => v.iter().for_each(|s| o.string(s)),
        Column::Bool(v) | Column::Faces(v) | Column::Axes(v) => o.bytes(v),
        Column::Int32(v) => o.int32s(v),
        Column::Float32(v) => o.floats(v),
        Column::Float64(v) => v.iter().for_each(|x| o.u64(*x)),
        Column::UDim(v) => {
            o.floats(&v.iter().map(|x| x.0).collect::<Vec<_>>());
            o.int32s(&v.iter().map(|x| x.1).collect::<Vec<_>>());
        }
        Column::UDim2(v) => {
            o.floats(&v.iter().map(|x| x.0).collect::<Vec<_>>());
            o.floats(&v.iter().map(|x| x.2).collect::<Vec<_>>());
            o.int32s(&v.iter().map(|x| x.1).collect::<Vec<_>>());
            o.int32s(&v.iter().map(|x| x.3).collect::<Vec<_>>());
        }
        Column::Ray(v) => v.iter().for_each(|r| r.iter().for_each(|b| o.u32(*b))),
        Column::BrickColor(v) | Column::Enum(v) | Column::SharedString(v) => o.be_u32s(v),
        Column::Color3(v) | Column::Vector3(v) => {
            for k in 0..3 {
                o.floats(&v.iter().map(|x| x[k]).collect::<Vec<_>>());
            }
        }
        Column::Vector2(v) => {
            for k in 0..2 {
                o.floats(&v.iter().map(|x| x[k]).collect::<Vec<_>>());
            }
        }
        Column::CFrame(v) => write_cframes(o, v, true),
        Column::Ref(v) => o.referents(v),
        Column::Vector3int16(v) => v.iter().for_each(|x| x.iter().for_each(|c| o.i16(*c))),
        Column::NumberSequence(v) => {
            for s in v {
                o.u32(s.len() as u32);
                for k in s {
                    k.iter().for_each(|b| o.u32(*b));
                }
            }
        }
        Column::ColorSequence(v) => {
            for s in v {
                o.u32(s.len() as u32);
                for (t, rgb, env) in s {
                    o.u32(*t);
                    rgb.iter().for_each(|b| o.u32(*b));
                    o.u32(*env);
                }
            }
        }
        Column::NumberRange(v) => v.iter().for_each(|(a, b)| {
            o.u32(*a);
            o.u32(*b)
        }),
        Column::Rect(v) => {
            for k in 0..4 {
                o.floats(&v.iter().map(|x| x[k]).collect::<Vec<_>>());
            }
        }
        Column::PhysicalProperties(v) => {
            for p in v {
                match p {
                    None => o.u8(0),
                    Some(p) => {
                        o.u8(1);
                        p.iter().for_each(|b| o.u32(*b));
                    }
                }
            }
        }
        Column::Color3uint8(v) => {
            for k in 0..3 {
                o.bytes(&v.iter().map(|x| x[k]).collect::<Vec<_>>());
            }
        }
        Column::Int64(v) | Column::SecurityCapabilities(v) => o.int64s(v),
        Column::OptionalCFrame(v) => {
            o.u8(0x10);
            write_cframes(o, &v.iter().map(|x| x.1.clone()).collect::<Vec<_>>(), true);
            o.u8(0x02);
            o.bytes(&v.iter().map(|x| x.0).collect::<Vec<_>>());
        }
        Column::UniqueId(v) => {
            let rows: Vec<Vec<u8>> = v
                .iter()
                .map(|(i, t, r)| {
                    let mut row = Vec::with_capacity(16);
                    row.extend_from_slice(&i.to_be_bytes());
                    row.extend_from_slice(&t.to_be_bytes());
                    let raw = if d.uid_random_rotated {
                        r.rotate_left(1)
                    } else {
                        *r
                    };
                    row.extend_from_slice(&raw.to_be_bytes());
                    row
                })
                .collect();
            o.interleave(&rows, 16);
        }
        Column::Font(v) => {
            for (family, weight, style, cached) in v {
                o.string(family.as_bytes());
                o.u16(*weight);
                o.u8(*style);
                o.string(cached.as_bytes());
            }
        }
        Column::Content(c) => {
            if d.content_types_transformed {
                o.int32s(&c.source_types.iter().map(|x| *x as i32).collect::<Vec<_>>());
            } else {
                o.be_u32s(&c.source_types.iter().map(|x| *x as u32).collect::<Vec<_>>());
            }
            o.u32(c.uris.len() as u32);
            c.uris.iter().for_each(|u| o.string(u.as_bytes()));
            o.u32(c.objects.len() as u32);
            o.referents(&c.objects);
            o.u32(c.externals.len() as u32);
            o.referents(&c.externals);
        }
    }
}

/// One chunk of an encoding plan.
#[derive(Clone, Debug, PartialEq, Serialize, Deserialize)]
pub struct PlannedChunk {
    pub name: [u8; 4],
    pub data: Vec<u8>,
    pub comp: Comp,
}

pub fn frame_chunk(out: &mut Vec<u8>, ch: &PlannedChunk) {
    let mut name = ch.name;
    // "If Chunk Name is less than four bytes, the remainder is filled with zeros."
    for b in name.iter_mut() {
        if *b == b' ' {
            *b = 0;
        }
    }
    out.extend_from_slice(&name);
    match ch.comp {
        Comp::None => {
            out.extend_from_slice(&0u32.to_le_bytes());
            out.extend_from_slice(&(ch.data.len() as u32).to_le_bytes());
            out.extend_from_slice(&0u32.to_le_bytes());
            out.extend_from_slice(&ch.data);
        }
        Comp::Lz4 => {
            let c = lz4::block::compress(&ch.data, None, false).expect("lz4 compress");
            if c.is_empty() {
                // an empty compressed body would read as "uncompressed"; store raw
                out.extend_from_slice(&0u32.to_le_bytes());
                out.extend_from_slice(&(ch.data.len() as u32).to_le_bytes());
                out.extend_from_slice(&0u32.to_le_bytes());
                out.extend_from_slice(&ch.data);
            } else {
                out.extend_from_slice(&(c.len() as u32).to_le_bytes());
                out.extend_from_slice(&(ch.data.len() as u32).to_le_bytes());
                out.extend_from_slice(&0u32.to_le_bytes());
                out.extend_from_slice(&c);
            }
        }
        Comp::Zstd => {
            let c = zstd::bulk::compress(&ch.data, 3).expect("zstd compress");
            out.extend_from_slice(&(c.len() as u32).to_le_bytes());
            out.extend_from_slice(&(ch.data.len() as u32).to_le_bytes());
            out.extend_from_slice(&0u32.to_le_bytes());
            out.extend_from_slice(&c);
        }
    }
}

pub fn header(class_count: u32, instance_count: u32) -> Vec<u8> {
    let mut out = Vec::new();
    out.extend_from_slice(MAGIC);
    out.extend_from_slice(SIGNATURE);
    out.extend_from_slice(&0u16.to_le_bytes());
    out.extend_from_slice(&class_count.to_le_bytes());
    out.extend_from_slice(&instance_count.to_le_bytes());
    out.extend_from_slice(&[0u8; 8]);
    out
}

pub fn inst_chunk(class: &BinClass) -> Vec<u8> {
    let mut o = Out::new();
    o.u32(class.id);
    o.string(class.name.as_bytes());
    o.u8(class.object_format);
    o.u32(class.referents.len() as u32);
    o.referents(&class.referents);
    if class.object_format == 1 {
        o.bytes(&class.markers);
    }
    o.0
}

pub fn prop_chunk(class_id: u32, name: &str, col: &Column, d: Dialect) -> Vec<u8> {
    let mut o = Out::new();
    o.u32(class_id);
    o.string(name.as_bytes());
    o.u8(col.type_id());
    write_column(&mut o, col, d);
    o.0
}

pub fn prnt_chunk(pairs: &[(i32, i32)]) -> Vec<u8> {
    let mut o = Out::new();
    o.u8(0);
    o.u32(pairs.len() as u32);
    o.referents(&pairs.iter().map(|p| p.0).collect::<Vec<_>>());
    o.referents(&pairs.iter().map(|p| p.1).collect::<Vec<_>>());
    o.0
}

pub fn sstr_chunk(strings: &[Vec<u8>]) -> Vec<u8> {
    sstr_chunk_with(strings, false)
}

pub fn sstr_chunk_with(strings: &[Vec<u8>], zero_hashes: bool) -> Vec<u8> {
    let mut o = Out::new();
    o.u32(0);
    o.u32(strings.len() as u32);
    for s in strings {
        // "The MD5 Hash isn't used by Roblox Studio when loading the file."
        let mut h = [0u8; 16];
        if !zero_hashes {
            let x = crate::engine::fxhash(s).to_le_bytes();
            h[..8].copy_from_slice(&x);
        }
        o.bytes(&h);
        o.string(s);
    }
    o.0
}

pub fn meta_chunk(entries: &[(String, String)]) -> Vec<u8> {
    let mut o = Out::new();
    o.u32(entries.len() as u32);
    for (k, v) in entries {
        o.string(k.as_bytes());
        o.string(v.as_bytes());
    }
    o.0
}

pub fn end_chunk() -> PlannedChunk {
    PlannedChunk {
        name: *b"END\0",
        data: b"</roblox>".to_vec(),
        comp: Comp::None,
    }
}

pub fn assemble(class_count: u32, instance_count: u32, chunks: &[PlannedChunk]) -> Vec<u8> {
    let mut out = header(class_count, instance_count);
    for ch in chunks {
        frame_chunk(&mut out, ch);
    }
    out
}
