//! Attribute blob codec written from docs/attributes.md.
//!
//! Layout: u32 LE count, then per entry: String name (u32 length + bytes),
//! u8 type id, value. All numbers little endian.

use crate::gen::vals::{self, GCf, GVal};

#[derive(Debug, Clone, PartialEq)]
pub struct AttrErr(pub String);

fn err<T>(s: impl Into<String>) -> Result<T, AttrErr> {
    Err(AttrErr(s.into()))
}

pub struct W(pub Vec<u8>);

impl W {
    fn u8(&mut self, v: u8) {
        self.0.push(v)
    }
    fn u16(&mut self, v: u16) {
        self.0.extend_from_slice(&v.to_le_bytes())
    }
    fn u32(&mut self, v: u32) {
        self.0.extend_from_slice(&v.to_le_bytes())
    }
    fn i32(&mut self, v: i32) {
        self.0.extend_from_slice(&v.to_le_bytes())
    }
    fn f32b(&mut self, bits: u32) {
        self.0.extend_from_slice(&bits.to_le_bytes())
    }
    fn f64b(&mut self, bits: u64) {
        self.0.extend_from_slice(&bits.to_le_bytes())
    }
    fn string(&mut self, b: &[u8]) {
        self.u32(b.len() as u32);
        self.0.extend_from_slice(b);
    }
}

/// Type id of docs/attributes.md for a value, if the document lists one.
pub fn type_id(v: &GVal) -> Option<u8> {
    Some(match v {
        GVal::String(_) | GVal::BinaryString(_) => 0x02,
        GVal::Bool(_) => 0x03,
        GVal::Int32(_) => 0x04,
        GVal::Float32(_) => 0x05,
        GVal::Float64(_) => 0x06,
        GVal::UDim(..) => 0x09,
        GVal::UDim2(..) => 0x0A,
        GVal::BrickColor(_) => 0x0E,
        GVal::Color3(_) => 0x0F,
        GVal::Vector2(_) => 0x10,
        GVal::Vector3(_) => 0x11,
        GVal::CFrame(_) => 0x14,
        GVal::EnumItem(..) => 0x15,
        GVal::NumberSequence(_) => 0x17,
        GVal::ColorSequence(_) => 0x19,
        GVal::NumberRange(..) => 0x1B,
        GVal::Rect(_) => 0x1C,
        GVal::Font { .. } => 0x21,
        _ => return None,
    })
}

/// Rotation id for a matrix that *exactly* equals one of the 24 bases.
pub fn exact_rotation_id(rot: &[u32; 9]) -> Option<u8> {
    for (id, m) in vals::all_basis_matrices() {
        if (0..9).all(|i| f32::from_bits(rot[i]) == m[i] as f32) {
            return Some(id);
        }
    }
    None
}

pub fn encode_value(w: &mut W, v: &GVal) -> Result<(), AttrErr> {
    match v {
        GVal::String(s) => w.string(s.as_bytes()),
        GVal::BinaryString(b) => w.string(b),
        GVal::Bool(b) => w.u8(*b as u8),
        GVal::Int32(i) => w.i32(*i),
        GVal::Float32(b) => w.f32b(*b),
        GVal::Float64(b) => w.f64b(*b),
        GVal::UDim(s, o) => {
            w.f32b(*s);
            w.i32(*o)
        }
        GVal::UDim2(xs, xo, ys, yo) => {
            w.f32b(*xs);
            w.i32(*xo);
            w.f32b(*ys);
            w.i32(*yo)
        }
        GVal::BrickColor(n) => w.u32(*n as u32),
        GVal::Color3(c) | GVal::Vector3(c) => c.iter().for_each(|b| w.f32b(*b)),
        GVal::Vector2(c) => c.iter().for_each(|b| w.f32b(*b)),
        GVal::CFrame(c) => {
            c.pos.iter().for_each(|b| w.f32b(*b));
            match exact_rotation_id(&c.rot) {
                Some(id) => w.u8(id),
                None => {
                    w.u8(0);
                    c.rot.iter().for_each(|b| w.f32b(*b));
                }
            }
        }
        GVal::EnumItem(t, v) => {
            w.string(t.as_bytes());
            w.u32(*v)
        }
        GVal::NumberSequence(k) => {
            w.u32(k.len() as u32);
            for p in k {
                // Envelope, Time, Value
                w.f32b(p[2]);
                w.f32b(p[0]);
                w.f32b(p[1]);
            }
        }
        GVal::ColorSequence(k) => {
            w.u32(k.len() as u32);
            for (t, c) in k {
                w.f32b(0);
                w.f32b(*t);
                c.iter().for_each(|b| w.f32b(*b));
            }
        }
        GVal::NumberRange(a, b) => {
            w.f32b(*a);
            w.f32b(*b)
        }
        GVal::Rect(r) => r.iter().for_each(|b| w.f32b(*b)),
        GVal::Font {
            family,
            weight,
            style,
            cached,
        } => {
            w.u16(*weight);
            w.u8(*style);
            w.string(family.as_bytes());
            w.string(cached.as_deref().unwrap_or("").as_bytes());
        }
        other => return err(format!("type {:?} has no attribute encoding", other.ty())),
    }
    Ok(())
}

/// Encode entries in the given order (the document fixes no order). An empty
/// map is zero bytes (stated by the property; the document is silent).
pub fn encode(entries: &[(String, GVal)]) -> Result<Vec<u8>, AttrErr> {
    if entries.is_empty() {
        return Ok(Vec::new());
    }
    let mut w = W(Vec::new());
    w.u32(entries.len() as u32);
    for (name, v) in entries {
        w.string(name.as_bytes());
        match type_id(v) {
            Some(id) => w.u8(id),
            None => return err(format!("type {:?} has no attribute type id", v.ty())),
        }
        encode_value(&mut w, v)?;
    }
    Ok(w.0)
}

pub struct R<'a> {
    pub b: &'a [u8],
    pub p: usize,
}

impl<'a> R<'a> {
    fn take(&mut self, n: usize) -> Result<&'a [u8], AttrErr> {
        if self.b.len() - self.p < n {
            return err(format!("need {n} bytes at offset {}, have {}", self.p, self.b.len() - self.p));
        }
        let s = &self.b[self.p..self.p + n];
        self.p += n;
        Ok(s)
    }
    fn u8(&mut self) -> Result<u8, AttrErr> {
        Ok(self.take(1)?[0])
    }
    fn u16(&mut self) -> Result<u16, AttrErr> {
        Ok(u16::from_le_bytes(self.take(2)?.try_into().unwrap()))
    }
    fn u32(&mut self) -> Result<u32, AttrErr> {
        Ok(u32::from_le_bytes(self.take(4)?.try_into().unwrap()))
    }
    fn i32(&mut self) -> Result<i32, AttrErr> {
        Ok(i32::from_le_bytes(self.take(4)?.try_into().unwrap()))
    }
    fn u64(&mut self) -> Result<u64, AttrErr> {
        Ok(u64::from_le_bytes(self.take(8)?.try_into().unwrap()))
    }
    fn string(&mut self) -> Result<Vec<u8>, AttrErr> {
        let n = self.u32()? as usize;
        Ok(self.take(n)?.to_vec())
    }
    fn f3(&mut self) -> Result<[u32; 3], AttrErr> {
        Ok([self.u32()?, self.u32()?, self.u32()?])
    }
}

/// Decode a blob into entries in file order. Strings come back as
/// BinaryString (the document: "should be considered to be an array of u8s").
pub fn decode(bytes: &[u8]) -> Result<Vec<(String, GVal)>, AttrErr> {
    let mut out = Vec::new();
    if bytes.is_empty() {
        return Ok(out);
    }
    let mut r = R { b: bytes, p: 0 };
    let n = r.u32()?;
    for _ in 0..n {
        let name = String::from_utf8(r.string()?).map_err(|_| AttrErr("name not UTF-8".into()))?;
        let id = r.u8()?;
        let v = match id {
            0x02 => GVal::BinaryString(r.string()?),
            0x03 => GVal::Bool(r.u8()? != 0),
            0x04 => GVal::Int32(r.i32()?),
            0x05 => GVal::Float32(r.u32()?),
            0x06 => GVal::Float64(r.u64()?),
            0x09 => GVal::UDim(r.u32()?, r.i32()?),
            0x0A => GVal::UDim2(r.u32()?, r.i32()?, r.u32()?, r.i32()?),
            0x0E => {
                let n = r.u32()?;
                if n > u16::MAX as u32 {
                    return err(format!("BrickColor number {n} out of range"));
                }
                GVal::BrickColor(n as u16)
            }
            0x0F => GVal::Color3(r.f3()?),
            0x10 => GVal::Vector2([r.u32()?, r.u32()?]),
            0x11 => GVal::Vector3(r.f3()?),
            0x14 => {
                let pos = r.f3()?;
                let id = r.u8()?;
                let rot = if id == 0 {
                    let mut rot = [0u32; 9];
                    for x in rot.iter_mut() {
                        *x = r.u32()?;
                    }
                    rot
                } else {
                    match vals::rotation_from_doc(id) {
                        Some(m) => {
                            let mut rot = [0u32; 9];
                            for i in 0..9 {
                                rot[i] = (m[i] as f32).to_bits();
                            }
                            rot
                        }
                        None => return err(format!("unknown rotation id {id:#x}")),
                    }
                };
                GVal::CFrame(GCf { pos, rot })
            }
            0x15 => {
                let t = String::from_utf8(r.string()?)
                    .map_err(|_| AttrErr("enum name not UTF-8".into()))?;
                GVal::EnumItem(t, r.u32()?)
            }
            0x17 => {
                let n = r.u32()?;
                let mut k = Vec::new();
                for _ in 0..n {
                    let env = r.u32()?;
                    let time = r.u32()?;
                    let value = r.u32()?;
                    k.push([time, value, env]);
                }
                GVal::NumberSequence(k)
            }
            0x19 => {
                let n = r.u32()?;
                let mut k = Vec::new();
                for _ in 0..n {
                    let _env = r.u32()?;
                    let time = r.u32()?;
                    let c = r.f3()?;
                    k.push((time, c));
                }
                GVal::ColorSequence(k)
            }
            0x1B => GVal::NumberRange(r.u32()?, r.u32()?),
            0x1C => GVal::Rect([r.u32()?, r.u32()?, r.u32()?, r.u32()?]),
            0x21 => {
                let weight = r.u16()?;
                let style = r.u8()?;
                let family = String::from_utf8(r.string()?)
                    .map_err(|_| AttrErr("family not UTF-8".into()))?;
                let cached = String::from_utf8(r.string()?)
                    .map_err(|_| AttrErr("cached face not UTF-8".into()))?;
                GVal::Font {
                    family,
                    weight,
                    style,
                    cached: if cached.is_empty() { None } else { Some(cached) },
                }
            }
            other => return err(format!("unknown attribute type id {other:#x}")),
        };
        out.push((name, v));
    }
    if r.p != bytes.len() {
        return err(format!("{} trailing bytes after {} entries", bytes.len() - r.p, n));
    }
    Ok(out)
}

/// Decode to a sorted, de-duplicated map (later entry wins), as a map would hold it.
pub fn decode_map(bytes: &[u8]) -> Result<Vec<(String, GVal)>, AttrErr> {
    let entries = decode(bytes)?;
    let mut map = std::collections::BTreeMap::new();
    for (k, v) in entries {
        map.insert(k, v);
    }
    Ok(map.into_iter().collect())
}
