pub mod forest;
pub mod vals;
