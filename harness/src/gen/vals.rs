//! Plain-data value specs (`GVal`) with floats stored as bit patterns,
//! conversion to/from `rbx_types::Variant`, and proptest strategies.

use proptest::prelude::*;
use proptest::sample::select;
use rbx_types::{
    Attributes, Axes, BinaryString, BrickColor, CFrame, Color3, Color3uint8, ColorSequence,
    ColorSequenceKeypoint, Content, ContentId, ContentType, CustomPhysicalProperties, Enum,
    EnumItem, Faces, Font, FontStyle, FontWeight, MaterialColors, Matrix3, NumberRange,
    NumberSequence, NumberSequenceKeypoint, PhysicalProperties, Ray, Rect, Ref, Region3,
    Region3int16, SecurityCapabilities, SharedString, Tags, TerrainMaterials, UDim, UDim2,
    UniqueId, Variant, VariantType, Vector2, Vector2int16, Vector3, Vector3int16,
};
use serde::{Deserialize, Serialize};

#[derive(Clone, Debug, PartialEq, Eq, Hash, Serialize, Deserialize)]
pub enum GRef {
    None,
    /// Index of a node (pre-order over the whole generated DOM / decoded forest).
    Node(usize),
    /// A referent that is not part of the DOM at all.
    Dangling,
}

#[derive(Clone, Debug, PartialEq, Eq, Hash, Serialize, Deserialize)]
pub struct GCf {
    pub pos: [u32; 3],
    /// Row-major: x.x x.y x.z y.x y.y y.z z.x z.y z.z (R00..R22)
    pub rot: [u32; 9],
}

#[derive(Clone, Debug, PartialEq, Eq, Hash, Serialize, Deserialize)]
pub enum GContent {
    None,
    Uri(String),
    Object(GRef),
}

#[derive(Clone, Debug, PartialEq, Eq, Hash, Serialize, Deserialize)]
pub enum GVal {
    Axes(u8),
    BinaryString(Vec<u8>),
    Bool(bool),
    BrickColor(u16),
    CFrame(GCf),
    Color3([u32; 3]),
    Color3uint8([u8; 3]),
    ColorSequence(Vec<(u32, [u32; 3])>),
    ContentId(String),
    Content(GContent),
    Enum(u32),
    EnumItem(String, u32),
    Faces(u8),
    Float32(u32),
    Float64(u64),
    Int32(i32),
    Int64(i64),
    NumberRange(u32, u32),
    NumberSequence(Vec<[u32; 3]>),
    PhysicalProperties(Option<[u32; 5]>),
    Ray([u32; 6]),
    Rect([u32; 4]),
    Ref(GRef),
    Region3([u32; 6]),
    Region3int16([i16; 6]),
    SharedString(Vec<u8>),
    String(String),
    UDim(u32, i32),
    UDim2(u32, i32, u32, i32),
    Vector2([u32; 2]),
    Vector2int16([i16; 2]),
    Vector3([u32; 3]),
    Vector3int16([i16; 3]),
    OptionalCFrame(Option<GCf>),
    Tags(Vec<String>),
    Attributes(Vec<(String, GVal)>),
    Font {
        family: String,
        weight: u16,
        style: u8,
        cached: Option<String>,
    },
    UniqueId(u32, u32, i64),
    MaterialColors(Vec<(u8, [u8; 3])>),
    SecurityCapabilities(u64),
}

pub const MATERIALS: [TerrainMaterials; 21] = [
    TerrainMaterials::Grass,
    TerrainMaterials::Slate,
    TerrainMaterials::Concrete,
    TerrainMaterials::Brick,
    TerrainMaterials::Sand,
    TerrainMaterials::WoodPlanks,
    TerrainMaterials::Rock,
    TerrainMaterials::Glacier,
    TerrainMaterials::Snow,
    TerrainMaterials::Sandstone,
    TerrainMaterials::Mud,
    TerrainMaterials::Basalt,
    TerrainMaterials::Ground,
    TerrainMaterials::CrackedLava,
    TerrainMaterials::Asphalt,
    TerrainMaterials::Cobblestone,
    TerrainMaterials::Ice,
    TerrainMaterials::LeafyGrass,
    TerrainMaterials::Salt,
    TerrainMaterials::Limestone,
    TerrainMaterials::Pavement,
];

fn f(b: u32) -> f32 {
    f32::from_bits(b)
}
fn v3(b: &[u32]) -> Vector3 {
    Vector3::new(f(b[0]), f(b[1]), f(b[2]))
}
fn v3b(v: Vector3) -> [u32; 3] {
    [v.x.to_bits(), v.y.to_bits(), v.z.to_bits()]
}

impl GCf {
    pub fn identity_at(pos: [u32; 3]) -> GCf {
        let one = 1.0f32.to_bits();
        GCf {
            pos,
            rot: [one, 0, 0, 0, one, 0, 0, 0, one],
        }
    }
    pub fn to_cframe(&self) -> CFrame {
        CFrame::new(
            v3(&self.pos),
            Matrix3::new(v3(&self.rot[0..3]), v3(&self.rot[3..6]), v3(&self.rot[6..9])),
        )
    }
    pub fn from_cframe(c: &CFrame) -> GCf {
        let o = &c.orientation;
        let (x, y, z) = (v3b(o.x), v3b(o.y), v3b(o.z));
        GCf {
            pos: v3b(c.position),
            rot: [x[0], x[1], x[2], y[0], y[1], y[2], z[0], z[1], z[2]],
        }
    }
    pub fn rot_f32(&self) -> [f32; 9] {
        let mut o = [0.0; 9];
        for i in 0..9 {
            o[i] = f(self.rot[i]);
        }
        o
    }
}

impl GVal {
    pub fn ty(&self) -> VariantType {
        match self {
            GVal::Axes(_) => VariantType::Axes,
            GVal::BinaryString(_) => VariantType::BinaryString,
            GVal::Bool(_) => VariantType::Bool,
            GVal::BrickColor(_) => VariantType::BrickColor,
            GVal::CFrame(_) => VariantType::CFrame,
            GVal::Color3(_) => VariantType::Color3,
            GVal::Color3uint8(_) => VariantType::Color3uint8,
            GVal::ColorSequence(_) => VariantType::ColorSequence,
            GVal::ContentId(_) => VariantType::ContentId,
            GVal::Content(_) => VariantType::Content,
            GVal::Enum(_) => VariantType::Enum,
            GVal::EnumItem(..) => VariantType::EnumItem,
            GVal::Faces(_) => VariantType::Faces,
            GVal::Float32(_) => VariantType::Float32,
            GVal::Float64(_) => VariantType::Float64,
            GVal::Int32(_) => VariantType::Int32,
            GVal::Int64(_) => VariantType::Int64,
            GVal::NumberRange(..) => VariantType::NumberRange,
            GVal::NumberSequence(_) => VariantType::NumberSequence,
            GVal::PhysicalProperties(_) => VariantType::PhysicalProperties,
            GVal::Ray(_) => VariantType::Ray,
            GVal::Rect(_) => VariantType::Rect,
            GVal::Ref(_) => VariantType::Ref,
            GVal::Region3(_) => VariantType::Region3,
            GVal::Region3int16(_) => VariantType::Region3int16,
            GVal::SharedString(_) => VariantType::SharedString,
            GVal::String(_) => VariantType::String,
            GVal::UDim(..) => VariantType::UDim,
            GVal::UDim2(..) => VariantType::UDim2,
            GVal::Vector2(_) => VariantType::Vector2,
            GVal::Vector2int16(_) => VariantType::Vector2int16,
            GVal::Vector3(_) => VariantType::Vector3,
            GVal::Vector3int16(_) => VariantType::Vector3int16,
            GVal::OptionalCFrame(_) => VariantType::OptionalCFrame,
            GVal::Tags(_) => VariantType::Tags,
            GVal::Attributes(_) => VariantType::Attributes,
            GVal::Font { .. } => VariantType::Font,
            GVal::UniqueId(..) => VariantType::UniqueId,
            GVal::MaterialColors(_) => VariantType::MaterialColors,
            GVal::SecurityCapabilities(_) => VariantType::SecurityCapabilities,
        }
    }

    /// Build the real value. `refs` maps a node index to the live referent;
    /// `dangling` is a referent that is in no DOM.
    pub fn to_variant(&self, refs: &dyn Fn(usize) -> Ref, dangling: Ref) -> Variant {
        let gref = |r: &GRef| match r {
            GRef::None => Ref::none(),
            GRef::Node(i) => refs(*i),
            GRef::Dangling => dangling,
        };
        match self {
            GVal::Axes(b) => Variant::Axes(Axes::from_bits(*b & 7).unwrap()),
            GVal::BinaryString(b) => Variant::BinaryString(BinaryString::from(b.clone())),
            GVal::Bool(b) => Variant::Bool(*b),
            GVal::BrickColor(n) => Variant::BrickColor(
                BrickColor::from_number(*n).unwrap_or(BrickColor::MediumStoneGrey),
            ),
            GVal::CFrame(c) => Variant::CFrame(c.to_cframe()),
            GVal::Color3(c) => Variant::Color3(Color3::new(f(c[0]), f(c[1]), f(c[2]))),
            GVal::Color3uint8(c) => Variant::Color3uint8(Color3uint8::new(c[0], c[1], c[2])),
            GVal::ColorSequence(k) => Variant::ColorSequence(ColorSequence {
                keypoints: k
                    .iter()
                    .map(|(t, c)| {
                        ColorSequenceKeypoint::new(f(*t), Color3::new(f(c[0]), f(c[1]), f(c[2])))
                    })
                    .collect(),
            }),
            GVal::ContentId(s) => Variant::ContentId(ContentId::from(s.as_str())),
            GVal::Content(c) => Variant::Content(match c {
                GContent::None => Content::none(),
                GContent::Uri(u) => Content::from_uri(u.clone()),
                GContent::Object(r) => Content::from_referent(gref(r)),
            }),
            GVal::Enum(v) => Variant::Enum(Enum::from_u32(*v)),
            GVal::EnumItem(t, v) => Variant::EnumItem(EnumItem {
                ty: t.clone(),
                value: *v,
            }),
            GVal::Faces(b) => Variant::Faces(Faces::from_bits(*b & 63).unwrap()),
            GVal::Float32(b) => Variant::Float32(f(*b)),
            GVal::Float64(b) => Variant::Float64(f64::from_bits(*b)),
            GVal::Int32(v) => Variant::Int32(*v),
            GVal::Int64(v) => Variant::Int64(*v),
            GVal::NumberRange(a, b) => Variant::NumberRange(NumberRange::new(f(*a), f(*b))),
            GVal::NumberSequence(k) => Variant::NumberSequence(NumberSequence {
                keypoints: k
                    .iter()
                    .map(|p| NumberSequenceKeypoint::new(f(p[0]), f(p[1]), f(p[2])))
                    .collect(),
            }),
            GVal::PhysicalProperties(None) => {
                Variant::PhysicalProperties(PhysicalProperties::Default)
            }
            GVal::PhysicalProperties(Some(p)) => {
                Variant::PhysicalProperties(PhysicalProperties::Custom(CustomPhysicalProperties {
                    density: f(p[0]),
                    friction: f(p[1]),
                    elasticity: f(p[2]),
                    friction_weight: f(p[3]),
                    elasticity_weight: f(p[4]),
                }))
            }
            GVal::Ray(r) => Variant::Ray(Ray::new(v3(&r[0..3]), v3(&r[3..6]))),
            GVal::Rect(r) => Variant::Rect(Rect::new(
                Vector2::new(f(r[0]), f(r[1])),
                Vector2::new(f(r[2]), f(r[3])),
            )),
            GVal::Ref(r) => Variant::Ref(gref(r)),
            GVal::Region3(r) => Variant::Region3(Region3::new(v3(&r[0..3]), v3(&r[3..6]))),
            GVal::Region3int16(r) => Variant::Region3int16(Region3int16::new(
                Vector3int16::new(r[0], r[1], r[2]),
                Vector3int16::new(r[3], r[4], r[5]),
            )),
            GVal::SharedString(b) => Variant::SharedString(SharedString::new(b.clone())),
            GVal::String(s) => Variant::String(s.clone()),
            GVal::UDim(s, o) => Variant::UDim(UDim::new(f(*s), *o)),
            GVal::UDim2(xs, xo, ys, yo) => {
                Variant::UDim2(UDim2::new(UDim::new(f(*xs), *xo), UDim::new(f(*ys), *yo)))
            }
            GVal::Vector2(v) => Variant::Vector2(Vector2::new(f(v[0]), f(v[1]))),
            GVal::Vector2int16(v) => Variant::Vector2int16(Vector2int16::new(v[0], v[1])),
            GVal::Vector3(v) => Variant::Vector3(v3(v)),
            GVal::Vector3int16(v) => Variant::Vector3int16(Vector3int16::new(v[0], v[1], v[2])),
            GVal::OptionalCFrame(c) => Variant::OptionalCFrame(c.as_ref().map(|c| c.to_cframe())),
            GVal::Tags(t) => Variant::Tags(Tags::from(t.clone())),
            GVal::Attributes(a) => {
                let mut attrs = Attributes::new();
                for (k, v) in a {
                    attrs.insert(k.clone(), v.to_variant(refs, dangling));
                }
                Variant::Attributes(attrs)
            }
            GVal::Font {
                family,
                weight,
                style,
                cached,
            } => Variant::Font(Font {
                family: family.clone(),
                weight: FontWeight::from_u16(*weight).unwrap_or_default(),
                style: FontStyle::from_u8(*style).unwrap_or_default(),
                cached_face_id: cached.clone(),
            }),
            GVal::UniqueId(i, t, r) => Variant::UniqueId(UniqueId::new(*i, *t, *r)),
            GVal::MaterialColors(m) => {
                let mut mc = MaterialColors::new();
                for (idx, c) in m {
                    mc.set_color(
                        MATERIALS[*idx as usize % 21],
                        Color3uint8::new(c[0], c[1], c[2]),
                    );
                }
                Variant::MaterialColors(mc)
            }
            GVal::SecurityCapabilities(b) => {
                Variant::SecurityCapabilities(SecurityCapabilities::from_bits(*b))
            }
        }
    }

    /// Observe a real value through the public API. `idx` maps a referent to
    /// a node index of the DOM being observed.
    pub fn from_variant(v: &Variant, idx: &dyn Fn(Ref) -> GRef) -> GVal {
        let c3 = |c: &Color3| [c.r.to_bits(), c.g.to_bits(), c.b.to_bits()];
        match v {
            Variant::Axes(a) => GVal::Axes(a.bits()),
            Variant::BinaryString(b) => GVal::BinaryString(AsRef::<[u8]>::as_ref(b).to_vec()),
            Variant::Bool(b) => GVal::Bool(*b),
            Variant::BrickColor(b) => GVal::BrickColor(*b as u16),
            Variant::CFrame(c) => GVal::CFrame(GCf::from_cframe(c)),
            Variant::Color3(c) => GVal::Color3(c3(c)),
            Variant::Color3uint8(c) => GVal::Color3uint8([c.r, c.g, c.b]),
            Variant::ColorSequence(s) => GVal::ColorSequence(
                s.keypoints
                    .iter()
                    .map(|k| (k.time.to_bits(), c3(&k.color)))
                    .collect(),
            ),
            Variant::ContentId(c) => GVal::ContentId(c.as_str().to_string()),
            Variant::Content(c) => GVal::Content(match c.value() {
                ContentType::None => GContent::None,
                ContentType::Uri(u) => GContent::Uri(u.clone()),
                ContentType::Object(r) => GContent::Object(if r.is_none() { GRef::None } else { idx(*r) }),
                _ => GContent::None,
            }),
            Variant::Enum(e) => GVal::Enum(e.to_u32()),
            Variant::EnumItem(e) => GVal::EnumItem(e.ty.clone(), e.value),
            Variant::Faces(x) => GVal::Faces(x.bits()),
            Variant::Float32(x) => GVal::Float32(x.to_bits()),
            Variant::Float64(x) => GVal::Float64(x.to_bits()),
            Variant::Int32(x) => GVal::Int32(*x),
            Variant::Int64(x) => GVal::Int64(*x),
            Variant::NumberRange(r) => GVal::NumberRange(r.min.to_bits(), r.max.to_bits()),
            Variant::NumberSequence(s) => GVal::NumberSequence(
                s.keypoints
                    .iter()
                    .map(|k| [k.time.to_bits(), k.value.to_bits(), k.envelope.to_bits()])
                    .collect(),
            ),
            Variant::PhysicalProperties(PhysicalProperties::Default) => {
                GVal::PhysicalProperties(None)
            }
            Variant::PhysicalProperties(PhysicalProperties::Custom(p)) => {
                GVal::PhysicalProperties(Some([
                    p.density.to_bits(),
                    p.friction.to_bits(),
                    p.elasticity.to_bits(),
                    p.friction_weight.to_bits(),
                    p.elasticity_weight.to_bits(),
                ]))
            }
            Variant::Ray(r) => {
                let (o, d) = (v3b(r.origin), v3b(r.direction));
                GVal::Ray([o[0], o[1], o[2], d[0], d[1], d[2]])
            }
            Variant::Rect(r) => GVal::Rect([
                r.min.x.to_bits(),
                r.min.y.to_bits(),
                r.max.x.to_bits(),
                r.max.y.to_bits(),
            ]),
            Variant::Ref(r) => GVal::Ref(if r.is_none() { GRef::None } else { idx(*r) }),
            Variant::Region3(r) => {
                let (o, d) = (v3b(r.min), v3b(r.max));
                GVal::Region3([o[0], o[1], o[2], d[0], d[1], d[2]])
            }
            Variant::Region3int16(r) => {
                GVal::Region3int16([r.min.x, r.min.y, r.min.z, r.max.x, r.max.y, r.max.z])
            }
            Variant::SharedString(s) => GVal::SharedString(s.data().to_vec()),
            Variant::String(s) => GVal::String(s.clone()),
            Variant::UDim(u) => GVal::UDim(u.scale.to_bits(), u.offset),
            Variant::UDim2(u) => {
                GVal::UDim2(u.x.scale.to_bits(), u.x.offset, u.y.scale.to_bits(), u.y.offset)
            }
            Variant::Vector2(v) => GVal::Vector2([v.x.to_bits(), v.y.to_bits()]),
            Variant::Vector2int16(v) => GVal::Vector2int16([v.x, v.y]),
            Variant::Vector3(v) => GVal::Vector3(v3b(*v)),
            Variant::Vector3int16(v) => GVal::Vector3int16([v.x, v.y, v.z]),
            Variant::OptionalCFrame(c) => GVal::OptionalCFrame(c.as_ref().map(GCf::from_cframe)),
            Variant::Tags(t) => GVal::Tags(t.iter().map(|s| s.to_string()).collect()),
            Variant::Attributes(a) => GVal::Attributes(
                a.iter()
                    .map(|(k, v)| (k.clone(), GVal::from_variant(v, idx)))
                    .collect(),
            ),
            Variant::Font(fnt) => GVal::Font {
                family: fnt.family.clone(),
                weight: fnt.weight.as_u16(),
                style: fnt.style.as_u8(),
                cached: fnt.cached_face_id.clone(),
            },
            Variant::UniqueId(u) => GVal::UniqueId(u.index(), u.time(), u.random()),
            Variant::MaterialColors(m) => GVal::MaterialColors(
                (0..21u8)
                    .map(|i| {
                        let c = m.get_color(MATERIALS[i as usize]);
                        (i, [c.r, c.g, c.b])
                    })
                    .collect(),
            ),
            Variant::SecurityCapabilities(s) => GVal::SecurityCapabilities(s.bits()),
            other => panic!("harness: unhandled Variant type {:?}", other.ty()),
        }
    }

    /// Semantic normal form of MaterialColors: all 21 colours spelled out.
    pub fn normalise_material_colors(&self) -> GVal {
        match self {
            GVal::MaterialColors(_) => {
                let v = self.to_variant(&|_| Ref::none(), Ref::none());
                GVal::from_variant(&v, &|_| GRef::Dangling)
            }
            other => other.clone(),
        }
    }

    pub fn has_nonfinite(&self) -> bool {
        let mut found = false;
        self.visit_f32(&mut |b| found |= !f(b).is_finite());
        if let GVal::Float64(b) = self {
            found |= !f64::from_bits(*b).is_finite();
        }
        found
    }

    pub fn has_nan(&self) -> bool {
        let mut found = false;
        self.visit_f32(&mut |b| found |= f(b).is_nan());
        if let GVal::Float64(b) = self {
            found |= f64::from_bits(*b).is_nan();
        }
        found
    }

    pub fn visit_f32(&self, cb: &mut dyn FnMut(u32)) {
        match self {
            GVal::CFrame(c) | GVal::OptionalCFrame(Some(c)) => {
                c.pos.iter().chain(c.rot.iter()).for_each(|b| cb(*b))
            }
            GVal::Color3(c) | GVal::Vector3(c) => c.iter().for_each(|b| cb(*b)),
            GVal::ColorSequence(k) => k.iter().for_each(|(t, c)| {
                cb(*t);
                c.iter().for_each(|b| cb(*b))
            }),
            GVal::Float32(b) => cb(*b),
            GVal::NumberRange(a, b) => {
                cb(*a);
                cb(*b)
            }
            GVal::NumberSequence(k) => k.iter().for_each(|p| p.iter().for_each(|b| cb(*b))),
            GVal::PhysicalProperties(Some(p)) => p.iter().for_each(|b| cb(*b)),
            GVal::Ray(r) | GVal::Region3(r) => r.iter().for_each(|b| cb(*b)),
            GVal::Rect(r) => r.iter().for_each(|b| cb(*b)),
            GVal::UDim(s, _) => cb(*s),
            GVal::UDim2(a, _, b, _) => {
                cb(*a);
                cb(*b)
            }
            GVal::Vector2(v) => v.iter().for_each(|b| cb(*b)),
            GVal::Attributes(a) => a.iter().for_each(|(_, v)| v.visit_f32(cb)),
            _ => {}
        }
    }

    pub fn visit_refs(&self, cb: &mut dyn FnMut(&GRef)) {
        match self {
            GVal::Ref(r) | GVal::Content(GContent::Object(r)) => cb(r),
            _ => {}
        }
    }

    pub fn map_refs(&self, m: &dyn Fn(&GRef) -> GRef) -> GVal {
        match self {
            GVal::Ref(r) => GVal::Ref(m(r)),
            GVal::Content(GContent::Object(r)) => GVal::Content(GContent::Object(m(r))),
            other => other.clone(),
        }
    }
}

// ---------------------------------------------------------------------------
// Scalar strategies

pub const SPECIAL_F32: &[u32] = &[
    0x0000_0000, // +0
    0x8000_0000, // -0
    0x7f80_0000, // +inf
    0xff80_0000, // -inf
    0x7fc0_0000, // quiet NaN
    0xffc0_0000, // negative quiet NaN
    0x7f80_0001, // signalling NaN, smallest payload
    0x7fa0_1234, // signalling NaN with payload
    0x7fff_ffff, // NaN, all payload bits
    0x0000_0001, // smallest subnormal
    0x807f_ffff, // largest negative subnormal
    0x0080_0000, // MIN_POSITIVE
    0x7f7f_ffff, // MAX
    0xff7f_ffff, // -MAX
    0x3f80_0000, // 1
    0xbf80_0000, // -1
    0x3f80_0001, // 1 + ulp
    0x3f7f_ffff, // 1 - ulp
    0xbf80_0001, // -(1 + ulp)
    0x3400_0000, // EPSILON
    0x3380_0000, // EPSILON / 2
    0x3480_0000, // 2 EPSILON
    0x3f00_0000, // 0.5
    0x3e20_0000, // 0.15625
    0x4b80_0000, // 2^24
    0x4f00_0000, // 2^31
    0x3dcc_cccd, // 0.1
    0x501502f9, // 1e10
    0x2edbe6ff, // 1e-10
];

pub const SPECIAL_F64: &[u64] = &[
    0,
    0x8000_0000_0000_0000,
    0x7ff0_0000_0000_0000,
    0xfff0_0000_0000_0000,
    0x7ff8_0000_0000_0000,
    0xfff8_0000_0000_0000,
    0x7ff0_0000_0000_0001,
    0x7ff4_0000_dead_beef,
    0x7fff_ffff_ffff_ffff,
    1,
    0x000f_ffff_ffff_ffff,
    0x0010_0000_0000_0000,
    0x7fef_ffff_ffff_ffff,
    0xffef_ffff_ffff_ffff,
    0x3ff0_0000_0000_0000,
    0x3ff0_0000_0000_0001,
    0x3fef_ffff_ffff_ffff,
    0x3fb9_9999_9999_999a, // 0.1
    0x4340_0000_0000_0000, // 2^53
    0x3cb0_0000_0000_0000, // EPSILON
    0x54b2_49ad_2594_c37d, // 1e100
    0x0000_0000_0000_0002,
];

/// Which floats a check wants.
#[derive(Clone, Copy, Debug, PartialEq, Eq)]
pub enum FloatMode {
    /// every bit pattern
    AllBits,
    /// finite values only (JSON)
    Finite,
}

pub fn f32_bits(mode: FloatMode) -> BoxedStrategy<u32> {
    let nice = (-2000i32..2000, 0u32..4).prop_map(|(i, s)| {
        let d = [1.0f32, 10.0, 100.0, 1000.0][s as usize];
        (i as f32 / d).to_bits()
    });
    match mode {
        FloatMode::AllBits => prop_oneof![
            3 => any::<u32>(),
            3 => select(SPECIAL_F32),
            4 => nice,
        ]
        .boxed(),
        FloatMode::Finite => prop_oneof![
            3 => any::<u32>().prop_map(|b| if f(b).is_finite() { b } else { b & 0x3fff_ffff }),
            3 => select(SPECIAL_F32).prop_map(|b| if f(b).is_finite() { b } else { 0x3f80_0001 }),
            4 => nice,
        ]
        .boxed(),
    }
}

pub fn f64_bits(mode: FloatMode) -> BoxedStrategy<u64> {
    let nice = (-200000i64..200000, 0u32..5).prop_map(|(i, s)| {
        let d = [1.0f64, 10.0, 100.0, 1000.0, 1e7][s as usize];
        (i as f64 / d).to_bits()
    });
    let from32 = f32_bits(mode).prop_map(|b| (f(b) as f64).to_bits());
    match mode {
        FloatMode::AllBits => prop_oneof![
            3 => any::<u64>(),
            3 => select(SPECIAL_F64),
            3 => nice,
            1 => from32,
        ]
        .boxed(),
        FloatMode::Finite => prop_oneof![
            3 => any::<u64>().prop_map(|b| if f64::from_bits(b).is_finite() { b } else { b & 0x3fff_ffff_ffff_ffff }),
            3 => select(SPECIAL_F64).prop_map(|b| if f64::from_bits(b).is_finite() { b } else { 0x3ff0_0000_0000_0001 }),
            3 => nice,
            1 => from32.prop_map(|b| if f64::from_bits(b).is_finite() { b } else { 0 }),
        ]
        .boxed(),
    }
}

pub fn i32_any() -> BoxedStrategy<i32> {
    prop_oneof![
        3 => any::<i32>(),
        3 => select(&[0i32, 1, -1, 2, -2, i32::MAX, i32::MIN, i32::MAX - 1, i32::MIN + 1, 255, 256, 65535, 65536, -65536, 0x7fff, -0x8000][..]),
        3 => -1000i32..1000,
    ]
    .boxed()
}

pub fn i64_any() -> BoxedStrategy<i64> {
    prop_oneof![
        3 => any::<i64>(),
        3 => select(&[0i64, 1, -1, i64::MAX, i64::MIN, i64::MAX - 1, i64::MIN + 1, i32::MAX as i64, i32::MIN as i64, i32::MAX as i64 + 1, i32::MIN as i64 - 1, 1 << 53, -(1 << 53), u32::MAX as i64][..]),
        3 => -100000i64..100000,
    ]
    .boxed()
}

#[derive(Clone, Copy, Debug, PartialEq, Eq)]
pub enum TextMode {
    /// any Rust string (incl. NUL and C0 controls)
    Any,
    /// only characters legal in XML 1.0 documents
    Xml,
    /// as Xml but without carriage return
    XmlNoCr,
}

pub const SPECIAL_TEXT: &[&str] = &[
    "",
    " ",
    "  ",
    "\t",
    "\n",
    " lead",
    "trail ",
    " both ",
    "\nlead-nl",
    "trail-nl\n",
    "]]>",
    "a]]>b",
    " ]]> ",
    "]]>]]>",
    "<![CDATA[x]]>",
    "<&>\"'",
    "&amp;",
    "&#13;",
    "<Item>",
    "</roblox>",
    "a\rb",
    "\r",
    "a\r\nb",
    "a\nb",
    "a\tb",
    "null",
    "INF",
    "NAN",
    "é",
    "日本語",
    "😀",
    "\u{FFFD}",
    "\u{10FFFF}",
    "\u{D7FF}\u{E000}",
    "\u{85}\u{2028}",
    "\u{A0}nbsp",
    "nbsp\u{A0}",
    "\u{3000}ideographic-space",
    "Hello, world!",
    "rbxassetid://123456",
    "rbxasset://fonts/families/Arial.json",
    "http://www.roblox.com/asset/?id=1",
];

fn xml_legal(c: char) -> bool {
    matches!(c as u32, 0x9 | 0xA | 0xD | 0x20..=0xD7FF | 0xE000..=0xFFFD | 0x10000..=0x10FFFF)
}

fn text_char(mode: TextMode) -> BoxedStrategy<char> {
    let base = prop_oneof![
        6 => proptest::char::range(' ', '~'),
        2 => select(&[' ', '\t', '\n', '\r', '<', '>', '&', '"', '\'', ']', '[', '!', ';', '#', '\u{0}', '\u{1}', '\u{8}', '\u{b}', '\u{c}', '\u{1f}', '\u{7f}', '\u{85}', '\u{a0}', '\u{2028}', '\u{feff}', '\u{fffe}', '\u{ffff}'][..]),
        2 => any::<char>(),
    ];
    match mode {
        TextMode::Any => base.boxed(),
        TextMode::Xml => base
            .prop_map(|c| if xml_legal(c) { c } else { '_' })
            .boxed(),
        TextMode::XmlNoCr => base
            .prop_map(|c| if xml_legal(c) && c != '\r' { c } else { '_' })
            .boxed(),
    }
}

pub fn text(mode: TextMode) -> BoxedStrategy<String> {
    let special = select(SPECIAL_TEXT).prop_map(move |s| {
        let s: String = s.to_string();
        match mode {
            TextMode::Any => s,
            TextMode::Xml => s,
            TextMode::XmlNoCr => s.replace('\r', "_"),
        }
    });
    let specials_any = if mode == TextMode::Any {
        select(&["\u{0}", "a\u{0}b", "\u{1}\u{2}", "\u{ffff}"][..])
            .prop_map(|s| s.to_string())
            .boxed()
    } else {
        Just(String::from("x")).boxed()
    };
    prop_oneof![
        4 => special,
        1 => specials_any,
        5 => proptest::collection::vec(text_char(mode), 0..14).prop_map(|v| v.into_iter().collect::<String>()),
        1 => (select(SPECIAL_TEXT), select(SPECIAL_TEXT)).prop_map(move |(a, b)| {
            let s = format!("{a}{b}");
            if mode == TextMode::XmlNoCr { s.replace('\r', "_") } else { s }
        }),
    ]
    .boxed()
}

pub fn bytes(max: usize) -> BoxedStrategy<Vec<u8>> {
    prop_oneof![
        2 => Just(Vec::new()),
        2 => select(vec![b"\xff\xfe".to_vec(), b"\x00".to_vec(), b"\x00\x00\x00".to_vec(), b"abc".to_vec(), b"\xc3\x28".to_vec(), b"\xed\xa0\x80".to_vec(), b"\x80".to_vec(), b"Rojo is cool!".to_vec()]),
        5 => proptest::collection::vec(any::<u8>(), 0..max.min(48)),
        1 => proptest::collection::vec(any::<u8>(), 0..max),
    ]
    .boxed()
}

/// Small alphabet so that sharing happens.
pub fn shared_bytes() -> BoxedStrategy<Vec<u8>> {
    prop_oneof![
        6 => select(vec![b"".to_vec(), b"a".to_vec(), b"b".to_vec(), b"shared-1".to_vec(), b"\xff\x00\xfe".to_vec(), b"some much longer shared string value, to be compressed".to_vec()]),
        2 => bytes(40),
    ]
    .boxed()
}

// ---------------------------------------------------------------------------
// Rotation matrices

/// The 24 axis-aligned rotation matrices, derived from the Euler-angle table of
/// docs/binary.md (angles in degrees (x, y, z), applied in the order Y -> X -> Z,
/// i.e. M = Ry * Rx * Rz), NOT copied from rbx_types.
pub const ROTATION_TABLE: &[(u8, [i32; 3])] = &[
    (0x02, [0, 0, 0]),
    (0x03, [90, 0, 0]),
    (0x05, [0, 180, 180]),
    (0x06, [-90, 0, 0]),
    (0x07, [0, 180, 90]),
    (0x09, [0, 90, 90]),
    (0x0a, [0, 0, 90]),
    (0x0c, [0, -90, 90]),
    (0x0d, [-90, -90, 0]),
    (0x0e, [0, -90, 0]),
    (0x10, [90, -90, 0]),
    (0x11, [0, 90, 180]),
    (0x14, [0, 180, 0]),
    (0x15, [-90, -180, 0]),
    (0x17, [0, 0, 180]),
    (0x18, [90, 180, 0]),
    (0x19, [0, 0, -90]),
    (0x1b, [0, -90, -90]),
    (0x1c, [0, -180, -90]),
    (0x1e, [0, 90, -90]),
    (0x1f, [90, 90, 0]),
    (0x20, [0, 90, 0]),
    (0x22, [-90, 90, 0]),
    (0x23, [0, -90, 180]),
];

fn sincos_deg(d: i32) -> (i32, i32) {
    match d.rem_euclid(360) {
        0 => (0, 1),
        90 => (1, 0),
        180 => (0, -1),
        270 => (-1, 0),
        _ => unreachable!(),
    }
}

fn matmul(a: [[i32; 3]; 3], b: [[i32; 3]; 3]) -> [[i32; 3]; 3] {
    let mut o = [[0; 3]; 3];
    for i in 0..3 {
        for j in 0..3 {
            for k in 0..3 {
                o[i][j] += a[i][k] * b[k][j];
            }
        }
    }
    o
}

/// Matrix (row-major R00..R22) of a documented rotation id.
pub fn rotation_from_doc(id: u8) -> Option<[i32; 9]> {
    let (_, ang) = ROTATION_TABLE.iter().find(|(i, _)| *i == id)?;
    let (sx, cx) = sincos_deg(ang[0]);
    let (sy, cy) = sincos_deg(ang[1]);
    let (sz, cz) = sincos_deg(ang[2]);
    let rx = [[1, 0, 0], [0, cx, -sx], [0, sx, cx]];
    let ry = [[cy, 0, sy], [0, 1, 0], [-sy, 0, cy]];
    let rz = [[cz, -sz, 0], [sz, cz, 0], [0, 0, 1]];
    let m = matmul(matmul(ry, rx), rz);
    Some([
        m[0][0], m[0][1], m[0][2], m[1][0], m[1][1], m[1][2], m[2][0], m[2][1], m[2][2],
    ])
}

pub fn all_basis_matrices() -> Vec<(u8, [i32; 9])> {
    ROTATION_TABLE
        .iter()
        .map(|(id, _)| (*id, rotation_from_doc(*id).unwrap()))
        .collect()
}

/// If every entry of `rot` is within f32::EPSILON of the corresponding entry
/// of one of the 24 bases, return that basis (as bits).
pub fn snap_target(rot: &[u32; 9]) -> Option<(u8, [u32; 9])> {
    'outer: for (id, basis) in all_basis_matrices() {
        for i in 0..9 {
            let v = f(rot[i]);
            if !((v - basis[i] as f32).abs() <= f32::EPSILON) {
                continue 'outer;
            }
        }
        let mut bits = [0u32; 9];
        for i in 0..9 {
            bits[i] = (basis[i] as f32).to_bits();
        }
        return Some((id, bits));
    }
    None
}

pub fn rotation(mode: FloatMode) -> BoxedStrategy<[u32; 9]> {
    let basis = select(all_basis_matrices()).prop_map(|(_, m)| {
        let mut o = [0u32; 9];
        for i in 0..9 {
            o[i] = (m[i] as f32).to_bits();
        }
        o
    });
    // basis with each entry perturbed by 0, ±eps/2, ±eps, ±2eps, or sign of zero flipped
    let perturb = (
        select(all_basis_matrices()),
        proptest::collection::vec(0u8..9, 9),
    )
        .prop_map(|((_, m), p)| {
            let mut o = [0u32; 9];
            for i in 0..9 {
                let b = m[i] as f32;
                let e = f32::EPSILON;
                let v = match p[i] {
                    0 | 1 | 2 => b,
                    3 => b + e / 2.0,
                    4 => b - e / 2.0,
                    5 => b + e,
                    6 => b - e,
                    7 => b + 2.0 * e,
                    _ => {
                        if b == 0.0 {
                            -0.0
                        } else {
                            b - 2.0 * e
                        }
                    }
                };
                o[i] = v.to_bits();
            }
            o
        });
    let scaled = (select(all_basis_matrices()), f32_bits(FloatMode::Finite)).prop_map(|((_, m), s)| {
        let mut o = [0u32; 9];
        for i in 0..9 {
            o[i] = (m[i] as f32 * f(s)).to_bits();
        }
        o
    });
    // matrices over {-1, 0, 1} that need not be rotations
    let signpat = proptest::collection::vec(-1i32..2, 9).prop_map(|v| {
        let mut o = [0u32; 9];
        for i in 0..9 {
            o[i] = (v[i] as f32).to_bits();
        }
        o
    });
    let general = proptest::collection::vec(f32_bits(mode), 9).prop_map(|v| {
        let mut o = [0u32; 9];
        o.copy_from_slice(&v);
        o
    });
    // a real rotation about Y
    let roty = (-3600i32..3600).prop_map(|d| {
        let a = d as f32 / 10.0 * std::f32::consts::PI / 180.0;
        let (s, c) = a.sin_cos();
        [c, 0.0, s, 0.0, 1.0, 0.0, -s, 0.0, c].map(|x| x.to_bits())
    });
    prop_oneof![
        3 => basis,
        3 => perturb,
        1 => scaled,
        1 => signpat,
        2 => general,
        1 => roty,
    ]
    .boxed()
}

pub fn cframe(mode: FloatMode) -> BoxedStrategy<GCf> {
    (proptest::collection::vec(f32_bits(mode), 3), rotation(mode))
        .prop_map(|(p, rot)| GCf {
            pos: [p[0], p[1], p[2]],
            rot,
        })
        .boxed()
}

pub fn brick_color_numbers() -> Vec<u16> {
    (0..=u16::MAX)
        .filter(|n| BrickColor::from_number(*n).is_some())
        .collect()
}

fn fvec<const N: usize>(mode: FloatMode) -> BoxedStrategy<[u32; N]> {
    proptest::collection::vec(f32_bits(mode), N)
        .prop_map(|v| {
            let mut o = [0u32; N];
            o.copy_from_slice(&v);
            o
        })
        .boxed()
}

// ---------------------------------------------------------------------------
// Value strategies by type

#[derive(Clone, Copy, Debug)]
pub struct ValProfile {
    pub floats: FloatMode,
    pub text: TextMode,
    /// minimum keypoints in sequences (XML: 2)
    pub min_keypoints: usize,
    pub max_blob: usize,
    /// Allow Content::Object
    pub content_object: bool,
    /// Restrict the random part of UniqueIds to non-negative values
    pub uid_nonneg: bool,
}

impl ValProfile {
    pub fn binary() -> ValProfile {
        ValProfile {
            floats: FloatMode::AllBits,
            text: TextMode::Any,
            min_keypoints: 0,
            max_blob: 300,
            content_object: true,
            uid_nonneg: false,
        }
    }
    pub fn xml() -> ValProfile {
        ValProfile {
            floats: FloatMode::AllBits,
            text: TextMode::Xml,
            min_keypoints: 2,
            max_blob: 300,
            content_object: false,
            uid_nonneg: false,
        }
    }
}

/// Strategy for a Ref placeholder; resolved against the node count later.
/// Encoded as GRef::Node(k) with k a raw u16 that the forest resolver maps
/// monotonically onto the node list.
pub fn raw_ref() -> BoxedStrategy<GRef> {
    prop_oneof![
        2 => Just(GRef::None),
        6 => (0usize..65536).prop_map(GRef::Node),
        1 => Just(GRef::Dangling),
    ]
    .boxed()
}

pub const FONT_WEIGHTS: &[u16] = &[100, 200, 300, 400, 500, 600, 700, 800, 900];

pub fn attribute_value(p: ValProfile, allow_enum_item: bool) -> BoxedStrategy<GVal> {
    let mut types = vec![
        VariantType::BinaryString,
        VariantType::String,
        VariantType::Bool,
        VariantType::Int32,
        VariantType::Float32,
        VariantType::Float64,
        VariantType::UDim,
        VariantType::UDim2,
        VariantType::BrickColor,
        VariantType::Color3,
        VariantType::Vector2,
        VariantType::Vector3,
        VariantType::CFrame,
        VariantType::NumberSequence,
        VariantType::ColorSequence,
        VariantType::NumberRange,
        VariantType::Rect,
        VariantType::Font,
    ];
    if allow_enum_item {
        types.push(VariantType::EnumItem);
    }
    // attribute sequences may be empty whatever the container format
    let p2 = ValProfile {
        min_keypoints: 0,
        ..p
    };
    select(types)
        .prop_flat_map(move |t| of_type(t, p2))
        .boxed()
}

/// A strategy producing values of exactly `ty`.
pub fn of_type(ty: VariantType, p: ValProfile) -> BoxedStrategy<GVal> {
    let fm = p.floats;
    match ty {
        VariantType::Axes => (0u8..8).prop_map(GVal::Axes).boxed(),
        VariantType::BinaryString => bytes(p.max_blob).prop_map(GVal::BinaryString).boxed(),
        VariantType::Bool => any::<bool>().prop_map(GVal::Bool).boxed(),
        VariantType::BrickColor => select(brick_color_numbers())
            .prop_map(GVal::BrickColor)
            .boxed(),
        VariantType::CFrame => cframe(fm).prop_map(GVal::CFrame).boxed(),
        VariantType::Color3 => fvec::<3>(fm).prop_map(GVal::Color3).boxed(),
        VariantType::Color3uint8 => any::<[u8; 3]>().prop_map(GVal::Color3uint8).boxed(),
        VariantType::ColorSequence => {
            proptest::collection::vec((f32_bits(fm), fvec::<3>(fm)), p.min_keypoints..6)
                .prop_map(GVal::ColorSequence)
                .boxed()
        }
        VariantType::ContentId => text(p.text).prop_map(GVal::ContentId).boxed(),
        VariantType::Content => {
            if p.content_object {
                prop_oneof![
                    2 => Just(GVal::Content(GContent::None)),
                    4 => text(p.text).prop_map(|s| GVal::Content(GContent::Uri(s))),
                    2 => raw_ref().prop_map(|r| GVal::Content(GContent::Object(r))),
                ]
                .boxed()
            } else {
                prop_oneof![
                    2 => Just(GVal::Content(GContent::None)),
                    4 => text(p.text).prop_map(|s| GVal::Content(GContent::Uri(s))),
                ]
                .boxed()
            }
        }
        VariantType::Enum => prop_oneof![
            4 => (0u32..60).prop_map(GVal::Enum),
            2 => any::<u32>().prop_map(GVal::Enum),
            1 => select(&[u32::MAX, 0x7fff_ffff, 0x8000_0000, 256, 65536][..]).prop_map(GVal::Enum),
        ]
        .boxed(),
        VariantType::EnumItem => (text(p.text), any::<u32>())
            .prop_map(|(t, v)| GVal::EnumItem(t, v))
            .boxed(),
        VariantType::Faces => (0u8..64).prop_map(GVal::Faces).boxed(),
        VariantType::Float32 => f32_bits(fm).prop_map(GVal::Float32).boxed(),
        VariantType::Float64 => f64_bits(fm).prop_map(GVal::Float64).boxed(),
        VariantType::Int32 => i32_any().prop_map(GVal::Int32).boxed(),
        VariantType::Int64 => i64_any().prop_map(GVal::Int64).boxed(),
        VariantType::NumberRange => (f32_bits(fm), f32_bits(fm))
            .prop_map(|(a, b)| GVal::NumberRange(a, b))
            .boxed(),
        VariantType::NumberSequence => {
            proptest::collection::vec(fvec::<3>(fm), p.min_keypoints..6)
                .prop_map(GVal::NumberSequence)
                .boxed()
        }
        VariantType::PhysicalProperties => prop_oneof![
            1 => Just(GVal::PhysicalProperties(None)),
            3 => fvec::<5>(fm).prop_map(|v| GVal::PhysicalProperties(Some(v))),
        ]
        .boxed(),
        VariantType::Ray => fvec::<6>(fm).prop_map(GVal::Ray).boxed(),
        VariantType::Rect => fvec::<4>(fm).prop_map(GVal::Rect).boxed(),
        VariantType::Ref => raw_ref().prop_map(GVal::Ref).boxed(),
        VariantType::Region3 => fvec::<6>(fm).prop_map(GVal::Region3).boxed(),
        VariantType::Region3int16 => any::<[i16; 6]>().prop_map(GVal::Region3int16).boxed(),
        VariantType::SharedString => shared_bytes().prop_map(GVal::SharedString).boxed(),
        VariantType::String => text(p.text).prop_map(GVal::String).boxed(),
        VariantType::UDim => (f32_bits(fm), i32_any())
            .prop_map(|(s, o)| GVal::UDim(s, o))
            .boxed(),
        VariantType::UDim2 => (f32_bits(fm), i32_any(), f32_bits(fm), i32_any())
            .prop_map(|(a, b, c, d)| GVal::UDim2(a, b, c, d))
            .boxed(),
        VariantType::Vector2 => fvec::<2>(fm).prop_map(GVal::Vector2).boxed(),
        VariantType::Vector2int16 => any::<[i16; 2]>().prop_map(GVal::Vector2int16).boxed(),
        VariantType::Vector3 => fvec::<3>(fm).prop_map(GVal::Vector3).boxed(),
        VariantType::Vector3int16 => any::<[i16; 3]>().prop_map(GVal::Vector3int16).boxed(),
        VariantType::OptionalCFrame => prop_oneof![
            1 => Just(GVal::OptionalCFrame(None)),
            3 => cframe(fm).prop_map(|c| GVal::OptionalCFrame(Some(c))),
        ]
        .boxed(),
        VariantType::Tags => {
            // non-empty, NUL-free members: the only tags the blob format can express
            let tm = p.text;
            proptest::collection::vec(text(tm), 0..5)
                .prop_map(|v| {
                    GVal::Tags(
                        v.into_iter()
                            .map(|s| s.replace('\u{0}', "0"))
                            .filter(|s| !s.is_empty())
                            .collect(),
                    )
                })
                .boxed()
        }
        VariantType::Attributes => {
            proptest::collection::vec((text(p.text), attribute_value(p, false)), 0..5)
                .prop_map(|mut v| {
                    // keys unique, sorted like the BTreeMap does
                    v.sort_by(|a, b| a.0.cmp(&b.0));
                    v.dedup_by(|a, b| a.0 == b.0);
                    GVal::Attributes(v)
                })
                .boxed()
        }
        VariantType::Font => (
            text(p.text),
            select(FONT_WEIGHTS),
            0u8..2,
            proptest::option::of(text(p.text)),
        )
            .prop_map(|(family, weight, style, cached)| GVal::Font {
                family,
                weight,
                style,
                // Some("") has no spelling of its own on the wire
                cached: cached.filter(|c| !c.is_empty()),
            })
            .boxed(),
        VariantType::UniqueId => {
            let nonneg = p.uid_nonneg;
            (
                prop_oneof![any::<u32>(), 0u32..4],
                prop_oneof![any::<u32>(), 0u32..4],
                prop_oneof![
                    3 => any::<i64>(),
                    2 => select(&[0i64, 1, -1, -5, i64::MIN, i64::MAX, i64::MIN + 1, 1 << 62, -(1 << 62)][..]),
                    2 => 0i64..1000,
                ],
            )
                .prop_map(move |(i, t, r)| {
                    GVal::UniqueId(i, t, if nonneg { r & i64::MAX } else { r })
                })
                .boxed()
        }
        VariantType::MaterialColors => {
            proptest::collection::vec((0u8..21, any::<[u8; 3]>()), 0..22)
                .prop_map(|mut v| {
                    v.sort_by_key(|x| x.0);
                    v.dedup_by_key(|x| x.0);
                    GVal::MaterialColors(v)
                })
                .boxed()
        }
        VariantType::SecurityCapabilities => prop_oneof![
            any::<u64>(),
            select(&[0u64, 1, u64::MAX, 1 << 63, i64::MAX as u64][..]),
        ]
        .prop_map(GVal::SecurityCapabilities)
        .boxed(),
        other => panic!("no strategy for {other:?}"),
    }
}

/// All Variant types that exist as GVal (40).
pub const ALL_TYPES: &[VariantType] = &[
    VariantType::Axes,
    VariantType::BinaryString,
    VariantType::Bool,
    VariantType::BrickColor,
    VariantType::CFrame,
    VariantType::Color3,
    VariantType::Color3uint8,
    VariantType::ColorSequence,
    VariantType::ContentId,
    VariantType::Enum,
    VariantType::Faces,
    VariantType::Float32,
    VariantType::Float64,
    VariantType::Int32,
    VariantType::Int64,
    VariantType::NumberRange,
    VariantType::NumberSequence,
    VariantType::PhysicalProperties,
    VariantType::Ray,
    VariantType::Rect,
    VariantType::Ref,
    VariantType::Region3,
    VariantType::Region3int16,
    VariantType::SharedString,
    VariantType::String,
    VariantType::UDim,
    VariantType::UDim2,
    VariantType::Vector2,
    VariantType::Vector2int16,
    VariantType::Vector3,
    VariantType::Vector3int16,
    VariantType::OptionalCFrame,
    VariantType::Tags,
    VariantType::Attributes,
    VariantType::Font,
    VariantType::UniqueId,
    VariantType::MaterialColors,
    VariantType::SecurityCapabilities,
    VariantType::EnumItem,
    VariantType::Content,
];

/// Types the README marks as implemented for rbx_binary.
pub fn binary_types() -> Vec<VariantType> {
    ALL_TYPES
        .iter()
        .copied()
        .filter(|t| {
            !matches!(
                t,
                VariantType::Region3
                    | VariantType::Region3int16
                    | VariantType::Vector2int16
                    | VariantType::EnumItem
            )
        })
        .collect()
}

/// Types the README marks as implemented for rbx_xml.
pub fn xml_types() -> Vec<VariantType> {
    ALL_TYPES
        .iter()
        .copied()
        .filter(|t| {
            !matches!(
                t,
                VariantType::Region3 | VariantType::Region3int16 | VariantType::EnumItem
            )
        })
        .collect()
}
