//! Instance-forest specs: plain data (`GForest`) produced by proptest
//! strategies, turned into a real `WeakDom` inside the property body.

use std::collections::{BTreeMap, HashMap, HashSet};

use proptest::prelude::*;
use proptest::sample::select;
use rbx_dom_weak::{InstanceBuilder, WeakDom};
use rbx_types::{Ref, VariantType};
use serde::{Deserialize, Serialize};

use super::vals::{self, GContent, GRef, GVal, TextMode, ValProfile};
use crate::dbview::{self, Ty};

#[derive(Clone, Debug, PartialEq, Serialize, Deserialize)]
pub struct GNode {
    /// None = child of the DataModel root; Some(j) with j < own index.
    pub parent: Option<usize>,
    pub class: String,
    pub name: String,
    /// Insertion order as given; names are unique within a node.
    pub props: Vec<(String, GVal)>,
}

#[derive(Clone, Debug, PartialEq, Serialize, Deserialize)]
pub struct GForest {
    /// Nodes in creation order; children of a node are ordered by index.
    pub nodes: Vec<GNode>,
    /// Node indices chosen as roots to write (non-overlapping subtrees, any order).
    pub roots: Vec<usize>,
}

impl GForest {
    pub fn children_of(&self, parent: Option<usize>) -> Vec<usize> {
        (0..self.nodes.len())
            .filter(|i| self.nodes[*i].parent == parent)
            .collect()
    }

    pub fn child_table(&self) -> (Vec<usize>, Vec<Vec<usize>>) {
        let mut top = Vec::new();
        let mut kids = vec![Vec::new(); self.nodes.len()];
        for (i, n) in self.nodes.iter().enumerate() {
            match n.parent {
                None => top.push(i),
                Some(p) => kids[p].push(i),
            }
        }
        (top, kids)
    }

    /// Nodes of the written set in pre-order over `roots` (in order).
    pub fn written_preorder(&self) -> Vec<usize> {
        let (_, kids) = self.child_table();
        let mut out = Vec::new();
        let mut stack: Vec<usize> = self.roots.iter().rev().copied().collect();
        while let Some(n) = stack.pop() {
            out.push(n);
            for c in kids[n].iter().rev() {
                stack.push(*c);
            }
        }
        out
    }

    pub fn depth(&self) -> usize {
        let mut d = vec![0usize; self.nodes.len()];
        let mut max = 0;
        for (i, n) in self.nodes.iter().enumerate() {
            d[i] = n.parent.map(|p| d[p] + 1).unwrap_or(1);
            max = max.max(d[i]);
        }
        max
    }
}

/// A DOM built from a spec, with the referent of every node.
pub struct BuiltDom {
    pub dom: WeakDom,
    pub refs: Vec<Ref>,
    pub dangling: Ref,
}

impl BuiltDom {
    pub fn root_refs(&self, forest: &GForest) -> Vec<Ref> {
        forest.roots.iter().map(|i| self.refs[*i]).collect()
    }
}

/// How to construct the tree (C07 varies this; the others use `Builder`).
#[derive(Clone, Copy, Debug, PartialEq, Eq, Serialize, Deserialize)]
pub enum BuildMode {
    /// one nested InstanceBuilder tree
    Builder,
    /// one `insert` call per node
    InsertEach,
    /// insert every node under the root, then `transfer_within` into place
    InsertThenMove,
    /// a DOM without a root (`WeakDom::default()`): every top-level node is a parentless tree
    /// inserted under the null parent
    Rootless,
}

pub fn build(forest: &GForest, mode: BuildMode, prop_order: Option<&[Vec<usize>]>) -> BuiltDom {
    let n = forest.nodes.len();
    let refs: Vec<Ref> = (0..n).map(|_| Ref::new()).collect();
    let dangling = Ref::new();
    let refs2 = refs.clone();
    let lookup = move |i: usize| refs2[i];

    let make_builder = |i: usize| -> InstanceBuilder {
        let node = &forest.nodes[i];
        let mut b = InstanceBuilder::new(node.class.as_str())
            .with_referent(refs[i])
            .with_name(node.name.clone());
        let order: Vec<usize> = match prop_order {
            Some(o) => o[i].clone(),
            None => (0..node.props.len()).collect(),
        };
        for k in order {
            let (name, val) = &node.props[k];
            b.add_property(name.as_str(), val.to_variant(&lookup, dangling));
        }
        b
    };

    let (top, kids) = forest.child_table();
    let dom = match mode {
        BuildMode::Builder => {
            // Build bottom-up without recursion (deep trees).
            let mut built: Vec<Option<InstanceBuilder>> = (0..n).map(|_| None).collect();
            for i in (0..n).rev() {
                let mut b = make_builder(i);
                for c in &kids[i] {
                    b.add_child(built[*c].take().unwrap());
                }
                built[i] = Some(b);
            }
            let mut root = InstanceBuilder::new("DataModel");
            for t in &top {
                root.add_child(built[*t].take().unwrap());
            }
            WeakDom::new(root)
        }
        BuildMode::InsertEach => {
            let mut dom = WeakDom::new(InstanceBuilder::new("DataModel"));
            let root = dom.root_ref();
            for i in 0..n {
                let parent = forest.nodes[i].parent.map(|p| refs[p]).unwrap_or(root);
                dom.insert(parent, make_builder(i));
            }
            dom
        }
        BuildMode::Rootless => {
            let mut built: Vec<Option<InstanceBuilder>> = (0..n).map(|_| None).collect();
            for i in (0..n).rev() {
                let mut b = make_builder(i);
                for c in &kids[i] {
                    b.add_child(built[*c].take().unwrap());
                }
                built[i] = Some(b);
            }
            let mut dom = WeakDom::default();
            for t in &top {
                dom.insert(Ref::none(), built[*t].take().unwrap());
            }
            dom
        }
        BuildMode::InsertThenMove => {
            let mut dom = WeakDom::new(InstanceBuilder::new("DataModel"));
            let root = dom.root_ref();
            // A holding folder keeps the root's child list clean.
            let holder = dom.insert(root, InstanceBuilder::new("Folder"));
            for i in (0..n).rev() {
                dom.insert(holder, make_builder(i));
            }
            for i in 0..n {
                let parent = forest.nodes[i].parent.map(|p| refs[p]).unwrap_or(root);
                dom.transfer_within(refs[i], parent);
            }
            dom.destroy(holder);
            dom
        }
    };
    BuiltDom {
        dom,
        refs,
        dangling,
    }
}

// ---------------------------------------------------------------------------
// Canonical observation of a decoded DOM

#[derive(Clone, Debug, PartialEq, Serialize, Deserialize)]
pub struct CanonInst {
    pub class: String,
    pub name: String,
    pub props: BTreeMap<String, GVal>,
    pub children: Vec<CanonInst>,
}

#[derive(Clone, Debug, Default, PartialEq, Serialize, Deserialize)]
pub struct CanonDom {
    pub roots: Vec<CanonInst>,
}

/// Flatten the children of the DOM root (what a reader returns under its
/// fresh DataModel) through the public API only. Refs become pre-order
/// indices over the observed forest.
pub fn observe(dom: &WeakDom) -> CanonDom {
    observe_roots(dom, dom.root().children())
}

pub fn observe_roots(dom: &WeakDom, roots: &[Ref]) -> CanonDom {
    // pre-order numbering, iterative
    let mut order: Vec<Ref> = Vec::new();
    let mut stack: Vec<Ref> = roots.iter().rev().copied().collect();
    while let Some(r) = stack.pop() {
        order.push(r);
        if let Some(inst) = dom.get_by_ref(r) {
            for c in inst.children().iter().rev() {
                stack.push(*c);
            }
        }
    }
    let index: HashMap<Ref, usize> = order.iter().enumerate().map(|(i, r)| (*r, i)).collect();
    let idx = |r: Ref| match index.get(&r) {
        Some(i) => GRef::Node(*i),
        None => GRef::Dangling,
    };

    // build bottom-up to avoid recursion
    let mut built: HashMap<Ref, CanonInst> = HashMap::new();
    for r in order.iter().rev() {
        let inst = match dom.get_by_ref(*r) {
            Some(i) => i,
            None => continue,
        };
        let mut props = BTreeMap::new();
        for (k, v) in &inst.properties {
            props.insert(k.to_string(), GVal::from_variant(v, &idx));
        }
        let children = inst
            .children()
            .iter()
            .filter_map(|c| built.remove(c))
            .collect();
        built.insert(
            *r,
            CanonInst {
                class: inst.class.to_string(),
                name: inst.name.clone(),
                props,
                children,
            },
        );
    }
    CanonDom {
        roots: roots.iter().filter_map(|r| built.remove(r)).collect(),
    }
}

impl CanonDom {
    pub fn count(&self) -> usize {
        let mut n = 0;
        let mut stack: Vec<&CanonInst> = self.roots.iter().collect();
        while let Some(i) = stack.pop() {
            n += 1;
            stack.extend(i.children.iter());
        }
        n
    }

    /// Pre-order list of instances.
    pub fn preorder(&self) -> Vec<&CanonInst> {
        let mut out = Vec::new();
        let mut stack: Vec<&CanonInst> = self.roots.iter().rev().collect();
        while let Some(i) = stack.pop() {
            out.push(i);
            for c in i.children.iter().rev() {
                stack.push(c);
            }
        }
        out
    }
}

// ---------------------------------------------------------------------------
// Strategies

#[derive(Clone, Debug)]
pub struct ForestProfile {
    pub vals: ValProfile,
    pub max_nodes: usize,
    /// probability weight (0..=10) for chain-shaped (deep) trees
    pub deep_weight: u32,
    pub types: Vec<VariantType>,
    /// which classes: known database classes, unknown identifiers
    pub known_classes: bool,
    /// draw known classes from the whole reflection database instead of the pool
    pub all_db_classes: bool,
    pub unknown_classes: bool,
    /// property names for known classes: canonical / alias spellings from the db
    pub alias_names: bool,
    /// add unknown property names (on known and unknown classes)
    pub unknown_props: bool,
    pub max_props: usize,
    /// text mode for class names of unknown classes and for property names
    pub ident_text: TextMode,
    /// choose arbitrary non-overlapping root selections (else: all top-level nodes)
    pub free_roots: bool,
    /// exclude these (class, canonical property) pairs
    pub exclude_unknown_color3uint8: bool,
    /// value types never used for *unknown* properties (outside the stated domain)
    pub exclude_unknown_types: Vec<VariantType>,
    /// let one node carry several spellings (canonical and aliases) of one property, with
    /// different values (C07: any tree is a legal input of the determinism property)
    pub multi_spelling: bool,
    /// also give known classes properties the database marks DoesNotSerialize (Part.Position,
    /// Mass, ...): both codecs drop them, and nothing else may change
    pub non_serializing: bool,
    /// sometimes give a known Int64 / Float64 property an Int32 / Float32 value (both writers
    /// accept it and store it widened)
    pub narrow_numbers: bool,
}

pub const KNOWN_CLASS_POOL: &[&str] = &[
    "Folder",
    "Part",
    "MeshPart",
    "Model",
    "TextLabel",
    "TextButton",
    "TextBox",
    "Frame",
    "ScreenGui",
    "ImageLabel",
    "ImageButton",
    "Sound",
    "Decal",
    "Texture",
    "ParticleEmitter",
    "Beam",
    "NumberValue",
    "IntValue",
    "StringValue",
    "ObjectValue",
    "CFrameValue",
    "RayValue",
    "Vector3Value",
    "Color3Value",
    "BrickColorValue",
    "BoolValue",
    "ModuleScript",
    "Script",
    "LocalScript",
    "Workspace",
    "Lighting",
    "Terrain",
    "Camera",
    "UIListLayout",
    "UIGradient",
    "UIPadding",
    "UIGridLayout",
    "WeldConstraint",
    "Attachment",
    "SpawnLocation",
    "Team",
    "Player",
    "Humanoid",
    "Tool",
    "Accessory",
    "SurfaceAppearance",
    "PackageLink",
    "UnionOperation",
    "TerrainRegion",
    "ArcHandles",
    "Handles",
    "BloomEffect",
    "SelectionBox",
    "BillboardGui",
    "SurfaceGui",
    "ViewportFrame",
    "ScrollingFrame",
    "VideoFrame",
    "Animation",
    "StarterGui",
    "ReplicatedStorage",
    "ServerStorage",
    "StarterPlayer",
    "SoundService",
    "Players",
    "WrapLayer",
    "WrapTarget",
    "HumanoidDescription",
    "Shirt",
    "Pants",
    "SpecialMesh",
    "FileMesh",
    "Sky",
    "Atmosphere",
    "Clouds",
    "PointLight",
    "SpotLight",
    "SurfaceLight",
    "Fire",
    "Smoke",
    "Sparkles",
    "Trail",
    "Explosion",
    "ProximityPrompt",
    "ClickDetector",
    "Dialog",
    "Seat",
    "VehicleSeat",
    "TrussPart",
    "WedgePart",
    "CornerWedgePart",
    "HingeConstraint",
    "RopeConstraint",
    "SpringConstraint",
    "AlignPosition",
    "AlignOrientation",
    "BodyVelocity",
    "Motor6D",
    "Weld",
    "Bone",
    "MaterialVariant",
    "MaterialService",
    "LocalizationTable",
];

pub const UNKNOWN_CLASS_POOL: &[&str] = &[
    "ZzUnknownClassA",
    "ZzUnknownClassB",
    "Unknown_Class",
    "zz",
    "Zz0",
];

pub const UNKNOWN_PROP_POOL: &[&str] = &[
    "ZzUnknownProp",
    "zzProp2",
    "Zz_Prop3",
    "ZzP4",
    "ZzP5",
    "ZzP6",
];

/// Raw node material before resolution against the database.
#[derive(Clone, Debug)]
struct RawNode {
    parent_sel: u16,
    class_sel: u16,
    unknown_class: bool,
    name: Option<String>,
    props: Vec<RawProp>,
}

#[derive(Clone, Debug)]
struct RawProp {
    /// 0..=6: known-plain property by index; 7..=8 unknown property
    kind: u8,
    sel: u16,
    /// one candidate value per type class is too expensive; instead carry a
    /// value seed: a list of candidate values is generated lazily through
    /// `prop_flat_map` at the forest level (see `forest`).
    seed: u64,
}

fn raw_node(profile: &ForestProfile) -> impl Strategy<Value = RawNode> {
    let name = prop_oneof![
        3 => Just(None),
        7 => vals::text(profile.vals.text).prop_map(Some),
    ];
    let max_props = profile.max_props;
    let unknown_class = match (profile.known_classes, profile.unknown_classes) {
        (true, true) => prop_oneof![4 => Just(false), 1 => Just(true)].boxed(),
        (true, false) => Just(false).boxed(),
        _ => Just(true).boxed(),
    };
    (
        any::<u16>(),
        any::<u16>(),
        unknown_class,
        name,
        proptest::collection::vec((0u8..9, any::<u16>(), any::<u64>()), 0..=max_props),
    )
        .prop_map(|(parent_sel, class_sel, unknown_class, name, props)| RawNode {
            parent_sel,
            class_sel,
            unknown_class,
            name,
            props: props
                .into_iter()
                .map(|(kind, sel, seed)| RawProp { kind, sel, seed })
                .collect(),
        })
}

fn pick<T>(sel: u16, items: &[T]) -> Option<&T> {
    if items.is_empty() {
        None
    } else {
        Some(&items[(sel as usize * items.len()) >> 16])
    }
}

/// Deterministically derive a value of `ty` from a seed, by running the value
/// strategy on a dedicated deterministic RNG. Keeps every random choice inside
/// proptest generators (the seed itself is a generated value) while avoiding a
/// type-dependent strategy tree for each property.
pub fn value_from_seed(ty: VariantType, profile: ValProfile, seed: u64) -> GVal {
    use proptest::strategy::ValueTree;
    use proptest::test_runner::{Config, RngAlgorithm, TestRng, TestRunner};
    let mut bytes = [0u8; 32];
    bytes[..8].copy_from_slice(&seed.to_le_bytes());
    bytes[8..16].copy_from_slice(&(seed ^ 0x9E37_79B9_7F4A_7C15).to_le_bytes());
    bytes[16..24].copy_from_slice(&seed.rotate_left(17).to_le_bytes());
    bytes[24..32].copy_from_slice(&(!seed).to_le_bytes());
    let rng = TestRng::from_seed(RngAlgorithm::ChaCha, &bytes);
    let config = BASE_CONFIG.with(|c| c.clone());
    let mut runner = TestRunner::new_with_rng(config, rng);
    STRATS.with(|cache| {
        let mut cache = cache.borrow_mut();
        let key = (ty, profile_key(&profile));
        let strat = cache
            .entry(key)
            .or_insert_with(|| vals::of_type(ty, profile));
        let mut tree = strat.new_tree(&mut runner).unwrap();
        if seed == 0 {
            // seed 0 (where proptest's shrinking of the seed ends) means "the
            // simplest value of this type"
            let mut guard = 0;
            while tree.simplify() && guard < 10_000 {
                guard += 1;
            }
        }
        tree.current()
    })
}

fn profile_key(p: &ValProfile) -> u64 {
    (p.floats as u64)
        | ((p.text as u64) << 4)
        | ((p.min_keypoints as u64) << 8)
        | ((p.max_blob as u64) << 16)
        | ((p.content_object as u64) << 40)
        | ((p.uid_nonneg as u64) << 41)
}

thread_local! {
    static ALL_CLASSES: Vec<String> = dbview::all_class_names();
    static BASE_CONFIG: proptest::test_runner::Config = proptest::test_runner::Config {
        failure_persistence: None,
        ..proptest::test_runner::Config::default()
    };
    static STRATS: std::cell::RefCell<HashMap<(VariantType, u64), BoxedStrategy<GVal>>> =
        std::cell::RefCell::new(HashMap::new());
    static CLASS_PROPS: std::cell::RefCell<HashMap<String, std::rc::Rc<dbview::ClassProps>>> =
        std::cell::RefCell::new(HashMap::new());
}

pub fn class_props_cached(class: &str) -> std::rc::Rc<dbview::ClassProps> {
    CLASS_PROPS.with(|c| {
        c.borrow_mut()
            .entry(class.to_string())
            .or_insert_with(|| std::rc::Rc::new(dbview::class_props(class)))
            .clone()
    })
}

fn resolve_refs(v: GVal, n_nodes: usize) -> GVal {
    let m = |r: &GRef| match r {
        GRef::Node(k) => {
            if n_nodes == 0 {
                GRef::None
            } else {
                GRef::Node((*k * n_nodes) >> 16)
            }
        }
        other => other.clone(),
    };
    match v {
        GVal::Ref(r) => GVal::Ref(m(&r)),
        GVal::Content(GContent::Object(r)) => GVal::Content(GContent::Object(m(&r))),
        other => other,
    }
}

fn resolve(raw: Vec<RawNode>, root_sel: Vec<u16>, shape: u8, profile: &ForestProfile) -> GForest {
    let n = raw.len();
    let mut nodes: Vec<GNode> = Vec::with_capacity(n);
    // fixed type per unknown (class, property) pair
    let mut unknown_types: HashMap<(String, String), VariantType> = HashMap::new();
    let mut uid_seen: HashSet<GVal> = HashSet::new();
    // the nil id is what the binary format's default column gives instances that lack the
    // property, so an explicit nil would collide with them inside the reader's DOM (C12's subject)
    uid_seen.insert(GVal::UniqueId(0, 0, 0));
    let mut ser_owner: HashMap<(String, String), String> = HashMap::new();

    for (i, r) in raw.iter().enumerate() {
        let parent = if i == 0 {
            None
        } else {
            match shape {
                // chain
                0 => Some(i - 1),
                // flat
                1 => None,
                // bushy: any earlier node or top level
                _ => {
                    let k = (r.parent_sel as usize * (i + 1)) >> 16;
                    if k == 0 {
                        None
                    } else {
                        Some(k - 1)
                    }
                }
            }
        };
        let class: String = if r.unknown_class || !profile.known_classes {
            pick(r.class_sel, UNKNOWN_CLASS_POOL).unwrap().to_string()
        } else {
            if profile.all_db_classes {
                ALL_CLASSES.with(|c| pick(r.class_sel, c).unwrap().clone())
            } else {
                pick(r.class_sel, KNOWN_CLASS_POOL).unwrap().to_string()
            }
        };
        let known_class = dbview::db().classes.contains_key(class.as_str());
        let cp = class_props_cached(&class);
        let mut props: Vec<(String, GVal)> = Vec::new();
        let mut canon_seen: HashSet<String> = HashSet::new();
        for rp in &r.props {
            let use_known = known_class && rp.kind <= 6 && !cp.plain.is_empty();
            if profile.non_serializing && known_class && rp.kind == 6 && rp.seed % 2 == 0 && !cp.non_serializing.is_empty() {
                let candidates: Vec<&dbview::Spelling> = cp
                    .non_serializing
                    .iter()
                    .filter(|s| match &s.view.canonical_ty {
                        Ty::Value(t) => profile.types.contains(t) && *t != VariantType::Ref,
                        Ty::Enum(_) => profile.types.contains(&VariantType::Enum),
                    })
                    .collect();
                if let Some(sp) = pick(rp.sel, &candidates) {
                    if canon_seen.insert(format!("(dns){}", sp.name)) {
                        let val = match &sp.view.canonical_ty {
                            Ty::Enum(_) => GVal::Enum((rp.seed >> 8) as u32 % 5),
                            Ty::Value(t) => value_from_seed(*t, profile.vals, rp.seed),
                        };
                        props.push((sp.name.clone(), resolve_refs(val, n)));
                    }
                    continue;
                }
            }
            if use_known {
                let candidates: Vec<&dbview::Spelling> = cp
                    .plain
                    .iter()
                    .filter(|s| profile.alias_names || !s.view.is_alias)
                    .filter(|s| {
                        let ser = s.view.ser.as_ref().unwrap();
                        profile.types.contains(&s.view.canonical_ty.variant_type())
                            && profile.types.contains(&ser.ty.variant_type())
                    })
                    .filter(|s| s.view.canonical != "Name")
                    .collect();
                if let Some(sp) = pick(rp.sel, &candidates) {
                    if !canon_seen.insert(sp.view.roundtrip.clone()) {
                        continue;
                    }
                    // Two canonical properties sharing one serialized name
                    // (Sound.MaxDistance / RollOffMaxDistance) are a confirmed
                    // finding (C08 probe); within one forest a class uses only one of them.
                    let ser_name = sp.view.ser.as_ref().unwrap().name.clone();
                    let owner = ser_owner
                        .entry((class.clone(), ser_name))
                        .or_insert_with(|| sp.view.canonical.clone());
                    if *owner != sp.view.canonical {
                        continue;
                    }
                    let mut val = match &sp.view.canonical_ty {
                        Ty::Enum(e) => {
                            let items = dbview::enum_items(e);
                            if rp.seed % 4 != 0 && !items.is_empty() {
                                GVal::Enum(items[(rp.seed >> 8) as usize % items.len()])
                            } else {
                                value_from_seed(VariantType::Enum, profile.vals, rp.seed)
                            }
                        }
                        Ty::Value(VariantType::Int64) if profile.narrow_numbers && rp.seed % 5 == 0 => value_from_seed(VariantType::Int32, profile.vals, rp.seed),
                        Ty::Value(VariantType::Float64) if profile.narrow_numbers && rp.seed % 5 == 0 => value_from_seed(VariantType::Float32, profile.vals, rp.seed),
                        Ty::Value(t) => value_from_seed(*t, profile.vals, rp.seed),
                    };
                    if sp.view.canonical == "UniqueId" {
                        if !uid_seen.insert(val.clone()) {
                            val = GVal::UniqueId(i as u32 + 1000, rp.seed as u32, rp.seed as i64);
                            uid_seen.insert(val.clone());
                        }
                    }
                    props.push((sp.name.clone(), resolve_refs(val, n)));
                    if profile.multi_spelling && rp.seed % 3 != 1 {
                        for (k, o) in candidates.iter().enumerate() {
                            if o.view.roundtrip == sp.view.roundtrip
                                && o.name != sp.name
                                && o.view.canonical_ty == sp.view.canonical_ty
                                && o.view.canonical != "UniqueId"
                                // half of the time the canonical spelling stays out: several aliases and no canonical one
                                && (o.view.is_alias || rp.seed % 2 == 0)
                            {
                                let seed2 = rp.seed.wrapping_add(1 + k as u64).wrapping_mul(0x9E37_79B9_7F4A_7C15);
                                let v2 = match &o.view.canonical_ty {
                                    Ty::Enum(_) => GVal::Enum((seed2 >> 40) as u32 % 7),
                                    Ty::Value(t) => value_from_seed(*t, profile.vals, seed2),
                                };
                                props.push((o.name.clone(), resolve_refs(v2, n)));
                            }
                        }
                    }
                }
            } else if profile.unknown_props {
                let pname = pick(rp.sel, UNKNOWN_PROP_POOL).unwrap().to_string();
                if !canon_seen.insert(pname.clone()) {
                    continue;
                }
                if dbview::resolve(&class, &pname).is_some() {
                    continue;
                }
                let ty = *unknown_types
                    .entry((class.clone(), pname.clone()))
                    .or_insert_with(|| {
                        let mut types: Vec<VariantType> = profile.types.clone();
                        if profile.exclude_unknown_color3uint8 {
                            types.retain(|t| *t != VariantType::Color3uint8);
                        }
                        for t in &profile.exclude_unknown_types {
                            types.retain(|x| x != t);
                        }
                        // weight the types whose behaviour depends on context
                        for t in [
                            VariantType::SharedString,
                            VariantType::SharedString,
                            VariantType::Ref,
                            VariantType::Ref,
                            VariantType::String,
                            VariantType::CFrame,
                            VariantType::Float32,
                            VariantType::Float64,
                        ] {
                            if types.contains(&t) {
                                types.push(t);
                            }
                        }
                        types[(rp.seed as usize >> 3) % types.len()]
                    });
                let val = value_from_seed(ty, profile.vals, rp.seed);
                props.push((pname, resolve_refs(val, n)));
            }
        }
        nodes.push(GNode {
            parent,
            class: class.clone(),
            name: r.name.clone().unwrap_or(class),
            props,
        });
    }

    let mut forest = GForest {
        nodes,
        roots: Vec::new(),
    };
    let (top, kids) = forest.child_table();
    if !profile.free_roots || root_sel.is_empty() {
        forest.roots = top;
    } else {
        // arbitrary non-overlapping selection, in the order drawn
        let mut parent_of: Vec<Option<usize>> = forest.nodes.iter().map(|n| n.parent).collect();
        let _ = &mut parent_of;
        let mut chosen: Vec<usize> = Vec::new();
        let is_ancestor = |a: usize, mut b: usize, nodes: &Vec<GNode>| -> bool {
            // is a an ancestor-or-self of b
            loop {
                if a == b {
                    return true;
                }
                match nodes[b].parent {
                    Some(p) => b = p,
                    None => return false,
                }
            }
        };
        for s in root_sel {
            if n == 0 {
                break;
            }
            let cand = (s as usize * n) >> 16;
            if chosen
                .iter()
                .all(|c| !is_ancestor(*c, cand, &forest.nodes) && !is_ancestor(cand, *c, &forest.nodes))
            {
                chosen.push(cand);
            }
        }
        let _ = kids;
        forest.roots = chosen;
    }
    forest
}

pub fn forest(profile: ForestProfile) -> BoxedStrategy<GForest> {
    let max = profile.max_nodes;
    let deep = profile.deep_weight;
    let p2 = profile.clone();
    (
        proptest::collection::vec(raw_node(&profile), 0..=max),
        proptest::collection::vec(any::<u16>(), 0..5),
        prop_oneof![
            deep => Just(0u8),
            1 => Just(1u8),
            (10 - deep.min(9)) => Just(2u8),
        ],
    )
        .prop_map(move |(raw, root_sel, shape)| resolve(raw, root_sel, shape, &p2))
        .boxed()
}

pub fn select_class() -> BoxedStrategy<String> {
    select(KNOWN_CLASS_POOL).prop_map(|s| s.to_string()).boxed()
}
