//! Independent resolver over the public reflection-database types. It does
//! NOT call `find_property_descriptors` of either codec; C16 cross-checks it
//! against both crates' observable behaviour.

use std::collections::BTreeMap;

use rbx_reflection::{
    ClassDescriptor, DataType, PropertyDescriptor, PropertyKind, PropertyMigration,
    PropertySerialization, ReflectionDatabase,
};
use rbx_types::{Variant, VariantType};

pub fn db() -> &'static ReflectionDatabase<'static> {
    rbx_reflection_database::get()
}

#[derive(Clone, Debug)]
pub struct PropView {
    /// Name as spelled by the caller.
    pub given: String,
    /// Canonical descriptor name.
    pub canonical: String,
    pub canonical_ty: Ty,
    pub is_alias: bool,
    /// None = does not serialize.
    pub ser: Option<SerView>,
    /// Some for `Migrate` canonical properties.
    pub migration: Option<&'static PropertyMigration>,
    /// Class (in the chain) that declares the descriptor.
    pub declared_in: String,
    /// Canonical name a reader reports for the serialized name. Equals
    /// `canonical` except where two canonical properties share one serialized
    /// name (Sound.MaxDistance / RollOffMaxDistance).
    pub roundtrip: String,
}

#[derive(Clone, Debug)]
pub struct SerView {
    pub name: String,
    pub ty: Ty,
}

#[derive(Clone, Debug, PartialEq, Eq)]
pub enum Ty {
    Value(VariantType),
    Enum(String),
}

impl Ty {
    pub fn variant_type(&self) -> VariantType {
        match self {
            Ty::Value(v) => *v,
            Ty::Enum(_) => VariantType::Enum,
        }
    }
}

fn ty_of(d: &DataType) -> Option<Ty> {
    match d {
        DataType::Value(v) => Some(Ty::Value(*v)),
        DataType::Enum(e) => Some(Ty::Enum(e.to_string())),
        _ => None,
    }
}

/// Superclass chain starting at `class` itself. None when a link is dangling
/// or the chain is cyclic.
pub fn chain<'a>(
    db: &'a ReflectionDatabase<'a>,
    class: &str,
) -> Option<Vec<&'a ClassDescriptor<'a>>> {
    let mut out = Vec::new();
    let mut cur = db.classes.get(class)?;
    loop {
        if out.len() > 64 {
            return None;
        }
        out.push(cur);
        match &cur.superclass {
            Some(s) => cur = db.classes.get(s.as_ref())?,
            None => return Some(out),
        }
    }
}

pub fn lookup_in<'a>(
    db: &'a ReflectionDatabase<'a>,
    class: &str,
    name: &str,
) -> Option<(&'a ClassDescriptor<'a>, &'a PropertyDescriptor<'a>)> {
    for c in chain(db, class)? {
        if let Some(p) = c.properties.get(name) {
            return Some((c, p));
        }
    }
    None
}

/// Resolve `(class, name)` against the bundled database.
pub fn resolve(class: &str, name: &str) -> Option<PropView> {
    resolve_in(db(), class, name)
}

pub fn resolve_in(
    db: &'static ReflectionDatabase<'static>,
    class: &str,
    name: &str,
) -> Option<PropView> {
    let (decl_class, desc) = lookup_in(db, class, name)?;
    let (canonical, is_alias) = match &desc.kind {
        PropertyKind::Canonical { .. } => (desc, false),
        PropertyKind::Alias { alias_for } => {
            (decl_class.properties.get(alias_for.as_ref())?, true)
        }
        _ => return None,
    };
    let serialization = match &canonical.kind {
        PropertyKind::Canonical { serialization } => serialization,
        _ => return None,
    };
    let canonical_ty = ty_of(&canonical.data_type)?;
    let (ser, migration) = match serialization {
        PropertySerialization::Serializes => (
            Some(SerView {
                name: canonical.name.to_string(),
                ty: canonical_ty.clone(),
            }),
            None,
        ),
        PropertySerialization::DoesNotSerialize => (None, None),
        PropertySerialization::SerializesAs(other) => {
            let o = decl_class.properties.get(other.as_ref())?;
            (
                Some(SerView {
                    name: o.name.to_string(),
                    ty: ty_of(&o.data_type)?,
                }),
                None,
            )
        }
        PropertySerialization::Migrate(m) => (
            Some(SerView {
                name: canonical.name.to_string(),
                ty: canonical_ty.clone(),
            }),
            Some(m),
        ),
        _ => return None,
    };
    let mut roundtrip = canonical.name.to_string();
    if let Some(ser) = &ser {
        if ser.name != canonical.name {
            // what does the serialized name itself resolve to?
            if let Some((c2, d2)) = lookup_in(db, class, &ser.name) {
                let back = match &d2.kind {
                    PropertyKind::Canonical { .. } => Some(d2),
                    PropertyKind::Alias { alias_for } => c2.properties.get(alias_for.as_ref()),
                    _ => None,
                };
                if let Some(back) = back {
                    roundtrip = back.name.to_string();
                }
            }
        }
    }
    Some(PropView {
        given: name.to_string(),
        canonical: canonical.name.to_string(),
        canonical_ty,
        is_alias,
        ser,
        migration,
        declared_in: decl_class.name.to_string(),
        roundtrip,
    })
}

/// Default value of `(class, canonical name)` searched up the chain.
pub fn default_of(class: &str, canonical: &str) -> Option<&'static Variant> {
    for c in chain(db(), class)? {
        if let Some(v) = c.default_properties.get(canonical) {
            return Some(v);
        }
    }
    None
}

/// One usable property spelling of a class, for generators.
#[derive(Clone, Debug)]
pub struct Spelling {
    pub name: String,
    pub view: PropView,
}

#[derive(Clone, Debug, Default)]
pub struct ClassProps {
    pub class: String,
    /// Serializable, non-migrating properties through canonical or alias names.
    pub plain: Vec<Spelling>,
    /// Spellings whose canonical property is `Migrate`.
    pub migrating: Vec<Spelling>,
    /// Spellings of DoesNotSerialize properties.
    pub non_serializing: Vec<Spelling>,
}

/// All spellings reachable from `class` (nearest declaration wins), sorted by name.
pub fn class_props(class: &str) -> ClassProps {
    let mut out = ClassProps {
        class: class.to_string(),
        ..Default::default()
    };
    let mut names: BTreeMap<String, ()> = BTreeMap::new();
    if let Some(ch) = chain(db(), class) {
        for c in ch {
            for name in c.properties.keys() {
                names.entry(name.to_string()).or_default();
            }
        }
    }
    for name in names.keys() {
        if let Some(view) = resolve(class, name) {
            let sp = Spelling {
                name: name.clone(),
                view: view.clone(),
            };
            if view.migration.is_some() {
                out.migrating.push(sp);
            } else if view.ser.is_none() {
                out.non_serializing.push(sp);
            } else {
                out.plain.push(sp);
            }
        }
    }
    out
}

pub fn all_class_names() -> Vec<String> {
    let mut v: Vec<String> = db().classes.keys().map(|k| k.to_string()).collect();
    v.sort();
    v
}

pub fn enum_items(name: &str) -> Vec<u32> {
    let mut v: Vec<u32> = db()
        .enums
        .get(name)
        .map(|e| e.items.values().copied().collect())
        .unwrap_or_default();
    v.sort();
    v.dedup();
    v
}

/// Serialized names of `class` that more than one *canonical* property maps
/// to (a database quirk: Sound.MaxDistance / Sound.RollOffMaxDistance).
pub fn ser_conflicts(class: &str) -> Vec<(String, Vec<String>)> {
    let cp = class_props(class);
    let mut by_ser: BTreeMap<String, Vec<String>> = BTreeMap::new();
    for sp in cp.plain.iter().chain(cp.migrating.iter()) {
        if let Some(ser) = &sp.view.ser {
            let e = by_ser.entry(ser.name.clone()).or_default();
            if !e.contains(&sp.view.canonical) {
                e.push(sp.view.canonical.clone());
            }
        }
    }
    by_ser.into_iter().filter(|(_, v)| v.len() > 1).collect()
}
