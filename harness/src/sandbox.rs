//! Worker-subprocess sandbox for C13: decodes untrusted bytes in a child
//! process so that aborts (allocation failure, stack overflow) are attributed
//! to their input and the campaign continues. A tracking global allocator
//! turns "memory unrelated to the input size" into a visible outcome.

use std::alloc::{GlobalAlloc, Layout, System};
use std::cell::Cell;
use std::io::{Read, Write};
use std::process::{Child, ChildStdin, ChildStdout, Command, Stdio};
use std::sync::atomic::{AtomicUsize, Ordering};
use std::time::{Duration, Instant};

use serde::{Deserialize, Serialize};

// ---------------------------------------------------------------------------
// Tracking allocator

pub struct Tracking;

/// Largest single request allowed; 0 = unlimited (parent process).
static LIMIT: AtomicUsize = AtomicUsize::new(0);

thread_local! {
    static IN_REPORT: Cell<bool> = const { Cell::new(false) };
}

#[cold]
fn report_oversize(size: usize) -> ! {
    // allow the reporting code itself to allocate
    LIMIT.store(0, Ordering::SeqCst);
    let already = IN_REPORT.with(|f| f.replace(true));
    if !already {
        let bt = std::backtrace::Backtrace::force_capture().to_string();
        let mut site = String::from("?");
        let mut last = String::new();
        for line in bt.lines() {
            let line = line.trim();
            if let Some(loc) = line.strip_prefix("at ") {
                if let Some(rest) = loc.strip_prefix("/repo/") {
                    let file = rest.split(':').next().unwrap_or(rest);
                    let mut name = last.clone();
                    if let Some(i) = name.find('<') {
                        if i > 0 {
                            name.truncate(i);
                        }
                    }
                    let name = name.rsplit("::").next().unwrap_or("").to_string();
                    site = format!("{file}::{name}");
                    break;
                }
            } else if let Some((_, n)) = line.split_once(": ") {
                last = n.to_string();
            }
        }
        let msg = format!("\nOVERSIZE size={size} site={site}\n");
        unsafe {
            libc::write(2, msg.as_ptr() as *const libc::c_void, msg.len());
        }
    }
    unsafe { libc::_exit(97) }
}

unsafe impl GlobalAlloc for Tracking {
    unsafe fn alloc(&self, layout: Layout) -> *mut u8 {
        let limit = LIMIT.load(Ordering::Relaxed);
        if limit != 0 && layout.size() > limit {
            report_oversize(layout.size());
        }
        System.alloc(layout)
    }
    unsafe fn dealloc(&self, ptr: *mut u8, layout: Layout) {
        System.dealloc(ptr, layout)
    }
    unsafe fn alloc_zeroed(&self, layout: Layout) -> *mut u8 {
        let limit = LIMIT.load(Ordering::Relaxed);
        if limit != 0 && layout.size() > limit {
            report_oversize(layout.size());
        }
        System.alloc_zeroed(layout)
    }
    unsafe fn realloc(&self, ptr: *mut u8, layout: Layout, new_size: usize) -> *mut u8 {
        let limit = LIMIT.load(Ordering::Relaxed);
        if limit != 0 && new_size > limit {
            report_oversize(new_size);
        }
        System.realloc(ptr, layout, new_size)
    }
}

// ---------------------------------------------------------------------------
// Decode kinds and outcomes

#[derive(Clone, Copy, Debug, PartialEq, Eq, Hash, Serialize, Deserialize)]
pub enum Kind {
    Binary,
    Xml,
    XmlReadUnknown,
    Attributes,
}

impl Kind {
    fn code(self) -> u8 {
        match self {
            Kind::Binary => 0,
            Kind::Xml => 1,
            Kind::XmlReadUnknown => 2,
            Kind::Attributes => 3,
        }
    }
    fn from_code(c: u8) -> Option<Kind> {
        Some(match c {
            0 => Kind::Binary,
            1 => Kind::Xml,
            2 => Kind::XmlReadUnknown,
            3 => Kind::Attributes,
            _ => return None,
        })
    }
}

#[derive(Clone, Debug, PartialEq, Eq)]
pub enum Outcome {
    /// decoded; payload: a short digest of the result
    Ok(String),
    /// clean error; payload: error text
    Err(String),
    /// panic inside the library; payload: (signature, message)
    Panic(String, String),
    /// the worker died: allocation beyond the limit
    Oversize { size: u64, site: String },
    /// the worker died by a signal / abort
    Died(String),
    Timeout,
}

/// Decode in-process (used by the worker, and directly for inputs that cannot abort).
pub fn decode_in_process(kind: Kind, bytes: &[u8]) -> Outcome {
    let res = crate::engine::catch(|| match kind {
        Kind::Binary => rbx_binary::from_reader(bytes)
            .map(|d| format!("dom:{}", d.descendants().count()))
            .map_err(|e| e.to_string()),
        Kind::Xml => rbx_xml::from_reader_default(bytes)
            .map(|d| format!("dom:{}", d.descendants().count()))
            .map_err(|e| e.to_string()),
        Kind::XmlReadUnknown => rbx_xml::from_reader(
            bytes,
            rbx_xml::DecodeOptions::new()
                .property_behavior(rbx_xml::DecodePropertyBehavior::ReadUnknown),
        )
        .map(|d| format!("dom:{}", d.descendants().count()))
        .map_err(|e| e.to_string()),
        Kind::Attributes => rbx_types::Attributes::from_reader(bytes)
            .map(|a| format!("attrs:{}", a.len()))
            .map_err(|e| e.to_string()),
    });
    match res {
        Ok(Ok(s)) => Outcome::Ok(s),
        Ok(Err(e)) => Outcome::Err(e),
        Err(info) => Outcome::Panic(crate::engine::panic_key(&info), format!("{} at {}", info.msg, info.location)),
    }
}

pub fn alloc_limit_for(len: usize) -> usize {
    (64usize << 20).max(len.saturating_mul(4096))
}

/// Entry point of `rbxverif worker`.
pub fn worker_main() -> ! {
    crate::engine::install_panic_hook();
    // address-space cap: a decoder that loops allocating dies instead of taking the machine down
    unsafe {
        let lim = libc::rlimit {
            rlim_cur: 6 << 30,
            rlim_max: 6 << 30,
        };
        libc::setrlimit(libc::RLIMIT_AS, &lim);
    }
    let stdin = std::io::stdin();
    let stdout = std::io::stdout();
    let mut input = stdin.lock();
    let mut output = stdout.lock();
    loop {
        let mut head = [0u8; 5];
        if input.read_exact(&mut head).is_err() {
            std::process::exit(0);
        }
        let kind = Kind::from_code(head[0]).unwrap_or(Kind::Binary);
        let len = u32::from_le_bytes(head[1..5].try_into().unwrap()) as usize;
        let mut bytes = vec![0u8; len];
        if input.read_exact(&mut bytes).is_err() {
            std::process::exit(0);
        }
        let limit = alloc_limit_for(len);
        // run on a thread with the platform's usual main-thread stack (8 MiB)
        let handle = std::thread::Builder::new()
            .stack_size(8 << 20)
            .spawn(move || {
                LIMIT.store(limit, Ordering::SeqCst);
                let out = decode_in_process(kind, &bytes);
                LIMIT.store(0, Ordering::SeqCst);
                out
            })
            .expect("spawn decode thread");
        let outcome = handle.join().unwrap_or(Outcome::Died("decode thread panicked".into()));
        let (code, a, b) = match outcome {
            Outcome::Ok(s) => (0u8, s, String::new()),
            Outcome::Err(e) => (1u8, e, String::new()),
            Outcome::Panic(k, m) => (2u8, k, m),
            other => (9u8, format!("{other:?}"), String::new()),
        };
        let a = a.as_bytes();
        let b = b.as_bytes();
        let mut msg = Vec::with_capacity(9 + a.len() + b.len());
        msg.push(code);
        msg.extend_from_slice(&(a.len() as u32).to_le_bytes());
        msg.extend_from_slice(&(b.len() as u32).to_le_bytes());
        msg.extend_from_slice(a);
        msg.extend_from_slice(b);
        if output.write_all(&msg).is_err() || output.flush().is_err() {
            std::process::exit(0);
        }
    }
}

// ---------------------------------------------------------------------------
// Client side

pub struct Worker {
    child: Child,
    stdin: ChildStdin,
    stdout: ChildStdout,
    stderr: std::process::ChildStderr,
    pub restarts: u64,
}

impl Worker {
    pub fn spawn() -> std::io::Result<Worker> {
        let exe = crate::engine::own_exe();
        let mut child = Command::new(exe)
            .arg("worker")
            .stdin(Stdio::piped())
            .stdout(Stdio::piped())
            .stderr(Stdio::piped())
            .spawn()?;
        let stdin = child.stdin.take().unwrap();
        let stdout = child.stdout.take().unwrap();
        let stderr = child.stderr.take().unwrap();
        // non-blocking stderr so that reading it after death never hangs
        unsafe {
            use std::os::fd::AsRawFd;
            let fd = stderr.as_raw_fd();
            let flags = libc::fcntl(fd, libc::F_GETFL);
            libc::fcntl(fd, libc::F_SETFL, flags | libc::O_NONBLOCK);
            let fd = stdout.as_raw_fd();
            let flags = libc::fcntl(fd, libc::F_GETFL);
            libc::fcntl(fd, libc::F_SETFL, flags | libc::O_NONBLOCK);
        }
        Ok(Worker {
            child,
            stdin,
            stdout,
            stderr,
            restarts: 0,
        })
    }

    fn restart(&mut self) {
        let _ = self.child.kill();
        let _ = self.child.wait();
        if let Ok(mut w) = Worker::spawn() {
            w.restarts = self.restarts + 1;
            *self = w;
        }
    }

    fn read_exact_deadline(&mut self, buf: &mut [u8], deadline: Instant) -> Result<(), &'static str> {
        use std::os::fd::AsRawFd;
        let fd = self.stdout.as_raw_fd();
        let mut got = 0;
        while got < buf.len() {
            let now = Instant::now();
            if now >= deadline {
                return Err("timeout");
            }
            let ms = (deadline - now).as_millis().min(1000) as i32;
            let mut pfd = libc::pollfd {
                fd,
                events: libc::POLLIN,
                revents: 0,
            };
            let r = unsafe { libc::poll(&mut pfd, 1, ms) };
            if r == 0 {
                continue;
            }
            match self.stdout.read(&mut buf[got..]) {
                Ok(0) => return Err("eof"),
                Ok(n) => got += n,
                Err(e) if e.kind() == std::io::ErrorKind::WouldBlock => continue,
                Err(e) if e.kind() == std::io::ErrorKind::Interrupted => continue,
                Err(_) => return Err("eof"),
            }
        }
        Ok(())
    }

    fn drain_stderr(&mut self) -> String {
        let mut out = Vec::new();
        let mut buf = [0u8; 4096];
        for _ in 0..64 {
            match self.stderr.read(&mut buf) {
                Ok(0) => break,
                Ok(n) => out.extend_from_slice(&buf[..n]),
                Err(_) => break,
            }
        }
        String::from_utf8_lossy(&out).to_string()
    }

    /// Decode `bytes` in the worker; a dead worker is restarted.
    pub fn decode(&mut self, kind: Kind, bytes: &[u8], timeout: Duration) -> Outcome {
        let mut head = Vec::with_capacity(5 + bytes.len());
        head.push(kind.code());
        head.extend_from_slice(&(bytes.len() as u32).to_le_bytes());
        head.extend_from_slice(bytes);
        let deadline = Instant::now() + timeout;
        let sent = self.stdin.write_all(&head).and_then(|_| self.stdin.flush());
        let mut resp = [0u8; 9];
        let res = match sent {
            Ok(()) => self.read_exact_deadline(&mut resp, deadline),
            Err(_) => Err("eof"),
        };
        match res {
            Ok(()) => {
                let code = resp[0];
                let la = u32::from_le_bytes(resp[1..5].try_into().unwrap()) as usize;
                let lb = u32::from_le_bytes(resp[5..9].try_into().unwrap()) as usize;
                let mut body = vec![0u8; la + lb];
                if self.read_exact_deadline(&mut body, deadline).is_err() {
                    self.restart();
                    return Outcome::Died("worker died while answering".into());
                }
                let a = String::from_utf8_lossy(&body[..la]).to_string();
                let b = String::from_utf8_lossy(&body[la..]).to_string();
                // discard anything the library logged
                let _ = self.drain_stderr();
                match code {
                    0 => Outcome::Ok(a),
                    1 => Outcome::Err(a),
                    2 => Outcome::Panic(a, b),
                    _ => Outcome::Died(a),
                }
            }
            Err("timeout") => {
                self.restart();
                Outcome::Timeout
            }
            Err(_) => {
                // the worker died: find out how
                let status = self.child.wait().ok();
                let err = self.drain_stderr();
                let outcome = if let Some(line) = err.lines().find(|l| l.starts_with("OVERSIZE ")) {
                    let mut size = 0u64;
                    let mut site = String::new();
                    for part in line.split_whitespace() {
                        if let Some(v) = part.strip_prefix("size=") {
                            size = v.parse().unwrap_or(0);
                        }
                        if let Some(v) = part.strip_prefix("site=") {
                            site = v.to_string();
                        }
                    }
                    Outcome::Oversize { size, site }
                } else if err.contains("has overflowed its stack") {
                    Outcome::Died("stack overflow".into())
                } else if let Some(l) = err.lines().find(|l| l.contains("memory allocation of")) {
                    Outcome::Died(format!("abort: {}", crate::engine::normalise_msg(l.trim())))
                } else {
                    use std::os::unix::process::ExitStatusExt;
                    let sig = status.and_then(|s| s.signal());
                    Outcome::Died(format!(
                        "worker died (signal {:?}, status {:?}); stderr tail: {}",
                        sig,
                        status.and_then(|s| s.code()),
                        err.lines().last().unwrap_or("")
                    ))
                };
                self.restart();
                outcome
            }
        }
    }
}

impl Drop for Worker {
    fn drop(&mut self) {
        let _ = self.child.kill();
        let _ = self.child.wait();
    }
}

thread_local! {
    static WORKER: std::cell::RefCell<Option<Worker>> = const { std::cell::RefCell::new(None) };
}

/// Decode through this thread's worker (spawned on first use).
pub fn sandboxed_decode(kind: Kind, bytes: &[u8]) -> Outcome {
    WORKER.with(|w| {
        let mut w = w.borrow_mut();
        if w.is_none() {
            *w = Worker::spawn().ok();
        }
        match w.as_mut() {
            Some(worker) => worker.decode(kind, bytes, Duration::from_secs(20)),
            None => Outcome::Died("cannot spawn worker".into()),
        }
    })
}

/// Drop this thread's worker.
pub fn shutdown_worker() {
    WORKER.with(|w| {
        *w.borrow_mut() = None;
    });
}
