//! Common engine: sharded proptest runner (proptest used as a library), case
//! classification and counting, known-finding matching, replay files and
//! evidence output.

use std::{
    cell::RefCell,
    collections::{BTreeMap, HashSet},
    hash::{Hash, Hasher},
    panic,
    path::{Path, PathBuf},
    sync::{
        atomic::{AtomicBool, AtomicU64, Ordering},
        Mutex,
    },
    time::Instant,
};

use proptest::{
    strategy::Strategy,
    test_runner::{Config, RngSeed, TestCaseError, TestError, TestRunner},
};
use serde::{de::DeserializeOwned, Deserialize, Serialize};
use serde_json::{json, Value};

pub const VERIF_ROOT: &str = "/verif";

// ---------------------------------------------------------------------------
// Tier / run configuration

#[derive(Clone, Copy, Debug, PartialEq, Eq)]
pub enum Tier {
    Quick,
    Thorough,
}

impl Tier {
    pub fn name(self) -> &'static str {
        match self {
            Tier::Quick => "quick",
            Tier::Thorough => "thorough",
        }
    }
    /// Pick a size by tier.
    pub fn pick<T>(self, quick: T, thorough: T) -> T {
        match self {
            Tier::Quick => quick,
            Tier::Thorough => thorough,
        }
    }
}

#[derive(Clone, Debug)]
pub struct RunCfg {
    pub property: &'static str,
    pub tier: Tier,
    pub seed: u64,
    pub threads: usize,
    /// When set, the case file to replay (plain regression run, no proptest).
    pub replay: Option<PathBuf>,
    /// Strict mode: known findings are reported as violations too (used by
    /// replay of a saved known-finding input and by sensitivity runs).
    pub strict: bool,
    /// Scale factor on case counts (VERIF_SCALE env; default 1.0).
    pub scale: f64,
}

impl RunCfg {
    pub fn cases(&self, quick: u64, thorough: u64) -> u64 {
        let base = self.tier.pick(quick, thorough) as f64 * self.scale;
        (base as u64).max(1)
    }
}

// ---------------------------------------------------------------------------
// Known findings

#[derive(Clone, Debug, Deserialize, Serialize)]
pub struct Finding {
    pub property: String,
    pub key: String,
    pub what: String,
    /// "open" or "fixed"
    pub status: String,
    #[serde(default)]
    pub commit: Option<String>,
}

#[derive(Clone, Debug, Default)]
pub struct Findings {
    pub all: Vec<Finding>,
}

impl Findings {
    pub fn load() -> Findings {
        let path = Path::new(VERIF_ROOT).join("known_findings.json");
        match std::fs::read_to_string(&path) {
            Ok(text) => {
                #[derive(Deserialize)]
                struct File {
                    findings: Vec<Finding>,
                }
                let file: File = serde_json::from_str(&text)
                    .unwrap_or_else(|e| panic!("known_findings.json does not parse: {e}"));
                Findings { all: file.findings }
            }
            Err(_) => Findings::default(),
        }
    }

    /// Is `key` an *open* finding of `property`?
    pub fn open(&self, property: &str, key: &str) -> Option<&Finding> {
        self.all
            .iter()
            .find(|f| f.status == "open" && f.property == property && f.key == key)
    }
}

// ---------------------------------------------------------------------------
// Failure description returned by property bodies

#[derive(Clone, Debug)]
pub struct Fail {
    /// Line-number independent signature of what failed; matched against
    /// known_findings.json.
    pub key: String,
    pub msg: String,
}

impl Fail {
    pub fn new(key: impl Into<String>, msg: impl Into<String>) -> Fail {
        let mut msg: String = msg.into();
        if msg.len() > 6000 {
            let mut cut = 6000;
            while !msg.is_char_boundary(cut) {
                cut -= 1;
            }
            msg.truncate(cut);
            msg.push_str(" …[truncated]");
        }
        Fail { key: key.into(), msg }
    }
}

pub type PropResult = Result<(), Fail>;

/// Path to re-execute this harness. `/proc/self/exe` keeps working when the binary on disk is
/// replaced by a rebuild while a long run is in progress (`current_exe()` then names a deleted file).
pub fn own_exe() -> std::path::PathBuf {
    let p = std::path::PathBuf::from("/proc/self/exe");
    if p.exists() {
        p
    } else {
        std::env::current_exe().unwrap_or(p)
    }
}

#[macro_export]
macro_rules! fail {
    ($key:expr, $($arg:tt)*) => {
        return Err($crate::engine::Fail::new($key, format!($($arg)*)))
    };
}

#[macro_export]
macro_rules! ensure {
    ($cond:expr, $key:expr, $($arg:tt)*) => {
        if !($cond) {
            return Err($crate::engine::Fail::new($key, format!($($arg)*)));
        }
    };
}

// ---------------------------------------------------------------------------
// Per-case context: labels / non-triviality / exclusions

#[derive(Default)]
pub struct CaseCtx {
    labels: Vec<&'static str>,
    nontrivial: bool,
    excluded: Vec<&'static str>,
    extra_evals: u64,
}

impl CaseCtx {
    pub fn label(&mut self, l: &'static str) {
        if !self.labels.contains(&l) {
            self.labels.push(l);
        }
    }
    pub fn label_if(&mut self, cond: bool, l: &'static str) {
        if cond {
            self.label(l);
        }
    }
    pub fn nontrivial(&mut self) {
        self.nontrivial = true;
    }
    pub fn nontrivial_if(&mut self, c: bool) {
        if c {
            self.nontrivial = true;
        }
    }
    /// Something the generator produced was skipped because it is a confirmed
    /// finding or outside the stated domain; counted in evidence.
    pub fn excluded(&mut self, what: &'static str) {
        self.excluded.push(what);
    }
    /// Additional executions performed inside this case (e.g. all cut points
    /// of one file).
    pub fn add_evals(&mut self, n: u64) {
        self.extra_evals += n;
    }
}

// ---------------------------------------------------------------------------
// Sub-check report

#[derive(Clone, Debug, Default)]
pub struct Failure {
    pub key: String,
    pub msg: String,
    pub replay: Option<PathBuf>,
}

#[derive(Clone, Debug, Default)]
pub struct SubReport {
    pub name: String,
    pub evaluations: u64,
    pub distinct_nontrivial: u64,
    pub labels: BTreeMap<String, u64>,
    pub excluded: BTreeMap<String, u64>,
    pub samples: Vec<Value>,
    pub exhaustive: bool,
    pub failures: Vec<Failure>,
    pub known_hits: BTreeMap<String, u64>,
    pub inconclusive: Vec<String>,
    pub notes: Vec<String>,
    pub wall_s: f64,
}

impl SubReport {
    pub fn new(name: &str) -> SubReport {
        SubReport {
            name: name.to_string(),
            ..Default::default()
        }
    }

    /// Enforce a floor on a label count: a generator that stopped producing
    /// an important class must not lead to a silent pass.
    pub fn floor(&mut self, label: &str, min: u64) {
        if !self.failures.is_empty() {
            return;
        }
        let got = self.labels.get(label).copied().unwrap_or(0);
        if got < min {
            self.inconclusive.push(format!(
                "sub-check {}: label '{}' seen {} times, floor is {}",
                self.name, label, got, min
            ));
        }
    }
}

// ---------------------------------------------------------------------------
// Panic capture (quiet hook + thread-local record)

#[derive(Clone, Debug, Default)]
pub struct PanicInfo {
    pub msg: String,
    pub location: String,
    pub frames: Vec<String>,
}

thread_local! {
    static LAST_PANIC: RefCell<Option<PanicInfo>> = const { RefCell::new(None) };
}

static HOOK_VERBOSE: AtomicBool = AtomicBool::new(false);

pub fn install_panic_hook() {
    panic::set_hook(Box::new(|info| {
        let msg = if let Some(s) = info.payload().downcast_ref::<&str>() {
            s.to_string()
        } else if let Some(s) = info.payload().downcast_ref::<String>() {
            s.clone()
        } else {
            "<non-string panic>".to_string()
        };
        let location = info
            .location()
            .map(|l| format!("{}:{}", l.file(), l.line()))
            .unwrap_or_default();
        let bt = std::backtrace::Backtrace::force_capture().to_string();
        let mut frames = Vec::new();
        let mut last_name = String::new();
        for line in bt.lines() {
            let line = line.trim();
            if let Some(loc) = line.strip_prefix("at ") {
                // "at /repo/rbx_binary/src/chunk.rs:39:17"
                if let Some(rest) = loc.strip_prefix("/repo/") {
                    let file = rest.split(':').next().unwrap_or(rest);
                    let mut name = strip_hash(&last_name);
                    if let Some(i) = name.find('<') {
                        if i > 0 {
                            name.truncate(i);
                        }
                    }
                    let name = name.rsplit("::").next().unwrap_or("").to_string();
                    frames.push(format!("{file}::{name}"));
                }
            } else if let Some((_, name)) = line.split_once(": ") {
                last_name = name.to_string();
            }
        }
        if HOOK_VERBOSE.load(Ordering::Relaxed) {
            eprintln!("panic: {msg} at {location}");
        }
        LAST_PANIC.with(|p| {
            *p.borrow_mut() = Some(PanicInfo {
                msg,
                location,
                frames,
            })
        });
    }));
}

pub fn set_panic_verbose(v: bool) {
    HOOK_VERBOSE.store(v, Ordering::Relaxed);
}

fn strip_hash(name: &str) -> String {
    // drop trailing ::h0123456789abcdef
    if let Some(idx) = name.rfind("::h") {
        let tail = &name[idx + 3..];
        if tail.len() == 16 && tail.chars().all(|c| c.is_ascii_hexdigit()) {
            return name[..idx].to_string();
        }
    }
    name.to_string()
}

pub fn take_last_panic() -> Option<PanicInfo> {
    LAST_PANIC.with(|p| p.borrow_mut().take())
}

/// Normalise a panic message into a line-number independent signature.
pub fn normalise_msg(msg: &str) -> String {
    let mut out = String::new();
    let mut in_digits = false;
    for c in msg.chars().take(160) {
        if c.is_ascii_digit() {
            if !in_digits {
                out.push('N');
                in_digits = true;
            }
        } else {
            in_digits = false;
            out.push(if c == '\n' { ' ' } else { c });
        }
    }
    out
}

/// Signature of a panic: innermost rbx_* frame + normalised message.
pub fn panic_key(info: &PanicInfo) -> String {
    let site = info
        .frames
        .first()
        .cloned()
        .unwrap_or_else(|| file_of(&info.location));
    format!("panic@{} :: {}", site, normalise_msg(&info.msg))
}

fn file_of(location: &str) -> String {
    let file = location.rsplit_once(':').map(|x| x.0).unwrap_or(location);
    let file = file.strip_prefix("/repo/").unwrap_or(file);
    file.to_string()
}

/// Run `f`, converting a panic into `Err(PanicInfo)`.
pub fn catch<T>(f: impl FnOnce() -> T) -> Result<T, PanicInfo> {
    take_last_panic();
    match panic::catch_unwind(panic::AssertUnwindSafe(f)) {
        Ok(v) => Ok(v),
        Err(_) => Err(take_last_panic().unwrap_or_default()),
    }
}

/// A deliberate panic of the harness itself (used to unwind a thread on purpose). The panic hook
/// stays quiet about it.
pub fn quiet_panic(msg: &'static str) -> ! {
    std::panic::resume_unwind(Box::new(msg))
}

/// Run `f`; a panic inside it becomes a property failure keyed by site.
pub fn no_panic<T>(what: &str, f: impl FnOnce() -> T) -> Result<T, Fail> {
    match catch(f) {
        Ok(v) => Ok(v),
        Err(info) => Err(Fail::new(
            panic_key(&info),
            format!("{what} panicked: {} at {}", info.msg, info.location),
        )),
    }
}

// ---------------------------------------------------------------------------
// The sharded proptest driver

fn hash_json<T: Serialize>(v: &T) -> u64 {
    let bytes = serde_json::to_vec(v).unwrap_or_default();
    let mut h = std::collections::hash_map::DefaultHasher::new();
    bytes.hash(&mut h);
    h.finish()
}

pub fn short_hash(bytes: &[u8]) -> String {
    let mut h = std::collections::hash_map::DefaultHasher::new();
    bytes.hash(&mut h);
    format!("{:016x}", h.finish())
}

fn truncate_sample(v: Value) -> Value {
    let s = serde_json::to_string(&v).unwrap_or_default();
    if s.len() > 4000 {
        json!({ "truncated_json": format!("{}…", &s.chars().take(4000).collect::<String>()) })
    } else {
        v
    }
}

#[derive(Serialize, Deserialize)]
struct ReplayFile<T> {
    property: String,
    subcheck: String,
    case: T,
    #[serde(default)]
    message: String,
    #[serde(default)]
    key: String,
}

pub fn write_replay<T: Serialize>(
    property: &str,
    subcheck: &str,
    case: &T,
    key: &str,
    msg: &str,
) -> PathBuf {
    let dir = Path::new(VERIF_ROOT).join("replays").join(property);
    let _ = std::fs::create_dir_all(&dir);
    let file = ReplayFile {
        property: property.to_string(),
        subcheck: subcheck.to_string(),
        case,
        message: msg.chars().take(2000).collect(),
        key: key.to_string(),
    };
    let text = serde_json::to_string_pretty(&file).unwrap();
    let path = dir.join(format!("{}-{}.json", subcheck, short_hash(text.as_bytes())));
    let _ = std::fs::write(&path, text);
    path
}

/// Saved regression inputs for a sub-check: /verif/regress/<property>/<subcheck>-*.json
pub fn regress_files(property: &str, subcheck: &str) -> Vec<PathBuf> {
    let dir = Path::new(VERIF_ROOT).join("regress").join(property);
    let mut out = Vec::new();
    if let Ok(rd) = std::fs::read_dir(&dir) {
        for e in rd.flatten() {
            let p = e.path();
            let name = p.file_name().and_then(|n| n.to_str()).unwrap_or("");
            if name.starts_with(&format!("{subcheck}-")) && name.ends_with(".json") {
                out.push(p);
            }
        }
    }
    out.sort();
    out
}

/// Read the `subcheck` name out of a replay file.
pub fn replay_subcheck(path: &Path) -> Option<String> {
    let text = std::fs::read_to_string(path).ok()?;
    let v: Value = serde_json::from_str(&text).ok()?;
    v.get("subcheck")?.as_str().map(|s| s.to_string())
}

pub fn load_replay_case<T: DeserializeOwned>(path: &Path) -> Result<T, String> {
    let text = std::fs::read_to_string(path).map_err(|e| e.to_string())?;
    let v: Value = serde_json::from_str(&text).map_err(|e| e.to_string())?;
    let case = v.get("case").ok_or("replay file has no 'case'")?.clone();
    serde_json::from_value(case).map_err(|e| format!("case does not deserialize: {e}"))
}

pub struct Ctx<'a> {
    pub cfg: &'a RunCfg,
    pub findings: &'a Findings,
}

impl<'a> Ctx<'a> {
    /// Classify a failure: Ok(what) if it is an open known finding (and we
    /// are not in strict mode), Err(fail) otherwise.
    pub fn classify(&self, fail: Fail) -> Result<String, Fail> {
        // survey mode (development aid, never used by registered commands): count
        // every failure by key and keep going
        if std::env::var_os("VERIF_SURVEY").is_some() {
            return Ok(format!("SURVEY {}", fail.key));
        }
        if !self.cfg.strict {
            if let Some(f) = self.findings.open(self.cfg.property, &fail.key) {
                return Ok(f.key.clone());
            }
        }
        Err(fail)
    }

    /// Drive `body` over `cases` generated cases of `strategy`, sharded over
    /// threads. Shrinks the first failure and writes a replay file.
    pub fn run_prop<S, F>(&self, name: &str, cases: u64, make: impl Fn() -> S + Sync, body: F) -> SubReport
    where
        S: Strategy,
        S::Value: Serialize + DeserializeOwned + std::fmt::Debug + Clone + Send,
        F: Fn(&S::Value, &mut CaseCtx) -> PropResult + Sync,
    {
        let start = Instant::now();
        let mut report = SubReport::new(name);

        // Replay mode: run exactly the saved case through the same body.
        if let Some(path) = &self.cfg.replay {
            match load_replay_case::<S::Value>(path) {
                Ok(case) => {
                    let mut cctx = CaseCtx::default();
                    let res = match catch(|| body(&case, &mut cctx)) {
                        Ok(r) => r,
                        Err(info) => Err(Fail::new(
                            panic_key(&info),
                            format!("panic: {} at {}", info.msg, info.location),
                        )),
                    };
                    report.evaluations = 1;
                    report.distinct_nontrivial = cctx.nontrivial as u64;
                    report.samples.push(truncate_sample(
                        serde_json::to_value(&case).unwrap_or(Value::Null),
                    ));
                    if let Err(fail) = res {
                        match self.classify(fail) {
                            Ok(key) => {
                                *report.known_hits.entry(key).or_default() += 1;
                            }
                            Err(fail) => report.failures.push(Failure {
                                key: fail.key,
                                msg: fail.msg,
                                replay: Some(path.clone()),
                            }),
                        }
                    }
                }
                Err(e) => report.inconclusive.push(format!("cannot load replay: {e}")),
            }
            report.wall_s = start.elapsed().as_secs_f64();
            return report;
        }

        // Seconds-long regression tier: saved (shrunk) failing inputs of
        // earlier findings are re-run through the same body, bypassing proptest.
        let mut regress_evals = 0u64;
        for path in regress_files(self.cfg.property, name) {
            match load_replay_case::<S::Value>(&path) {
                Ok(case) => {
                    let mut cctx = CaseCtx::default();
                    let res = match catch(|| body(&case, &mut cctx)) {
                        Ok(r) => r,
                        Err(info) => Err(Fail::new(
                            panic_key(&info),
                            format!("panic: {} at {}", info.msg, info.location),
                        )),
                    };
                    regress_evals += 1 + cctx.extra_evals;
                    if let Err(fail) = res {
                        match self.classify(fail) {
                            Ok(key) => {
                                *report.known_hits.entry(key).or_default() += 1;
                            }
                            Err(fail) => report.failures.push(Failure {
                                key: fail.key,
                                msg: format!("(regression input) {}", fail.msg),
                                replay: Some(path.clone()),
                            }),
                        }
                    }
                }
                Err(e) => report
                    .notes
                    .push(format!("regression file {} not loadable: {e}", path.display())),
            }
        }
        report
            .notes
            .push(format!("{regress_evals} regression evaluations from /verif/regress"));
        if !report.failures.is_empty() {
            report.evaluations = regress_evals;
            report.wall_s = start.elapsed().as_secs_f64();
            return report;
        }

        let shards = self.cfg.threads.max(1).min(cases.max(1) as usize);
        let stop = AtomicBool::new(false);
        let evals = AtomicU64::new(0);
        let merged: Mutex<(
            HashSet<u64>,
            BTreeMap<String, u64>,
            BTreeMap<String, u64>,
            BTreeMap<String, u64>,
            Vec<Value>,
            Vec<Failure>,
        )> = Mutex::new(Default::default());

        std::thread::scope(|scope| {
            for shard in 0..shards {
                let stop = &stop;
                let evals = &evals;
                let merged = &merged;
                let make = &make;
                let body = &body;
                let per = cases / shards as u64 + u64::from((shard as u64) < cases % shards as u64);
                let name = name.to_string();
                std::thread::Builder::new()
                    .stack_size(256 << 20)
                    .spawn_scoped(scope, move || {
                        let seed = self
                            .cfg
                            .seed
                            .wrapping_mul(0x9E37_79B9_7F4A_7C15)
                            .wrapping_add(shard as u64 * 0x1000_0000_01B3)
                            ^ fxhash(name.as_bytes());
                        let config = Config {
                            cases: per as u32,
                            failure_persistence: None,
                            rng_seed: RngSeed::Fixed(seed),
                            max_shrink_iters: 4000,
                            max_shrink_time: 120_000,
                            max_global_rejects: 1_000_000,
                            ..Config::default()
                        };
                        let mut runner = TestRunner::new(config);
                        let strategy = make();

                        struct Shard {
                            distinct: HashSet<u64>,
                            labels: BTreeMap<String, u64>,
                            excluded: BTreeMap<String, u64>,
                            known: BTreeMap<String, u64>,
                            samples: Vec<Value>,
                            failed: bool,
                            last_fail: Option<Fail>,
                        }
                        let st = RefCell::new(Shard {
                            distinct: HashSet::new(),
                            labels: BTreeMap::new(),
                            excluded: BTreeMap::new(),
                            known: BTreeMap::new(),
                            samples: Vec::new(),
                            failed: false,
                            last_fail: None,
                        });

                        let result = runner.run(&strategy, |case| {
                            let failed = st.borrow().failed;
                            if !failed && stop.load(Ordering::Relaxed) {
                                return Ok(());
                            }
                            let mut cctx = CaseCtx::default();
                            let res = match catch(|| body(&case, &mut cctx)) {
                                Ok(r) => r,
                                Err(info) => Err(Fail::new(
                                    panic_key(&info),
                                    format!("panic: {} at {}", info.msg, info.location),
                                )),
                            };
                            let mut st = st.borrow_mut();
                            let res = match res {
                                Ok(()) => Ok(()),
                                Err(fail) => match self.classify(fail) {
                                    Ok(key) => {
                                        if !failed {
                                            if key.starts_with("SURVEY ") && !st.known.contains_key(&key) {
                                                // survey mode: keep one (unshrunk) input per key
                                                let k = key.trim_start_matches("SURVEY ");
                                                write_replay(self.cfg.property, &format!("survey-{name}"), &case, k, "");
                                            }
                                            *st.known.entry(key).or_default() += 1;
                                        }
                                        Ok(())
                                    }
                                    Err(fail) => Err(fail),
                                },
                            };
                            if !failed {
                                evals.fetch_add(1 + cctx.extra_evals, Ordering::Relaxed);
                                for l in &cctx.labels {
                                    *st.labels.entry(l.to_string()).or_default() += 1;
                                }
                                for l in &cctx.excluded {
                                    *st.excluded.entry(l.to_string()).or_default() += 1;
                                }
                                if cctx.nontrivial {
                                    let fresh = st.distinct.insert(hash_json(&case));
                                    if fresh && shard == 0 && st.samples.len() < 3 {
                                        st.samples.push(truncate_sample(
                                            serde_json::to_value(&case).unwrap_or(Value::Null),
                                        ));
                                    }
                                }
                            }
                            match res {
                                Ok(()) => Ok(()),
                                Err(fail) => {
                                    st.failed = true;
                                    stop.store(true, Ordering::Relaxed);
                                    let msg = fail.msg.clone();
                                    st.last_fail = Some(fail);
                                    Err(TestCaseError::fail(msg))
                                }
                            }
                        });
                        let Shard {
                            distinct,
                            labels,
                            excluded,
                            known,
                            samples,
                            last_fail,
                            ..
                        } = st.into_inner();

                        let mut failure = None;
                        match result {
                            Ok(()) => {}
                            Err(TestError::Fail(_reason, minimal)) => {
                                // Re-run the minimal case to obtain its own key/message.
                                let mut cctx = CaseCtx::default();
                                let res = match catch(|| body(&minimal, &mut cctx)) {
                                    Ok(r) => r,
                                    Err(info) => Err(Fail::new(
                                        panic_key(&info),
                                        format!("panic: {} at {}", info.msg, info.location),
                                    )),
                                };
                                let fail = match res {
                                    Err(f) => f,
                                    Ok(()) => last_fail.clone().unwrap_or(Fail::new(
                                        "nondeterministic",
                                        "minimal case passed on re-run",
                                    )),
                                };
                                let path = write_replay(
                                    self.cfg.property,
                                    &name,
                                    &minimal,
                                    &fail.key,
                                    &fail.msg,
                                );
                                failure = Some(Failure {
                                    key: fail.key,
                                    msg: fail.msg,
                                    replay: Some(path),
                                });
                            }
                            Err(TestError::Abort(reason)) => {
                                failure = Some(Failure {
                                    key: "proptest-abort".into(),
                                    msg: format!("proptest aborted: {reason}"),
                                    replay: None,
                                });
                            }
                        }

                        let mut m = merged.lock().unwrap();
                        m.0.extend(distinct);
                        for (k, v) in labels {
                            *m.1.entry(k).or_default() += v;
                        }
                        for (k, v) in excluded {
                            *m.2.entry(k).or_default() += v;
                        }
                        for (k, v) in known {
                            *m.3.entry(k).or_default() += v;
                        }
                        m.4.extend(samples);
                        if let Some(f) = failure {
                            m.5.push(f);
                        }
                    })
                    .expect("spawn shard");
            }
        });

        let m = merged.into_inner().unwrap();
        report.evaluations = evals.load(Ordering::Relaxed) + regress_evals;
        report.distinct_nontrivial = m.0.len() as u64;
        report.labels = m.1;
        report.excluded = m.2;
        for (k, v) in m.3 {
            *report.known_hits.entry(k).or_default() += v;
        }
        report.samples = m.4;
        for f in m.5 {
            if f.key == "proptest-abort" {
                report.inconclusive.push(f.msg);
            } else {
                report.failures.push(f);
            }
        }
        report.wall_s = start.elapsed().as_secs_f64();
        report
    }

    /// Run `body` over an explicit list of cases (bounded-exhaustive
    /// enumeration or fixed probes), in parallel. No shrinking: every failing
    /// case is already minimal by construction; the first few are saved.
    pub fn run_list<T, F>(&self, name: &str, cases: Vec<T>, exhaustive: bool, body: F) -> SubReport
    where
        T: Serialize + DeserializeOwned + Sync + Send + Clone,
        F: Fn(&T, &mut CaseCtx) -> PropResult + Sync,
    {
        let start = Instant::now();
        let mut report = SubReport::new(name);
        report.exhaustive = exhaustive;

        if let Some(path) = &self.cfg.replay {
            match load_replay_case::<T>(path) {
                Ok(case) => {
                    let mut cctx = CaseCtx::default();
                    let res = match catch(|| body(&case, &mut cctx)) {
                        Ok(r) => r,
                        Err(info) => Err(Fail::new(
                            panic_key(&info),
                            format!("panic: {} at {}", info.msg, info.location),
                        )),
                    };
                    report.exhaustive = false;
                    report.evaluations = 1;
                    report.samples.push(truncate_sample(
                        serde_json::to_value(&case).unwrap_or(Value::Null),
                    ));
                    if let Err(fail) = res {
                        match self.classify(fail) {
                            Ok(key) => {
                                *report.known_hits.entry(key).or_default() += 1;
                            }
                            Err(fail) => report.failures.push(Failure {
                                key: fail.key,
                                msg: fail.msg,
                                replay: Some(path.clone()),
                            }),
                        }
                    }
                }
                Err(e) => report.inconclusive.push(format!("cannot load replay: {e}")),
            }
            report.wall_s = start.elapsed().as_secs_f64();
            return report;
        }

        let n = cases.len();
        let threads = self.cfg.threads.max(1).min(n.max(1));
        let next = AtomicU64::new(0);
        let evals = AtomicU64::new(0);
        type Merged = (
            HashSet<u64>,
            BTreeMap<String, u64>,
            BTreeMap<String, u64>,
            BTreeMap<String, u64>,
            Vec<(usize, Fail)>,
        );
        let merged: Mutex<Merged> = Mutex::new(Default::default());
        let cases_ref = &cases;
        std::thread::scope(|scope| {
            for _ in 0..threads {
                let next = &next;
                let evals = &evals;
                let merged = &merged;
                let body = &body;
                std::thread::Builder::new()
                    .stack_size(256 << 20)
                    .spawn_scoped(scope, move || {
                        let mut local: Merged = Default::default();
                        loop {
                            let i = next.fetch_add(1, Ordering::Relaxed) as usize;
                            if i >= n {
                                break;
                            }
                            let case = &cases_ref[i];
                            let mut cctx = CaseCtx::default();
                            let res = match catch(|| body(case, &mut cctx)) {
                                Ok(r) => r,
                                Err(info) => Err(Fail::new(
                                    panic_key(&info),
                                    format!("panic: {} at {}", info.msg, info.location),
                                )),
                            };
                            evals.fetch_add(1 + cctx.extra_evals, Ordering::Relaxed);
                            for l in &cctx.labels {
                                *local.1.entry(l.to_string()).or_default() += 1;
                            }
                            for l in &cctx.excluded {
                                *local.2.entry(l.to_string()).or_default() += 1;
                            }
                            if cctx.nontrivial {
                                local.0.insert(hash_json(case));
                            }
                            if let Err(fail) = res {
                                match self.classify(fail) {
                                    Ok(key) => *local.3.entry(key).or_default() += 1,
                                    Err(fail) => {
                                        // keep the earliest case of every distinct key
                                        if !local.4.iter().any(|(_, f)| f.key == fail.key) && local.4.len() < 64 {
                                            local.4.push((i, fail));
                                        }
                                    }
                                }
                            }
                        }
                        let mut m = merged.lock().unwrap();
                        m.0.extend(local.0);
                        for (k, v) in local.1 {
                            *m.1.entry(k).or_default() += v;
                        }
                        for (k, v) in local.2 {
                            *m.2.entry(k).or_default() += v;
                        }
                        for (k, v) in local.3 {
                            *m.3.entry(k).or_default() += v;
                        }
                        m.4.extend(local.4);
                    })
                    .expect("spawn worker");
            }
        });
        let mut m = merged.into_inner().unwrap();
        report.evaluations = evals.load(Ordering::Relaxed);
        report.distinct_nontrivial = m.0.len() as u64;
        report.labels = m.1;
        report.excluded = m.2;
        report.known_hits = m.3;
        m.4.sort_by_key(|x| x.0);
        // Distinct keys only, earliest (smallest index) case first.
        let mut seen = HashSet::new();
        for (i, fail) in m.4 {
            if seen.insert(fail.key.clone()) && report.failures.len() < 24 {
                let path = write_replay(self.cfg.property, name, &cases[i], &fail.key, &fail.msg);
                report.failures.push(Failure {
                    key: fail.key,
                    msg: fail.msg,
                    replay: Some(path),
                });
            }
        }
        for (idx, c) in cases.iter().enumerate() {
            if idx % (n / 3).max(1) == 0 && report.samples.len() < 3 {
                report
                    .samples
                    .push(truncate_sample(serde_json::to_value(c).unwrap_or(Value::Null)));
            }
        }
        report.wall_s = start.elapsed().as_secs_f64();
        report
    }
}

/// Which sub-checks to run: all of them, or (in replay mode) only the one the
/// replay file names.
pub struct SubSel(Option<String>);

impl SubSel {
    pub fn runs(&self, name: &str) -> bool {
        match &self.0 {
            None => true,
            Some(s) => s == name,
        }
    }
}

pub fn replay_subcheck_or_all(ctx: &Ctx) -> SubSel {
    match &ctx.cfg.replay {
        None => match std::env::var("VERIF_ONLY") {
            Ok(s) if !s.is_empty() => SubSel(Some(s)),
            _ => SubSel(None),
        },
        Some(path) => SubSel(Some(
            replay_subcheck(path).unwrap_or_else(|| "<unreadable replay file>".into()),
        )),
    }
}

pub fn fxhash(bytes: &[u8]) -> u64 {
    let mut h: u64 = 0xcbf29ce484222325;
    for b in bytes {
        h ^= *b as u64;
        h = h.wrapping_mul(0x100000001b3);
    }
    h
}

// ---------------------------------------------------------------------------
// Property-level report and evidence

pub struct PropertyReport {
    pub property: &'static str,
    pub level: &'static str,
    pub rule: String,
    pub assumptions: Vec<String>,
    pub subs: Vec<SubReport>,
    pub extra: BTreeMap<String, Value>,
}

impl PropertyReport {
    pub fn new(property: &'static str, level: &'static str, rule: &str) -> Self {
        PropertyReport {
            property,
            level,
            rule: rule.to_string(),
            assumptions: Vec::new(),
            subs: Vec::new(),
            extra: BTreeMap::new(),
        }
    }

    pub fn push(&mut self, sub: SubReport) {
        eprintln!(
            "  [{}] {}: {} evaluations, {} distinct non-trivial, {} failures, {:.1}s{}",
            self.property,
            sub.name,
            sub.evaluations,
            sub.distinct_nontrivial,
            sub.failures.len(),
            sub.wall_s,
            if sub.exhaustive { " (exhaustive)" } else { "" }
        );
        self.subs.push(sub);
    }

    pub fn assume(&mut self, s: &str) {
        self.assumptions.push(s.to_string());
    }

    /// Print verdict lines, write evidence, return the exit code.
    pub fn finish(self, cfg: &RunCfg, findings: &Findings, wall_s: f64) -> i32 {
        let mut violations = 0;
        let mut inconclusive = Vec::new();
        let mut known: BTreeMap<String, u64> = BTreeMap::new();
        let mut evaluations = 0u64;
        let mut distinct = 0u64;
        let mut samples = Vec::new();
        let mut labels: BTreeMap<String, Value> = BTreeMap::new();
        let mut subs_json = Vec::new();
        let mut any_exhaustive = false;
        let mut all_exhaustive = !self.subs.is_empty();

        for sub in &self.subs {
            evaluations += sub.evaluations;
            distinct += sub.distinct_nontrivial;
            any_exhaustive |= sub.exhaustive;
            all_exhaustive &= sub.exhaustive;
            for s in sub.samples.iter().take(2) {
                if samples.len() < 8 {
                    samples.push(json!({ "subcheck": sub.name, "case": s }));
                }
            }
            labels.insert(sub.name.clone(), json!(sub.labels));
            for (k, v) in &sub.known_hits {
                *known.entry(k.clone()).or_default() += v;
            }
            inconclusive.extend(sub.inconclusive.iter().cloned());
            let mut seen_keys: HashSet<String> = HashSet::new();
            for f in &sub.failures {
                // one report per root cause (key), however many shards met it
                if !seen_keys.insert(f.key.clone()) {
                    continue;
                }
                // a failure of the machinery itself (worker could not be started, reference encoder
                // refused its own plan, ...) says nothing about the property: inconclusive, exit 2
                if f.key.starts_with("harness") {
                    inconclusive.push(format!("sub-check {}: harness problem [{}]: {}", sub.name, f.key, f.msg.chars().take(300).collect::<String>()));
                    continue;
                }
                violations += 1;
                let replay = f
                    .replay
                    .as_ref()
                    .map(|p| p.display().to_string())
                    .unwrap_or_else(|| "-".into());
                println!("VIOLATION property={} replay={}", self.property, replay);
                println!("  subcheck={} key={}", sub.name, f.key);
                println!("  {}", f.msg.chars().take(1500).collect::<String>());
            }
            subs_json.push(json!({
                "name": sub.name,
                "evaluations": sub.evaluations,
                "distinct_nontrivial": sub.distinct_nontrivial,
                "exhaustive": sub.exhaustive,
                "labels": sub.labels,
                "excluded_by_construction": sub.excluded,
                "known_finding_hits": sub.known_hits,
                "failures": sub.failures.iter().map(|f| json!({"key": f.key, "msg": f.msg.chars().take(600).collect::<String>(), "replay": f.replay.as_ref().map(|p| p.display().to_string())})).collect::<Vec<_>>(),
                "notes": sub.notes,
                "wall_s": sub.wall_s,
            }));
        }

        for (key, n) in &known {
            if key.starts_with("SURVEY ") {
                println!("{key} [{n} hits]");
            }
            if let Some(f) = findings.open(self.property, key) {
                println!(
                    "KNOWN-FINDING: property={} {} [key={}; hit {} times]",
                    self.property, f.what, key, n
                );
            }
        }

        let mut coverage = serde_json::Map::new();
        coverage.insert("evaluations".into(), json!(evaluations));
        coverage.insert("distinct_nontrivial".into(), json!(distinct));
        coverage.insert("rule".into(), json!(self.rule));
        coverage.insert("samples".into(), json!(samples));
        coverage.insert("exhaustive".into(), json!(all_exhaustive));
        coverage.insert("some_subchecks_exhaustive".into(), json!(any_exhaustive));
        coverage.insert("subchecks".into(), json!(subs_json));
        coverage.insert("label_histograms".into(), json!(labels));
        coverage.insert("known_finding_hits".into(), json!(known));
        coverage.insert("inconclusive".into(), json!(inconclusive));
        for (k, v) in &self.extra {
            coverage.insert(k.clone(), v.clone());
        }

        let evidence = json!({
            "property_id": self.property,
            "tier": cfg.tier.name(),
            "seed": cfg.seed,
            "level": self.level,
            "coverage": Value::Object(coverage),
            "assumptions": self.assumptions,
            "wall_s": wall_s,
            "violations": violations,
        });

        if cfg.replay.is_none() {
            let dir = Path::new(VERIF_ROOT).join("evidence");
            let _ = std::fs::create_dir_all(&dir);
            let path = dir.join(format!("{}.json", self.property));
            if let Err(e) = std::fs::write(&path, serde_json::to_string_pretty(&evidence).unwrap()) {
                eprintln!("cannot write evidence {}: {e}", path.display());
                return 2;
            }
        }

        if violations > 0 {
            println!(
                "RESULT property={} tier={} seed={} violations={} evaluations={}",
                self.property,
                cfg.tier.name(),
                cfg.seed,
                violations,
                evaluations
            );
            return 1;
        }
        if !inconclusive.is_empty() {
            for i in &inconclusive {
                println!("INCONCLUSIVE property={} {}", self.property, i);
            }
            return 2;
        }
        println!(
            "OK property={} tier={} seed={} evaluations={} distinct_nontrivial={} wall_s={:.1}",
            self.property,
            cfg.tier.name(),
            cfg.seed,
            evaluations,
            distinct,
            wall_s
        );
        0
    }
}
