use crate::engine::{Ctx, PropertyReport};

pub mod c01;
pub mod c02;
pub mod c03;
pub mod c04;
pub mod c05;
pub mod c06;
pub mod c07;
pub mod c08;
pub mod c13;
pub mod c14;
pub mod c15;
pub mod c16;
pub mod c17;
pub mod c18;
pub mod dom;
pub mod rootless;

pub struct Entry {
    pub id: &'static str,
    pub run: fn(&Ctx) -> PropertyReport,
}

pub const ENTRIES: &[Entry] = &[
    Entry { id: "C01", run: c01::run },
    Entry { id: "C02", run: c02::run },
    Entry { id: "C03", run: c03::run },
    Entry { id: "C04", run: c04::run },
    Entry { id: "C05", run: c05::run },
    Entry { id: "C06", run: c06::run },
    Entry { id: "C07", run: c07::run },
    Entry { id: "C08", run: c08::run },
    Entry { id: "C09", run: dom::run_c09 },
    Entry { id: "C10", run: dom::run_c10 },
    Entry { id: "C11", run: dom::run_c11 },
    Entry { id: "C12", run: dom::run_c12 },
    Entry { id: "C13", run: c13::run },
    Entry { id: "C14", run: c14::run },
    Entry { id: "C15", run: c15::run },
    Entry { id: "C16", run: c16::run },
    Entry { id: "C17", run: c17::run },
    Entry { id: "C18", run: c18::run },
];

pub fn lookup(id: &str) -> Option<&'static Entry> {
    ENTRIES.iter().find(|e| e.id == id)
}

pub fn dbstats() {
    use crate::dbview;
    use std::collections::BTreeMap;
    let db = dbview::db();
    println!("classes {} enums {}", db.classes.len(), db.enums.len());
    let mut pairs: BTreeMap<String, usize> = BTreeMap::new();
    let mut kinds: BTreeMap<String, usize> = BTreeMap::new();
    let mut migr = Vec::new();
    let mut ndesc = 0;
    for class in dbview::all_class_names() {
        let c = &db.classes[class.as_str()];
        ndesc += c.properties.len();
        for (name, _) in &c.properties {
            match dbview::resolve(&class, name) {
                None => *kinds.entry("unresolvable".into()).or_default() += 1,
                Some(v) => {
                    let k = if v.migration.is_some() {
                        migr.push(format!("{class}.{name} -> {} ({:?})", v.migration.unwrap().new_property_name, v.canonical_ty));
                        "migrate"
                    } else if v.ser.is_none() {
                        "noser"
                    } else if v.is_alias {
                        "alias"
                    } else {
                        "plain"
                    };
                    *kinds.entry(k.into()).or_default() += 1;
                    if let Some(ser) = &v.ser {
                        let key = format!("{:?} -> {:?}", v.canonical_ty.variant_type(), ser.ty.variant_type());
                        *pairs.entry(key).or_default() += 1;
                        if v.canonical_ty.variant_type() != ser.ty.variant_type() || v.canonical != ser.name {
                            println!("  serializes-as: {class}.{name} canonical {} ({:?}) ser {} ({:?})", v.canonical, v.canonical_ty.variant_type(), ser.name, ser.ty.variant_type());
                        }
                    }
                }
            }
        }
    }
    println!("descriptors {ndesc}");
    for class in dbview::all_class_names() {
        for (ser, canon) in dbview::ser_conflicts(&class) {
            println!("  shared serialized name: {class}.{ser} <- {canon:?}");
        }
    }
    println!("kinds {kinds:?}");
    for (k, v) in pairs {
        println!("  {k}: {v}");
    }
    for m in migr {
        println!("  migrate: {m}");
    }
    let mut ndef = 0;
    let mut deftypes: BTreeMap<String, usize> = BTreeMap::new();
    for c in db.classes.values() {
        ndef += c.default_properties.len();
        for v in c.default_properties.values() {
            *deftypes.entry(format!("{:?}", v.ty())).or_default() += 1;
        }
    }
    println!("defaults {ndef} {deftypes:?}");
}
