//! C15 — legacy properties migrate identically on every path; explicit new value wins.

use std::collections::BTreeMap;

use rbx_types::VariantType;
use serde::{Deserialize, Serialize};

use crate::dbview::{self, Ty};
use crate::engine::{CaseCtx, Ctx, Fail, PropResult, PropertyReport};
use crate::gen::forest::{self, BuildMode, GForest, GNode};
use crate::gen::vals::{self, GContent, GVal};
use crate::oracle::{self, Format, Norm};
use crate::spec::refbin::{self, BinClass, Comp, Dialect, PlannedChunk};
use crate::spec::{binbuild, refxml};
use crate::{ensure, fail};

#[derive(Clone, Debug, Serialize, Deserialize)]
pub struct MigCase {
    pub class: String,
    pub legacy: String,
    pub value: GVal,
    /// explicit value of the new property, if the instance also carries it
    pub explicit: Option<GVal>,
    /// when both are present: is the legacy one encountered first
    pub legacy_first: bool,
}

type Props = BTreeMap<String, GVal>;

fn forest_of(c: &MigCase, new_name: &str) -> GForest {
    let mut props = vec![(c.legacy.clone(), c.value.clone())];
    if let Some(e) = &c.explicit {
        if c.legacy_first {
            props.push((new_name.to_string(), e.clone()));
        } else {
            props.insert(0, (new_name.to_string(), e.clone()));
        }
    }
    GForest {
        nodes: vec![GNode {
            parent: None,
            class: c.class.clone(),
            name: "m".into(),
            props,
        }],
        roots: vec![0],
    }
}

fn single_props(dom: &rbx_dom_weak::WeakDom) -> Result<Props, String> {
    let obs = forest::observe(dom);
    if obs.roots.len() != 1 {
        return Err(format!("{} roots decoded", obs.roots.len()));
    }
    Ok(obs.roots[0].props.clone())
}

/// P1: the DOM carries the legacy property; rbx_binary writes, then reads
fn path_write_binary(f: &GForest) -> Result<Props, String> {
    let built = forest::build(f, BuildMode::Builder, None);
    let roots = built.root_refs(f);
    let bytes = super::c01::write_binary(&built.dom, &roots, rbx_binary::CompressionType::None).map_err(|e| e.msg)?;
    let dom = super::c01::read_binary(&bytes).map_err(|e| e.msg)?;
    single_props(&dom)
}

/// P2: the DOM carries the legacy property; rbx_xml writes, then reads
fn path_write_xml(f: &GForest) -> Result<Props, String> {
    let built = forest::build(f, BuildMode::Builder, None);
    let roots = built.root_refs(f);
    let bytes = super::c02::write_xml(&built.dom, &roots, rbx_xml::EncodeOptions::default()).map_err(|e| e.msg)?;
    let dom = super::c02::read_xml(&bytes, rbx_xml::DecodeOptions::default()).map_err(|e| e.msg)?;
    single_props(&dom)
}

/// P3: a file that stores the legacy column (built from docs/binary.md), read by rbx_binary
fn path_read_binary(f: &GForest) -> Result<Props, String> {
    path_read_binary_with(f, 0)
}

/// `extra` > 0: the file also stores unrelated columns (names sorting before, between and after the
/// migrating ones), so the columns do not arrive in name order - the format fixes no order.
fn path_read_binary_with(f: &GForest, extra: u8) -> Result<Props, String> {
    let node = &f.nodes[0];
    let class = BinClass {
        id: 0,
        name: node.class.clone(),
        object_format: 0,
        referents: vec![0],
        markers: vec![],
    };
    let mut chunks = vec![PlannedChunk { name: *b"INST", data: refbin::inst_chunk(&class), comp: Comp::None }];
    chunks.push(PlannedChunk {
        name: *b"PROP",
        data: refbin::prop_chunk(0, "Name", &refbin::Column::String(vec![node.name.as_bytes().to_vec()]), Dialect::implementation()),
        comp: Comp::Lz4,
    });
    let extra_chunk = |name: &str, v: i32| -> Result<PlannedChunk, String> {
        let (mut a, mut b) = (0, 0);
        let col = binbuild::build_column(VariantType::Int32, &[GVal::Int32(v)], &|_| -1, &[], false, &mut a, &mut b)?;
        Ok(PlannedChunk { name: *b"PROP", data: refbin::prop_chunk(0, name, &col, Dialect::implementation()), comp: Comp::None })
    };
    match extra {
        1 => {
            chunks.push(extra_chunk("ZzExtraZeta", 1)?);
            chunks.push(extra_chunk("AaExtraAlpha", 2)?);
        }
        3 => {
            chunks.push(extra_chunk("MmExtraMu", 3)?);
            chunks.push(extra_chunk("zz_extra_lower", 4)?);
        }
        _ => {}
    }
    for (k, (pname, val)) in node.props.iter().enumerate() {
        let view = dbview::resolve(&node.class, pname).ok_or("unknown property")?;
        let ser = view.ser.as_ref().ok_or("does not serialize")?;
        let (mut a, mut b) = (0, 0);
        let col = binbuild::build_column(ser.ty.variant_type(), std::slice::from_ref(val), &|_| -1, &[], false, &mut a, &mut b)?;
        chunks.push(PlannedChunk {
            name: *b"PROP",
            data: refbin::prop_chunk(0, &ser.name, &col, Dialect::implementation()),
            comp: Comp::None,
        });
        if extra == 3 && k == 0 {
            chunks.push(extra_chunk("AaExtraAlpha", 5)?);
        }
    }
    if extra == 2 {
        chunks.push(extra_chunk("ZzExtraZeta", 6)?);
        chunks.push(extra_chunk("AaExtraAlpha", 7)?);
    }
    chunks.push(PlannedChunk { name: *b"PRNT", data: refbin::prnt_chunk(&[(0, -1)]), comp: Comp::None });
    chunks.push(refbin::end_chunk());
    let bytes = refbin::assemble(1, 1, &chunks);
    let dom = super::c01::read_binary(&bytes).map_err(|e| e.msg)?;
    let mut props = single_props(&dom)?;
    props.retain(|k, _| !k.contains("Extra") && !k.contains("_extra_"));
    Ok(props)
}

/// P4: a document that stores the legacy element (built from docs/xml.md), read by rbx_xml
fn path_read_xml(f: &GForest, legacy_content_element: bool) -> Result<Props, String> {
    let mut plan = refxml::DocPlan::plain();
    plan.contentid_as_content = legacy_content_element;
    let doc = refxml::document(f, &plan);
    let dom = super::c02::read_xml(doc.text.as_bytes(), rbx_xml::DecodeOptions::default()).map_err(|e| e.msg)?;
    single_props(&dom)
}

/// Independent expectation for the migrations that can be tabulated without the
/// library's own table.
fn tabulated(class: &str, view: &dbview::PropView, value: &GVal) -> Option<GVal> {
    let m = view.migration?;
    let target = dbview::resolve(class, &m.new_property_name)?;
    match (value, &target.canonical_ty) {
        // IgnoreGuiInset -> ScreenInsets: true = DeviceSafeInsets, false = CoreUISafeInsets
        (GVal::Bool(b), Ty::Enum(e)) if e == "ScreenInsets" => {
            let items = &dbview::db().enums.get("ScreenInsets")?.items;
            let item = if *b { "DeviceSafeInsets" } else { "CoreUISafeInsets" };
            Some(GVal::Enum(*items.get(item)?))
        }
        // BrickColor -> palette colour of that number
        (GVal::BrickColor(n), _) => {
            let c = rbx_types::BrickColor::from_number(*n)?.to_color3uint8();
            Some(GVal::Color3uint8([c.r, c.g, c.b]))
        }
        // ContentId -> Content
        (GVal::ContentId(u), Ty::Value(VariantType::Content)) => Some(GVal::Content(if u.is_empty() { GContent::None } else { GContent::Uri(u.clone()) })),
        _ => None,
    }
}

fn no_blob(_: &GVal) -> Option<Vec<u8>> {
    None
}

fn body(c: &MigCase, ctx: &mut CaseCtx) -> PropResult {
    let Some(view) = dbview::resolve(&c.class, &c.legacy) else { fail!("harness", "{}.{} does not resolve", c.class, c.legacy) };
    let Some(m) = view.migration else { fail!("harness", "{}.{} does not migrate", c.class, c.legacy) };
    let Some(target) = dbview::resolve(&c.class, &m.new_property_name) else {
        fail!("c15:target-unresolvable", "{}.{} migrates to {}, which does not resolve", c.class, c.legacy, m.new_property_name)
    };
    let new_name = target.roundtrip.clone();
    ctx.label(match c.explicit {
        None => "new_property_absent",
        Some(_) if c.legacy_first => "legacy_before_explicit",
        Some(_) => "explicit_before_legacy",
    });
    ctx.label(match &c.value {
        GVal::Enum(_) => "legacy:Font",
        GVal::BrickColor(_) => "legacy:BrickColor",
        GVal::Bool(_) => "legacy:IgnoreGuiInset",
        _ => "legacy:ContentId",
    });
    ctx.nontrivial();
    // what the new property must be
    let expected_bin: Props;
    let expected_xml: Props;
    match &c.explicit {
        Some(e) => {
            let f = GForest {
                nodes: vec![GNode { parent: None, class: c.class.clone(), name: "m".into(), props: vec![(new_name.clone(), e.clone())] }],
                roots: vec![0],
            };
            expected_bin = oracle::expect_roundtrip(&f, Format::Binary, &no_blob).dom.roots[0].props.clone();
            expected_xml = oracle::expect_roundtrip(&f, Format::Xml, &no_blob).dom.roots[0].props.clone();
        }
        None => {
            let migrated = oracle::migrate_value(&c.class, &view, &c.value);
            let Some((name, v)) = migrated else {
                // the database's own tables allow this value, its migration does not
                let tag = match &c.value {
                    GVal::Enum(x) => format!("Font={x}"),
                    other => format!("{:?}", other),
                };
                fail!(format!("c15:unmigratable:{tag}"), "{}.{} = {:?} is a value the database's own tables allow, but its migration rejects it", c.class, c.legacy, c.value);
            };
            if let Some(t) = tabulated(&c.class, &view, &c.value) {
                ensure!(t == v, "c15:migration-table", "{}.{} = {:?} migrates to {:?}, independently tabulated {:?}", c.class, c.legacy, c.value, v, t);
                ctx.label("tabulated_expectation");
            }
            let mut p = Props::new();
            p.insert(name, v);
            expected_bin = p.clone();
            expected_xml = p;
        }
    }
    let f = forest_of(c, &new_name);
    let legacy_content = matches!(c.value, GVal::ContentId(_));
    // a legacy value the migration rejects: whatever goes wrong on any path belongs to that finding
    let unmigratable_key = if oracle::migrate_value(&c.class, &view, &c.value).is_none() {
        Some(match &c.value {
            GVal::Enum(x) => format!("c15:unmigratable:Font={x}"),
            other => format!("c15:unmigratable:{other:?}"),
        })
    } else {
        None
    };
    let paths: Vec<(&str, Result<Props, String>, &Props)> = vec![
        ("write-binary", path_write_binary(&f), &expected_bin),
        ("write-xml", path_write_xml(&f), &expected_xml),
        ("read-binary", path_read_binary(&f), &expected_bin),
        ("read-binary-unsorted-columns-1", path_read_binary_with(&f, 1), &expected_bin),
        ("read-binary-unsorted-columns-2", path_read_binary_with(&f, 2), &expected_bin),
        ("read-binary-unsorted-columns-3", path_read_binary_with(&f, 3), &expected_bin),
        ("read-xml", path_read_xml(&f, false), &expected_xml),
        ("read-xml-legacy-element", if legacy_content { path_read_xml(&f, true) } else { path_read_xml(&f, false) }, &expected_xml),
    ];
    let situation = match c.explicit {
        None => "absent",
        Some(_) if c.legacy_first => "legacy-first",
        Some(_) => "explicit-first",
    };
    for (pname, got, want) in &paths {
        match got {
            Err(e) => fail!(
                unmigratable_key.clone().unwrap_or_else(|| format!("c15:path-fails:{pname}:{situation}")),
                "{}.{} = {:?} ({situation}) through {pname}: {e}",
                c.class,
                c.legacy,
                c.value
            ),
            Ok(props) => {
                ensure!(
                    !props.contains_key(&view.canonical) && !props.contains_key(&c.legacy),
                    format!("c15:legacy-name-survives:{pname}"),
                    "{pname}: decoded DOM still has the legacy property {}: {:?}",
                    c.legacy,
                    props
                );
                let ok = props.len() == want.len()
                    && want.iter().all(|(k, v)| props.get(k).map(|g| oracle::val_matches(v, g, &Norm { nan_class: true, ..Norm::binary() })).unwrap_or(false));
                if !ok {
                    let key = match (&unmigratable_key, &c.explicit) {
                        (Some(k), _) => k.clone(),
                        (None, Some(_)) => format!("c15:explicit-loses:{pname}:{situation}"),
                        (None, None) => format!("c15:migrated-value:{pname}"),
                    };
                    fail!(key, "{}.{} = {:?} ({situation}) through {pname}: decoded {:?}, expected {:?}", c.class, c.legacy, c.value, props, want);
                }
            }
        }
        ctx.add_evals(1);
    }
    Ok(())
}

// ---------------------------------------------------------------------------
// context independence: what surrounds the instance in the file must not change how it migrates

#[derive(Clone, Debug, Serialize, Deserialize)]
pub struct CtxCase {
    pub base: MigCase,
    /// 0 nested under a same-class parent that migrates too; 1 after another class that sets the new
    /// property explicitly; 2 two levels deep under a parent carrying both spellings; 3 between same-class
    /// siblings (legacy-only before, explicit-only after)
    pub context: u8,
    pub other_class: Option<String>,
}

fn other_value(v: &GVal) -> GVal {
    match v {
        GVal::Enum(x) => GVal::Enum(if *x == 4 { 3 } else { 4 }),
        GVal::BrickColor(x) => GVal::BrickColor(if *x == 21 { 23 } else { 21 }),
        GVal::Bool(b) => GVal::Bool(!*b),
        GVal::ContentId(s_) => GVal::ContentId(format!("rbxassetid://other{}", s_.len())),
        other => other.clone(),
    }
}

/// A value of the same legacy property that `PropertyMigration::perform` rejects, if there is one.
fn rejected_value(b: &MigCase) -> Option<GVal> {
    let view = dbview::resolve(&b.class, &b.legacy)?;
    let Ty::Enum(e) = &view.canonical_ty else { return None };
    let mut items = dbview::enum_items(e);
    items.sort();
    // not always the same one: picked by the value under test
    let start = match &b.value {
        GVal::Enum(x) => *x as usize,
        _ => 0,
    };
    let rejected: Vec<u32> = items.into_iter().filter(|i| oracle::migrate_value(&b.class, &view, &GVal::Enum(*i)).is_none()).collect();
    if rejected.is_empty() {
        None
    } else {
        Some(GVal::Enum(rejected[start % rejected.len()]))
    }
}

fn context_forest(c: &CtxCase, new_name: &str, target_ty: &Ty) -> GForest {
    let b = &c.base;
    let m = forest_of(b, new_name).nodes.remove(0);
    let node = |parent: Option<usize>, class: &str, name: &str, props: Vec<(String, GVal)>| GNode { parent, class: class.to_string(), name: name.to_string(), props };
    let legacy_other = (b.legacy.clone(), other_value(&b.value));
    let explicit_other = (new_name.to_string(), explicit_for(target_ty, 5));
    let mut nodes = match c.context % 5 {
        0 => vec![node(None, &b.class, "parent", vec![legacy_other]), GNode { parent: Some(0), ..m }, node(Some(0), &b.class, "sibling", vec![])],
        1 => {
            let oc = c.other_class.clone().unwrap_or_else(|| b.class.clone());
            vec![node(None, &oc, "before", vec![explicit_other]), GNode { parent: None, ..m }, node(None, &oc, "after", vec![legacy_other])]
        }
        4 => {
            // same-class siblings, one before and one after, whose legacy value the migration rejects
            // (the items recorded as an open finding); the instance under test migrates all the same
            let rejected = (b.legacy.clone(), rejected_value(b).unwrap_or_else(|| other_value(&b.value)));
            vec![node(None, &b.class, "before", vec![rejected.clone()]), GNode { parent: None, ..m }, node(None, &b.class, "after", vec![rejected])]
        }
        2 => vec![
            node(None, "Folder", "top", vec![]),
            node(Some(0), &b.class, "parent", vec![legacy_other, explicit_other]),
            GNode { parent: Some(1), ..m },
        ],
        _ => vec![node(None, &b.class, "before", vec![legacy_other]), GNode { parent: None, ..m }, node(None, &b.class, "after", vec![explicit_other])],
    };
    // names are unique: the instance under test is "m"
    for n in nodes.iter_mut() {
        if n.name != "m" && n.name == "m" {
            n.name = "x".into();
        }
    }
    let mut f = GForest { nodes, roots: vec![] };
    f.roots = f.child_table().0;
    f
}

fn find_m(d: &forest::CanonDom) -> Option<Props> {
    let mut stack: Vec<&forest::CanonInst> = d.roots.iter().collect();
    while let Some(i) = stack.pop() {
        if i.name == "m" {
            return Some(i.props.clone());
        }
        stack.extend(i.children.iter());
    }
    None
}

/// The four paths on a whole forest; the result is what the instance named "m" shows.
fn forest_paths(f: &GForest, legacy_content: bool) -> Vec<(&'static str, Result<Props, String>)> {
    let m_of = |r: Result<rbx_dom_weak::WeakDom, String>| r.and_then(|d| find_m(&forest::observe(&d)).ok_or_else(|| "instance m not found".to_string()));
    let built = forest::build(f, BuildMode::Builder, None);
    let roots = built.root_refs(f);
    let wb = super::c01::write_binary(&built.dom, &roots, rbx_binary::CompressionType::None).map_err(|e| e.msg).and_then(|b| super::c01::read_binary(&b).map_err(|e| e.msg));
    let wx = super::c02::write_xml(&built.dom, &roots, rbx_xml::EncodeOptions::default())
        .map_err(|e| e.msg)
        .and_then(|b| super::c02::read_xml(&b, rbx_xml::DecodeOptions::default()).map_err(|e| e.msg));
    let rb = binbuild::encode(&binbuild::complete_columns(f), &binbuild::Plan::plain(), Dialect::implementation()).and_then(|b| super::c01::read_binary(&b.bytes).map_err(|e| e.msg));
    let mut plan = refxml::DocPlan::plain();
    plan.contentid_as_content = legacy_content;
    let rx = super::c02::read_xml(refxml::document(f, &plan).text.as_bytes(), rbx_xml::DecodeOptions::default()).map_err(|e| e.msg);
    vec![("write-binary", m_of(wb)), ("write-xml", m_of(wx)), ("read-binary", m_of(rb)), ("read-xml", m_of(rx))]
}

fn context_body(c: &CtxCase, ctx: &mut CaseCtx) -> PropResult {
    let b = &c.base;
    let Some(view) = dbview::resolve(&b.class, &b.legacy) else { fail!("harness", "{}.{} does not resolve", b.class, b.legacy) };
    let Some(mig) = view.migration else { fail!("harness", "{}.{} does not migrate", b.class, b.legacy) };
    let Some(target) = dbview::resolve(&b.class, &mig.new_property_name) else { return Ok(()) };
    if oracle::migrate_value(&b.class, &view, &b.value).is_none() {
        ctx.excluded("value the migration rejects (open finding, probed by the migrations sub-check)");
        return Ok(());
    }
    ctx.label(["context:same_class_parent_migrates", "context:other_class_sets_new_property", "context:nested_under_both_spellings", "context:between_same_class_siblings", "context:between_siblings_whose_value_is_rejected"][(c.context % 5) as usize]);
    ctx.nontrivial();
    let new_name = target.roundtrip.clone();
    let legacy_content = matches!(b.value, GVal::ContentId(_)) && c.context % 2 == 1;
    let alone = forest_paths(&forest_of(b, &new_name), legacy_content);
    let inside = forest_paths(&context_forest(c, &new_name, &target.canonical_ty), legacy_content);
    // a binary file has one column per class: an instance cannot lack a column a same-class instance
    // has, so "legacy only" next to a same-class carrier of the new property cannot be written down
    let same_class_carrier = match c.context % 5 {
        2 | 3 => true,
        1 => c.other_class.as_deref().map(|o| o == b.class).unwrap_or(true),
        _ => false,
    };
    // what a file holding only a rejected sibling does is the open finding's business, not this check's
    let sibling_alone = if c.context % 5 == 4 {
        let mut only = context_forest(c, &new_name, &target.canonical_ty);
        only.nodes.truncate(1);
        only.nodes[0].name = "m".into();
        only.roots = vec![0];
        Some(forest_paths(&only, legacy_content))
    } else {
        None
    };
    for (k, ((pname, a), (_, i))) in alone.iter().zip(inside.iter()).enumerate() {
        let Ok(a) = a else { continue };
        if let Some(s) = &sibling_alone {
            if s[k].1.is_err() {
                ctx.excluded("path fails for the rejected sibling alone");
                continue;
            }
        }
        if *pname == "read-binary" && same_class_carrier && b.explicit.is_none() {
            continue;
        }
        match i {
            Err(e) => fail!(format!("c15:context:path-fails:{pname}"), "{}.{} = {:?} migrates alone through {pname}, but not in context {}: {e}", b.class, b.legacy, b.value, c.context % 5),
            Ok(i) => ensure!(
                i == a,
                format!("c15:context:{pname}"),
                "{}.{} = {:?} (explicit {:?}) through {pname}: alone the instance shows {:?}, in context {} it shows {:?}",
                b.class,
                b.legacy,
                b.value,
                b.explicit,
                a,
                c.context % 5,
                i
            ),
        }
        ctx.add_evals(1);
    }
    Ok(())
}

/// Concrete classes that inherit `(decl_class, prop)`.
fn inheritors(decl: &str) -> Vec<String> {
    dbview::all_class_names()
        .into_iter()
        .filter(|c| dbview::chain(dbview::db(), c).map(|ch| ch.iter().any(|k| k.name == decl)).unwrap_or(false))
        .collect()
}

fn uri_pool() -> Vec<String> {
    vec![
        String::new(),
        "rbxassetid://1".into(),
        "rbxasset://textures/face.png".into(),
        "http://www.roblox.com/asset/?id=42&v=<1>".into(),
        "日本語/é".into(),
        " leading and trailing ".into(),
        "x".repeat(4096),
        "a]]>b".into(),
    ]
}

fn explicit_for(ty: &Ty, k: usize) -> GVal {
    match ty {
        Ty::Enum(_) => GVal::Enum(3 - (k as u32 % 2) * 3),
        Ty::Value(VariantType::Font) => GVal::Font { family: format!("rbxasset://fonts/families/Explicit{k}.json"), weight: 700, style: 1, cached: None },
        Ty::Value(VariantType::Color3) => GVal::Color3([0.25f32.to_bits(), 0.5f32.to_bits(), (k as f32 / 8.0).to_bits()]),
        Ty::Value(VariantType::Content) => GVal::Content(GContent::Uri(format!("rbxassetid://explicit{k}"))),
        Ty::Value(t) => binbuild::neutral(*t),
    }
}

pub fn enumerate(ctx: &Ctx) -> Vec<MigCase> {
    let db = dbview::db();
    let mut out = Vec::new();
    let mut class_names = dbview::all_class_names();
    class_names.sort();
    for decl in &class_names {
        let mut props: Vec<&str> = db.classes[decl.as_str()].properties.keys().map(|k| k.as_ref()).collect();
        props.sort();
        for prop in props {
            let Some(view) = dbview::resolve(decl, prop) else { continue };
            if view.migration.is_none() || view.declared_in != *decl {
                continue;
            }
            let values: Vec<GVal> = match &view.canonical_ty {
                Ty::Enum(e) => dbview::enum_items(e).into_iter().map(GVal::Enum).collect(),
                Ty::Value(VariantType::BrickColor) => vals::brick_color_numbers().into_iter().map(GVal::BrickColor).collect(),
                Ty::Value(VariantType::Bool) => vec![GVal::Bool(false), GVal::Bool(true)],
                Ty::Value(VariantType::ContentId) => uri_pool().into_iter().map(GVal::ContentId).collect(),
                _ => vec![],
            };
            let target_ty = dbview::resolve(decl, &view.migration.unwrap().new_property_name).map(|t| t.canonical_ty);
            let mut classes = inheritors(decl);
            // the quick tier samples the inheriting classes, the thorough tier takes all
            if ctx.cfg.tier == crate::engine::Tier::Quick && classes.len() > 4 {
                let step = classes.len() / 4;
                classes = classes.into_iter().step_by(step.max(1)).collect();
            }
            for class in &classes {
                for (k, v) in values.iter().enumerate() {
                    out.push(MigCase { class: class.clone(), legacy: prop.to_string(), value: v.clone(), explicit: None, legacy_first: true });
                    if let Some(tt) = &target_ty {
                        // explicit new value: both encounter orders (every 3rd value in the quick tier)
                        if ctx.cfg.tier == crate::engine::Tier::Thorough || k % 3 == 0 {
                            for legacy_first in [true, false] {
                                out.push(MigCase { class: class.clone(), legacy: prop.to_string(), value: v.clone(), explicit: Some(explicit_for(tt, k)), legacy_first });
                            }
                        }
                    }
                }
            }
        }
    }
    out
}

fn context_cases(ctx: &Ctx) -> Vec<CtxCase> {
    let base = enumerate(ctx);
    let mut out = Vec::new();
    let mut per_prop: BTreeMap<(String, String), usize> = BTreeMap::new();
    for (i, b) in base.iter().enumerate() {
        // a handful of values per (class, legacy property): the context is what varies here
        let n = per_prop.entry((b.class.clone(), b.legacy.clone())).or_default();
        *n += 1;
        if *n > ctx.cfg.tier.pick(6, 40) as usize {
            continue;
        }
        let Some(view) = dbview::resolve(&b.class, &b.legacy) else { continue };
        let others: Vec<String> = inheritors(&view.declared_in).into_iter().filter(|c| *c != b.class).collect();
        let with_rejected = rejected_value(b).is_some();
        for context in 0..if with_rejected { 5u8 } else { 4u8 } {
            let other_class = if others.is_empty() { None } else { Some(others[(i + context as usize) % others.len()].clone()) };
            out.push(CtxCase { base: b.clone(), context, other_class });
        }
    }
    out
}

pub fn run(ctx: &Ctx) -> PropertyReport {
    let mut rep = PropertyReport::new(
        "C15",
        "exploration",
        "enumerated from the database at run time: every (class, property) whose serialization is Migrate x concrete inheriting classes x every legacy value (all items of Enum.Font, every BrickColor \
         number, both booleans, a pool of URIs) x {new property absent, explicit value with the legacy one encountered first, explicit value first} x paths write-binary, write-XML, read-binary \
         (legacy column built from docs/binary.md), read-XML (legacy element built from docs/xml.md, also with the historical Content element name). Oracle: every path yields exactly the new property \
         with the expected value (independently tabulated for bool / BrickColor / ContentId, PropertyMigration::perform for fonts), never the legacy name; an explicit value wins. The enumeration is \
         exhaustive over the database (thorough tier: all inheriting classes and explicit-value combinations; quick tier: 4 classes per declaration).",
    );
    let sub = crate::engine::replay_subcheck_or_all(ctx);
    if sub.runs("context") {
        let cases = if ctx.cfg.replay.is_some() { vec![] } else { context_cases(ctx) };
        let mut r = ctx.run_list("context", cases, false, context_body);
        r.notes.push("each migrating instance is placed under a same-class parent that migrates too, after an instance of another class that sets the new property explicitly, two levels deep, and between same-class siblings; through every path it must show what it shows alone".into());
        rep.push(r);
    }
    if sub.runs("migrations") {
        let cases = if ctx.cfg.replay.is_some() { vec![] } else { enumerate(ctx) };
        let mut r = ctx.run_list("migrations", cases, ctx.cfg.tier == crate::engine::Tier::Thorough, body);
        for l in ["new_property_absent", "legacy_before_explicit", "explicit_before_legacy", "legacy:Font", "legacy:BrickColor", "legacy:IgnoreGuiInset", "legacy:ContentId", "tabulated_expectation"] {
            r.floor(l, 2);
        }
        rep.push(r);
    }
    rep
}
