//! C08 — binary class columns: mixed property sets serialize and keep their own values.

use std::collections::{BTreeMap, BTreeSet};

use proptest::prelude::*;
use proptest::sample::select;
use rbx_types::VariantType;
use serde::{Deserialize, Serialize};

use crate::dbview::{self, Ty};
use crate::engine::{CaseCtx, Ctx, Fail, PropResult, PropertyReport};
use crate::gen::forest::{self, BuildMode, GForest, GNode};
use crate::gen::vals::{self, GVal, ValProfile};
use crate::oracle::{self, Format, Norm};
use crate::spec::binbuild::neutral;
use crate::{ensure, fail};

use super::c01::{read_binary, write_binary};

#[derive(Clone, Debug, Serialize, Deserialize)]
pub struct Group {
    pub class: String,
    /// per instance: (spelling, value)
    pub instances: Vec<Vec<(String, GVal)>>,
    /// keys selecting sibling permutations beyond the exhaustive ones
    pub perm_keys: Vec<u32>,
}

pub const CLASS_POOL: &[&str] = &[
    "Part", "Part", "MeshPart", "TextLabel", "TextButton", "TextBox", "ScreenGui", "ImageLabel", "ImageButton", "Sound",
    "WrapLayer", "SpawnLocation", "Folder", "Model", "Fire", "Smoke", "Players", "Workspace", "MaterialService", "UnionOperation",
    "ZzUnknownClassA", "ZzUnknownClassB",
];

/// (spelling, logical key, type, kind) pool of a class: plain + alias + legacy spellings
/// plus a few unknown property names.
#[derive(Clone, Debug)]
pub struct PoolEntry {
    pub name: String,
    /// canonical name the value ends up under after a binary round trip
    pub logical: String,
    pub ty: Ty,
    pub kind: &'static str,
}

pub fn property_pool(class: &str) -> Vec<PoolEntry> {
    let cp = dbview::class_props(class);
    let supported = vals::binary_types();
    let conflicts = dbview::ser_conflicts(class);
    let mut out = Vec::new();
    for sp in &cp.plain {
        let ser = sp.view.ser.as_ref().unwrap();
        if !supported.contains(&sp.view.canonical_ty.variant_type()) || !supported.contains(&ser.ty.variant_type()) {
            continue;
        }
        if sp.view.canonical == "Name" || sp.view.canonical == "UniqueId" {
            continue;
        }
        // two canonical properties sharing one serialized name: confirmed finding with its
        // own probe (sub-check shared-serialized-name); excluded here so the search continues
        if conflicts.iter().any(|(ser_name, _)| *ser_name == ser.name) {
            continue;
        }
        out.push(PoolEntry {
            name: sp.name.clone(),
            logical: sp.view.roundtrip.clone(),
            ty: sp.view.canonical_ty.clone(),
            kind: if sp.view.is_alias { "alias" } else if ser.name != sp.view.canonical { "serializes_as" } else { "canonical" },
        });
    }
    for sp in &cp.migrating {
        let m = sp.view.migration.unwrap();
        if let Some(target) = dbview::resolve(class, &m.new_property_name) {
            out.push(PoolEntry {
                name: sp.name.clone(),
                logical: target.roundtrip.clone(),
                ty: sp.view.canonical_ty.clone(),
                kind: "legacy",
            });
        }
    }
    if out.is_empty() || class.starts_with("Zz") {
        for (i, t) in [VariantType::Int32, VariantType::String, VariantType::Vector3, VariantType::Color3uint8, VariantType::CFrame, VariantType::Enum]
            .iter()
            .enumerate()
        {
            out.push(PoolEntry {
                name: forest::UNKNOWN_PROP_POOL[i].to_string(),
                logical: forest::UNKNOWN_PROP_POOL[i].to_string(),
                ty: Ty::Value(*t),
                kind: "unknown",
            });
        }
    }
    out
}

fn focus_pool(class: &str) -> Vec<PoolEntry> {
    // logical properties that have more than one spelling come first and are repeated,
    // so that groups mixing spellings of one logical property are frequent
    let pool = property_pool(class);
    let mut by_logical: BTreeMap<String, usize> = BTreeMap::new();
    for e in &pool {
        *by_logical.entry(e.logical.clone()).or_default() += 1;
    }
    let mut out = Vec::new();
    for e in &pool {
        let n = by_logical[&e.logical];
        let copies = if n > 1 { 8 } else { 1 };
        for _ in 0..copies {
            out.push(e.clone());
        }
    }
    out
}

pub fn group_strategy() -> BoxedStrategy<Group> {
    let vp = ValProfile::binary();
    (
        select(CLASS_POOL),
        proptest::collection::vec(proptest::collection::vec((any::<u16>(), any::<u64>()), 0..5), 2..7),
        proptest::collection::vec(any::<u32>(), 0..6),
    )
        .prop_map(move |(class, raw, perm_keys)| {
            let pool = focus_pool(class);
            let instances = raw
                .into_iter()
                .map(|props| {
                    let mut seen = BTreeSet::new();
                    let mut out = Vec::new();
                    for (sel, seed) in props {
                        let e = &pool[(sel as usize * pool.len()) >> 16];
                        if !seen.insert(e.logical.clone()) {
                            continue;
                        }
                        let val = match &e.ty {
                            Ty::Enum(name) => {
                                let items = dbview::enum_items(name);
                                // legacy enums (Enum.Font): only values the migration table knows
                                let items: Vec<u32> = if e.kind == "legacy" { items.into_iter().filter(|v| *v <= 45).collect() } else { items };
                                if items.is_empty() {
                                    GVal::Enum((seed % 40) as u32)
                                } else {
                                    GVal::Enum(items[(seed >> 8) as usize % items.len()])
                                }
                            }
                            Ty::Value(t) => forest::value_from_seed(*t, vp, seed | 1),
                        };
                        // Refs would need a target; keep them null
                        let val = val.map_refs(&|_| vals::GRef::None);
                        out.push((e.name.clone(), val));
                    }
                    out
                })
                .collect();
            Group {
                class: class.to_string(),
                instances,
                perm_keys,
            }
        })
        .boxed()
}

fn forest_of(class: &str, instances: &[&Vec<(String, GVal)>]) -> GForest {
    GForest {
        nodes: instances
            .iter()
            .enumerate()
            .map(|(i, props)| GNode {
                parent: None,
                class: class.to_string(),
                name: format!("i{i}"),
                props: (*props).clone(),
            })
            .collect(),
        roots: (0..instances.len()).collect(),
    }
}

fn serialize(f: &GForest) -> Result<Vec<u8>, Fail> {
    let built = forest::build(f, BuildMode::Builder, None);
    let roots = built.root_refs(f);
    write_binary(&built.dom, &roots, rbx_binary::CompressionType::None)
}

fn permutations(n: usize, keys: &[u32]) -> Vec<Vec<usize>> {
    let mut out = Vec::new();
    if n <= 4 {
        fn rec(cur: &mut Vec<usize>, used: &mut Vec<bool>, n: usize, out: &mut Vec<Vec<usize>>) {
            if cur.len() == n {
                out.push(cur.clone());
                return;
            }
            for i in 0..n {
                if !used[i] {
                    used[i] = true;
                    cur.push(i);
                    rec(cur, used, n, out);
                    cur.pop();
                    used[i] = false;
                }
            }
        }
        rec(&mut vec![], &mut vec![false; n], n, &mut out);
    } else {
        out.push((0..n).collect());
        out.push((0..n).rev().collect());
        for k in 0..22u32 {
            let mut idx: Vec<usize> = (0..n).collect();
            let salt = keys.get(k as usize % keys.len().max(1)).copied().unwrap_or(k);
            idx.sort_by_key(|i| (*i as u32 + 1).wrapping_mul(2654435761).wrapping_add(salt.wrapping_mul(k + 1)) >> 7);
            out.push(idx);
        }
    }
    out
}

fn unambiguous_neutral(t: VariantType) -> bool {
    !matches!(
        t,
        VariantType::Enum | VariantType::BrickColor | VariantType::NumberSequence | VariantType::ColorSequence | VariantType::Font
    )
}

fn body(g: &Group, ctx: &mut CaseCtx) -> PropResult {
    let n = g.instances.len();
    // classification
    let mut logical_spellings: BTreeMap<String, BTreeSet<String>> = BTreeMap::new();
    let mut per_instance: Vec<BTreeMap<String, (String, GVal)>> = Vec::new();
    for inst in &g.instances {
        let mut m = BTreeMap::new();
        for (name, val) in inst {
            let logical = match dbview::resolve(&g.class, name) {
                None => name.clone(),
                Some(v) => match v.migration {
                    Some(mig) => dbview::resolve(&g.class, &mig.new_property_name).map(|t| t.roundtrip).unwrap_or_default(),
                    None => v.roundtrip.clone(),
                },
            };
            logical_spellings.entry(logical.clone()).or_default().insert(name.clone());
            m.insert(logical, (name.clone(), val.clone()));
        }
        per_instance.push(m);
    }
    let mixes_spellings = logical_spellings.values().any(|s| s.len() >= 2);
    let has_gap = logical_spellings.keys().any(|l| per_instance.iter().any(|m| !m.contains_key(l)) && per_instance.iter().any(|m| m.contains_key(l)));
    ctx.label_if(mixes_spellings, "mixes_spellings_of_one_logical_property");
    ctx.label_if(has_gap, "instance_lacks_property_a_sibling_has");
    ctx.label_if(g.instances.iter().flatten().any(|(name, _)| dbview::resolve(&g.class, name).map(|v| v.migration.is_some()).unwrap_or(false)), "has_legacy_spelling");
    ctx.label_if(g.instances.iter().flatten().any(|(name, _)| dbview::resolve(&g.class, name).map(|v| v.is_alias).unwrap_or(false)), "has_alias_spelling");
    ctx.label_if(dbview::db().classes.get(g.class.as_str()).is_none(), "unknown_class");
    ctx.nontrivial_if(mixes_spellings || has_gap);

    // the statement's premise: each instance serializes on its own
    for inst in &g.instances {
        let f = forest_of(&g.class, &[inst]);
        if let Err(e) = serialize(&f) {
            if e.key.starts_with("serialize-error") {
                ctx.excluded("an instance does not serialize on its own");
                return Ok(());
            }
            return Err(e);
        }
    }
    // (1) the group serializes in every sibling order
    let perms = permutations(n, &g.perm_keys);
    let mut outputs: Vec<(Vec<usize>, Vec<u8>)> = Vec::new();
    for p in &perms {
        let ordered: Vec<&Vec<(String, GVal)>> = p.iter().map(|i| &g.instances[*i]).collect();
        let f = forest_of(&g.class, &ordered);
        match serialize(&f) {
            Ok(b) => {
                if outputs.len() < 2 {
                    outputs.push((p.clone(), b));
                }
            }
            Err(e) if e.key.starts_with("serialize-error") => fail!(
                "c08:order-dependent-success",
                "every instance serializes alone, but the group in sibling order {:?} does not: {}",
                p,
                e.msg
            ),
            Err(e) => return Err(e),
        }
        ctx.add_evals(1);
    }
    // (2) own values and defaults after read-back (first and last explored orders)
    let last = perms.last().unwrap().clone();
    let ordered: Vec<&Vec<(String, GVal)>> = last.iter().map(|i| &g.instances[*i]).collect();
    if let Ok(b) = serialize(&forest_of(&g.class, &ordered)) {
        outputs.push((last, b));
    }
    let no_blob = |_: &GVal| None;
    for (p, bytes) in &outputs {
        let ordered: Vec<&Vec<(String, GVal)>> = p.iter().map(|i| &g.instances[*i]).collect();
        let f = forest_of(&g.class, &ordered);
        let exp = oracle::expect_roundtrip(&f, Format::Binary, &no_blob);
        let decoded = read_binary(bytes)?;
        let act = forest::observe(&decoded);
        ensure!(act.roots.len() == n, "c08:shape", "{} instances came back, {} written", act.roots.len(), n);
        let union: BTreeSet<String> = exp.dom.roots.iter().flat_map(|r| r.props.keys().cloned()).collect();
        for (k, (e, a)) in exp.dom.roots.iter().zip(act.roots.iter()).enumerate() {
            for name in &union {
                let got = a.props.get(name);
                match e.props.get(name) {
                    Some(want) => {
                        // its own value
                        let ok = got.map(|g| oracle::val_matches(want, g, &Norm::binary())).unwrap_or(false);
                        ensure!(
                            ok || exp.collapsed.contains(&(g.class.clone(), name.clone())),
                            format!("c08:own-value:{:?}", want.ty()),
                            "order {:?}: instance #{k} had {name} = {:?}, came back as {:?}",
                            p,
                            want,
                            got
                        );
                    }
                    None => {
                        // a property it lacked: database default, or the type's neutral value
                        let Some(got) = got else {
                            fail!("c08:column-missing", "order {:?}: instance #{k} has no {name} although a sibling carried it", p)
                        };
                        match oracle::default_as_read(&g.class, name) {
                            Some(def) => ensure!(
                                oracle::val_matches(&def, got, &Norm::binary()),
                                format!("c08:default:{:?}", def.ty()),
                                "order {:?}: instance #{k} lacked {name}; database default is {:?}, file gave {:?}",
                                p,
                                def,
                                got
                            ),
                            None => {
                                let ty = got.ty();
                                let siblings: Vec<&GVal> = exp.dom.roots.iter().filter_map(|r| r.props.get(name)).collect();
                                let neutral_v = {
                                    // what a reader makes of the neutral value
                                    let nv = neutral(ty);
                                    match (&nv, dbview::resolve(&g.class, name)) {
                                        (GVal::String(s), None) => GVal::BinaryString(s.as_bytes().to_vec()),
                                        _ => nv,
                                    }
                                };
                                if unambiguous_neutral(ty) {
                                    ensure!(
                                        oracle::val_matches(&neutral_v, got, &Norm::binary()),
                                        format!("c08:neutral:{ty:?}"),
                                        "order {:?}: instance #{k} lacked {name} (no database default); expected the neutral {:?}, file gave {:?}",
                                        p,
                                        neutral_v,
                                        got
                                    );
                                }
                                let _ = siblings;
                            }
                        }
                    }
                }
            }
        }
    }
    // (3) metamorphic: what an instance shows for a property it lacked does not depend on
    // which values its siblings hold (pins "never another instance's value" for the types
    // whose neutral value the statement leaves open)
    let perturb = |v: &GVal| -> GVal {
        match v {
            GVal::Enum(x) => GVal::Enum(x ^ 1),
            GVal::BrickColor(n) => {
                let all = vals::brick_color_numbers();
                let i = all.iter().position(|x| x == n).unwrap_or(0);
                GVal::BrickColor(all[(i + 1) % all.len()])
            }
            GVal::NumberSequence(k) => {
                let mut k = k.clone();
                k.push([0x3f00_0000, 0x4000_0000, 0]);
                GVal::NumberSequence(k)
            }
            GVal::ColorSequence(k) => {
                let mut k = k.clone();
                k.push((0x3f00_0000, [0x3f80_0000, 0, 0x3f00_0000]));
                GVal::ColorSequence(k)
            }
            GVal::Font { family, weight, style, cached } => GVal::Font {
                family: format!("{family}x"),
                weight: if *weight == 900 { 100 } else { weight + 100 },
                style: 1 - (*style).min(1),
                cached: cached.clone(),
            },
            GVal::Int32(x) => GVal::Int32(x.wrapping_add(1)),
            GVal::Bool(b) => GVal::Bool(!b),
            other => other.clone(),
        }
    };
    let alt: Vec<Vec<(String, GVal)>> = g
        .instances
        .iter()
        .map(|inst| inst.iter().map(|(n, v)| (n.clone(), perturb(v))).collect())
        .collect();
    let base_refs: Vec<&Vec<(String, GVal)>> = g.instances.iter().collect();
    let alt_refs: Vec<&Vec<(String, GVal)>> = alt.iter().collect();
    if let (Ok(b1), Ok(b2)) = (serialize(&forest_of(&g.class, &base_refs)), serialize(&forest_of(&g.class, &alt_refs))) {
        let d1 = forest::observe(&read_binary(&b1)?);
        let d2 = forest::observe(&read_binary(&b2)?);
        let f = forest_of(&g.class, &base_refs);
        let exp = oracle::expect_roundtrip(&f, Format::Binary, &no_blob);
        for (k, (e, (a1, a2))) in exp.dom.roots.iter().zip(d1.roots.iter().zip(d2.roots.iter())).enumerate() {
            for (name, v1) in &a1.props {
                if e.props.contains_key(name) {
                    continue;
                }
                ensure!(
                    a2.props.get(name) == Some(v1),
                    format!("c08:default-depends-on-siblings:{:?}", v1.ty()),
                    "instance #{k} lacks {name}; it shows {:?}, but {:?} when only its siblings' values are changed",
                    v1,
                    a2.props.get(name)
                );
            }
        }
    }
    Ok(())
}

#[derive(Clone, Debug, Serialize, Deserialize)]
pub struct SharedSerProbe {
    pub class: String,
    pub first: String,
    pub second: String,
}

/// Two *canonical* properties that share one serialized name (database quirk):
/// one instance sets the first, its sibling the second.
fn shared_ser_body(p: &SharedSerProbe, ctx: &mut CaseCtx) -> PropResult {
    ctx.nontrivial();
    let ty = dbview::resolve(&p.class, &p.first).map(|v| v.canonical_ty.variant_type()).unwrap_or(VariantType::Float32);
    let (a, b) = match ty {
        VariantType::Bool => (GVal::Bool(true), GVal::Bool(false)),
        _ => (GVal::Float32(3.5f32.to_bits()), GVal::Float32(7.25f32.to_bits())),
    };
    let i0 = vec![(p.first.clone(), a.clone())];
    let i1 = vec![(p.second.clone(), b.clone())];
    let f = forest_of(&p.class, &[&i0, &i1]);
    let bytes = serialize(&f)?;
    let decoded = read_binary(&bytes)?;
    let act = forest::observe(&decoded);
    let rt = dbview::resolve(&p.class, &p.first).map(|v| v.roundtrip).unwrap_or_default();
    let key = format!("c08:shared-serialized-name:{}", p.class);
    ensure!(act.roots.len() == 2, key.clone(), "shape");
    ensure!(
        act.roots[0].props.get(&rt) == Some(&a) && act.roots[1].props.get(&rt) == Some(&b),
        key,
        "{}.{} = {:?} on one instance and {}.{} = {:?} on its sibling (both are stored under the serialized name of {rt}) came back as {:?} / {:?}",
        p.class,
        p.first,
        a,
        p.class,
        p.second,
        b,
        act.roots[0].props.get(&rt),
        act.roots[1].props.get(&rt)
    );
    Ok(())
}

// ---------------------------------------------------------------------------
// mixed classes: the columns of a class must not depend on which other classes are in the file

pub const FAMILIES: &[&[&str]] = &[
    &["Part", "TrussPart", "WedgePart", "MeshPart", "SpawnLocation", "CornerWedgePart", "Seat"],
    &["TextLabel", "TextButton", "TextBox", "ImageLabel", "ImageButton", "Frame", "ScrollingFrame"],
    &["Fire", "Smoke", "Sparkles", "ParticleEmitter", "Trail", "Beam"],
    &["Script", "LocalScript", "ModuleScript"],
    &["IntValue", "NumberValue", "StringValue", "BoolValue", "Vector3Value", "CFrameValue"],
    &["ScreenGui", "SurfaceGui", "BillboardGui"],
    &["Sound", "SoundGroup", "EchoSoundEffect", "ReverbSoundEffect"],
    &["Part", "TextLabel", "Folder", "ZzUnknownClassA", "Model", "Decal"],
];

#[derive(Clone, Debug, Serialize, Deserialize)]
pub struct MixedGroup {
    /// (class, properties) per instance, in sibling order
    pub instances: Vec<(String, Vec<(String, GVal)>)>,
}

fn mixed_strategy() -> BoxedStrategy<MixedGroup> {
    let vp = ValProfile::binary();
    (
        0..FAMILIES.len(),
        proptest::collection::vec((any::<u16>(), proptest::collection::vec((any::<u16>(), any::<u64>(), 0u8..4), 0..5)), 2..8),
    )
        .prop_map(move |(fam, raw)| {
            let family: Vec<&str> = FAMILIES[fam].iter().copied().filter(|c| c.starts_with("Zz") || dbview::db().classes.contains_key(*c)).collect();
            let pools: Vec<Vec<PoolEntry>> = family.iter().map(|c| focus_pool(c)).collect();
            // spellings every class of the family accepts
            let common: Vec<PoolEntry> = pools[0]
                .iter()
                .filter(|e| pools.iter().all(|p| p.iter().any(|x| x.name == e.name)))
                .cloned()
                .collect();
            let instances = raw
                .into_iter()
                .map(|(csel, props)| {
                    let ci = (csel as usize * family.len()) >> 16;
                    let mut seen = BTreeSet::new();
                    let mut out = Vec::new();
                    for (sel, seed, which) in props {
                        let pool = if which != 0 && !common.is_empty() { &common } else { &pools[ci] };
                        if pool.is_empty() {
                            continue;
                        }
                        let e = &pool[(sel as usize * pool.len()) >> 16];
                        if !seen.insert(e.logical.clone()) {
                            continue;
                        }
                        let val = match &e.ty {
                            Ty::Enum(name) => {
                                let items = dbview::enum_items(name);
                                let items: Vec<u32> = if e.kind == "legacy" { items.into_iter().filter(|v| *v <= 45).collect() } else { items };
                                if items.is_empty() {
                                    GVal::Enum((seed % 40) as u32)
                                } else {
                                    GVal::Enum(items[(seed >> 8) as usize % items.len()])
                                }
                            }
                            Ty::Value(t) => forest::value_from_seed(*t, vp, seed | 1),
                        };
                        out.push((e.name.clone(), val.map_refs(&|_| vals::GRef::None)));
                    }
                    (family[ci].to_string(), out)
                })
                .collect();
            MixedGroup { instances }
        })
        .boxed()
}

fn mixed_forest(g: &MixedGroup, keep: impl Fn(&str) -> bool) -> GForest {
    let nodes: Vec<GNode> = g
        .instances
        .iter()
        .enumerate()
        .filter(|(_, (c, _))| keep(c))
        .map(|(i, (class, props))| GNode { parent: None, class: class.clone(), name: format!("i{i}"), props: props.clone() })
        .collect();
    let n = nodes.len();
    GForest { nodes, roots: (0..n).collect() }
}

fn mixed_body(g: &MixedGroup, ctx: &mut CaseCtx) -> PropResult {
    let classes: BTreeSet<&str> = g.instances.iter().map(|(c, _)| c.as_str()).collect();
    // a property (by spelling) that one class sets on some instance while an instance of another class lacks it
    let mut setters: BTreeMap<&str, BTreeSet<&str>> = BTreeMap::new();
    for (c, props) in &g.instances {
        for (n, _) in props {
            setters.entry(n.as_str()).or_default().insert(c.as_str());
        }
    }
    let cross_gap = g.instances.iter().any(|(c, props)| {
        setters.iter().any(|(n, cs)| cs.iter().any(|x| x != c) && !props.iter().any(|(pn, _)| pn == n) && dbview::resolve(c, n).is_some())
    });
    let shared_between_classes = setters.values().any(|cs| cs.len() >= 2);
    ctx.label_if(classes.len() >= 2, "several_classes");
    ctx.label_if(shared_between_classes, "one_property_set_in_two_classes");
    ctx.label_if(cross_gap, "instance_lacks_property_another_class_sets");
    ctx.nontrivial_if(classes.len() >= 2 && (shared_between_classes || cross_gap));

    let mut alone: BTreeMap<&str, forest::CanonDom> = BTreeMap::new();
    for c in &classes {
        match serialize(&mixed_forest(g, |x| x == *c)) {
            Ok(b) => {
                alone.insert(c, forest::observe(&read_binary(&b)?));
            }
            Err(e) if e.key.starts_with("serialize-error") => {
                ctx.excluded("a class does not serialize on its own");
                return Ok(());
            }
            Err(e) => return Err(e),
        }
    }
    let together = match serialize(&mixed_forest(g, |_| true)) {
        Ok(b) => forest::observe(&read_binary(&b)?),
        Err(e) if e.key.starts_with("serialize-error") => fail!(
            "c08:class-mix-dependent-success",
            "the instances of every class serialize as a file of their own, but the mixed file does not: {}",
            e.msg
        ),
        Err(e) => return Err(e),
    };
    ensure!(together.roots.len() == g.instances.len(), "c08:mixed:shape", "{} of {} instances came back", together.roots.len(), g.instances.len());
    for inst in &together.roots {
        let own = alone[inst.class.as_str()].roots.iter().find(|r| r.name == inst.name);
        let Some(own) = own else { fail!("c08:mixed:shape", "instance {} missing from its own-class file", inst.name) };
        if own.props != inst.props {
            let diff: Vec<String> = inst
                .props
                .iter()
                .filter(|(k, v)| own.props.get(*k) != Some(v))
                .map(|(k, v)| format!("{k}: {:?} in the mixed file, {:?} with its own class only", v, own.props.get(k)))
                .chain(own.props.keys().filter(|k| !inst.props.contains_key(*k)).map(|k| format!("{k}: missing in the mixed file")))
                .take(3)
                .collect();
            let ty = inst.props.iter().find(|(k, v)| own.props.get(*k) != Some(v)).map(|(_, v)| format!("{:?}", v.ty())).unwrap_or_else(|| "missing".into());
            fail!(format!("c08:depends-on-other-class:{ty}"), "{} {} reads back differently when other classes share the file: {}", inst.class, inst.name, diff.join("; "));
        }
    }
    Ok(())
}

/// Two classes that inherit one property but have different database defaults for it
/// (BasePart.Size is (4,1.2,2) for Part and (2,2,2) for TrussPart). One instance of
/// each class sets the property, one of each lacks it; `order` permutes the four.
#[derive(Clone, Debug, Serialize, Deserialize)]
pub struct InheritedDefault {
    pub prop: String,
    pub class_a: String,
    pub class_b: String,
    pub order: u8,
    pub seed: u64,
}

fn inherited_default_cases(per_property: usize) -> Vec<InheritedDefault> {
    let db = dbview::db();
    let supported = vals::binary_types();
    // (declaring class, property) -> [(default as GVal, first class showing it)]
    let mut groups: BTreeMap<(String, String), Vec<(GVal, String)>> = BTreeMap::new();
    for class in dbview::all_class_names() {
        let cp = dbview::class_props(&class);
        for sp in &cp.plain {
            if sp.view.is_alias || sp.name != sp.view.canonical || sp.view.canonical == "Name" || sp.view.canonical == "UniqueId" {
                continue;
            }
            let ser = sp.view.ser.as_ref().unwrap();
            if !supported.contains(&sp.view.canonical_ty.variant_type()) || !supported.contains(&ser.ty.variant_type()) {
                continue;
            }
            if dbview::ser_conflicts(&class).iter().any(|(_, c)| c.contains(&sp.view.canonical)) {
                continue;
            }
            let Some((decl, _)) = dbview::lookup_in(db, &class, &sp.name) else { continue };
            let Some(def) = dbview::default_of(&class, &sp.view.canonical) else { continue };
            let g = GVal::from_variant(def, &|_| vals::GRef::None);
            let e = groups.entry((decl.name.to_string(), sp.name.clone())).or_default();
            if !e.iter().any(|(v, _)| *v == g) {
                e.push((g, class.clone()));
            }
        }
    }
    let mut out = Vec::new();
    for ((_, prop), reps) in groups {
        let mut n = 0;
        'pairs: for i in 0..reps.len() {
            for j in 0..reps.len() {
                if i != j {
                    if n >= per_property {
                        break 'pairs;
                    }
                    n += 1;
                    let seed = (out.len() as u64 + 1).wrapping_mul(0x9E37_79B9_7F4A_7C15);
                    for order in 0..24 {
                        out.push(InheritedDefault {
                            prop: prop.clone(),
                            class_a: reps[i].1.clone(),
                            class_b: reps[j].1.clone(),
                            order,
                            seed: seed.wrapping_add(order as u64),
                        });
                    }
                }
            }
        }
    }
    out
}

/// Every (class, canonical property) of the database that has a default, inherited ones included:
/// a file of two instances of the class, one carrying the property and one lacking it.
#[derive(Clone, Debug, Serialize, Deserialize)]
pub struct DbDefault {
    pub class: String,
    pub prop: String,
    pub lacking_first: bool,
    /// write instances of a class two levels below `class` in a database that extends the bundled
    /// one (every default is then inherited through at least two steps), given to both codecs
    #[serde(default)]
    pub deep: bool,
}

/// The bundled database plus, below every class B, `ZzDeep1B` and below that `ZzDeep2B`; neither
/// declares anything.
fn deep_db() -> &'static rbx_reflection::ReflectionDatabase<'static> {
    static DB: std::sync::OnceLock<rbx_reflection::ReflectionDatabase<'static>> = std::sync::OnceLock::new();
    DB.get_or_init(|| {
        let mut db = rbx_reflection_database::get().clone();
        let names: Vec<String> = db.classes.keys().map(|k| k.to_string()).collect();
        for b in names {
            let mut c1 = rbx_reflection::ClassDescriptor::new(format!("ZzDeep1{b}"));
            c1.superclass = Some(b.clone().into());
            let mut c2 = rbx_reflection::ClassDescriptor::new(format!("ZzDeep2{b}"));
            c2.superclass = Some(format!("ZzDeep1{b}").into());
            db.classes.insert(format!("ZzDeep1{b}").into(), c1);
            db.classes.insert(format!("ZzDeep2{b}").into(), c2);
        }
        db
    })
}

fn db_default_cases() -> Vec<DbDefault> {
    let supported = vals::binary_types();
    let mut out = Vec::new();
    for class in dbview::all_class_names() {
        let cp = dbview::class_props(&class);
        for sp in &cp.plain {
            if sp.view.is_alias || sp.name != sp.view.canonical || sp.view.canonical == "Name" || sp.view.canonical == "UniqueId" {
                continue;
            }
            let Some(ser) = sp.view.ser.as_ref() else { continue };
            if !supported.contains(&sp.view.canonical_ty.variant_type()) || !supported.contains(&ser.ty.variant_type()) {
                continue;
            }
            if dbview::ser_conflicts(&class).iter().any(|(_, c)| c.contains(&sp.view.canonical)) {
                continue;
            }
            if oracle::default_as_read(&class, &sp.view.canonical).is_none() {
                continue;
            }
            for lacking_first in [false, true] {
                out.push(DbDefault { class: class.clone(), prop: sp.name.clone(), lacking_first, deep: false });
            }
            out.push(DbDefault { class: class.clone(), prop: sp.name.clone(), lacking_first: out.len() % 2 == 0, deep: true });
        }
    }
    out
}

fn db_default_body(c: &DbDefault, ctx: &mut CaseCtx) -> PropResult {
    let view = dbview::resolve(&c.class, &c.prop).ok_or_else(|| Fail::new("harness:c08", "property vanished"))?;
    let seed = crate::engine::fxhash(format!("{}.{}", c.class, c.prop).as_bytes());
    let set = match &view.canonical_ty {
        Ty::Enum(e) => {
            let items = dbview::enum_items(e);
            GVal::Enum(if items.is_empty() { 1 } else { items[(seed >> 8) as usize % items.len()] })
        }
        Ty::Value(t) => forest::value_from_seed(*t, ValProfile::binary(), seed),
    };
    // a Ref points at the first instance of the file, a Content object likewise
    let set = match set {
        GVal::Ref(_) => GVal::Ref(vals::GRef::Node(0)),
        GVal::Content(vals::GContent::Object(_)) => GVal::Content(vals::GContent::Object(vals::GRef::Node(0))),
        other => other,
    };
    let file_class = if c.deep { format!("ZzDeep2{}", c.class) } else { c.class.clone() };
    let carrying = GNode { parent: None, class: file_class.clone(), name: "carries".into(), props: vec![(c.prop.clone(), set)] };
    let lacking = GNode { parent: None, class: file_class.clone(), name: "lacks".into(), props: vec![] };
    let f = GForest { nodes: if c.lacking_first { vec![lacking, carrying] } else { vec![carrying, lacking] }, roots: vec![0, 1] };
    let d = if c.deep {
        ctx.label("default_inherited_through_two_more_levels_of_a_custom_database");
        let built = forest::build(&f, BuildMode::Builder, None);
        let roots = built.root_refs(&f);
        let mut bytes = Vec::new();
        let res = crate::engine::catch(|| rbx_binary::Serializer::new().reflection_database(deep_db()).serialize(&mut bytes, &built.dom, &roots))
            .map_err(|i| Fail::new("c08:deep:panic", format!("serializer with a custom database panicked: {}", i.msg)))?;
        if res.is_err() {
            ctx.excluded("not serializable");
            return Ok(());
        }
        let dom = crate::engine::catch(|| rbx_binary::Deserializer::new().reflection_database(deep_db()).deserialize(bytes.as_slice()))
            .map_err(|i| Fail::new("c08:deep:panic", format!("deserializer with a custom database panicked: {}", i.msg)))?
            .map_err(|e| Fail::new("c08:deep:decode-error", format!("reader with the same custom database rejected the file: {e}")))?;
        forest::observe(&dom)
    } else {
        let Ok(bytes) = serialize(&f) else {
            ctx.excluded("not serializable");
            return Ok(());
        };
        forest::observe(&read_binary(&bytes)?)
    };
    let got = d.roots.iter().find(|r| r.name == "lacks").and_then(|r| r.props.get(&view.roundtrip).cloned());
    let def = oracle::default_as_read(&c.class, &view.canonical).unwrap();
    let inherited = dbview::db().classes.get(c.class.as_str()).map(|k| !k.default_properties.contains_key(view.canonical.as_str())).unwrap_or(false);
    ctx.label(if inherited { "default_inherited_from_a_superclass" } else { "default_stated_on_the_class" });
    ctx.nontrivial();
    let Some(got) = got else { fail!("c08:column-missing", "the {} that lacked {} has no such property after a sibling carried it", c.class, c.prop) };
    ensure!(
        oracle::val_matches(&def, &got, &Norm::binary()),
        format!("c08:default:{:?}", def.ty()),
        "a {} lacked {} ({}); database default is {:?}, file gave {:?}",
        c.class,
        c.prop,
        if inherited { "default inherited from a superclass" } else { "default stated on the class" },
        def,
        got
    );
    Ok(())
}

fn inherited_default_body(c: &InheritedDefault, ctx: &mut CaseCtx) -> PropResult {
    let view = dbview::resolve(&c.class_a, &c.prop).ok_or_else(|| Fail::new("harness:c08", "property vanished"))?;
    let set_val = |salt: u64| match &view.canonical_ty {
        Ty::Enum(e) => {
            let items = dbview::enum_items(e);
            GVal::Enum(if items.is_empty() { 1 } else { items[(c.seed.wrapping_add(salt) >> 8) as usize % items.len()] })
        }
        Ty::Value(t) => forest::value_from_seed(*t, ValProfile::binary(), c.seed.wrapping_add(salt)),
    };
    let node = |class: &str, name: &str, v: Option<GVal>| GNode {
        parent: None,
        class: class.to_string(),
        name: name.to_string(),
        props: v.map(|v| vec![(c.prop.clone(), v)]).unwrap_or_default(),
    };
    let four = vec![
        node(&c.class_a, "a_set", Some(set_val(1))),
        node(&c.class_b, "b_set", Some(set_val(2))),
        node(&c.class_a, "a_lacks", None),
        node(&c.class_b, "b_lacks", None),
    ];
    let perm = &permutations(4, &[])[c.order as usize % 24];
    let mixed = GForest { nodes: perm.iter().map(|i| four[*i].clone()).collect(), roots: (0..4).collect() };
    let alone = |set: usize, lacks: usize| GForest { nodes: vec![four[set].clone(), four[lacks].clone()], roots: vec![0, 1] };
    let (Ok(bm), Ok(ba), Ok(bb)) = (serialize(&mixed), serialize(&alone(0, 2)), serialize(&alone(1, 3))) else {
        ctx.excluded("not serializable");
        return Ok(());
    };
    let find = |bytes: &[u8], name: &str| -> Result<Option<GVal>, Fail> {
        let d = forest::observe(&read_binary(bytes)?);
        Ok(d.roots.iter().find(|r| r.name == name).and_then(|r| r.props.get(&view.roundtrip).cloned()))
    };
    ctx.nontrivial();
    for (who, class, alone_bytes) in [("a_lacks", &c.class_a, &ba), ("b_lacks", &c.class_b, &bb)] {
        let in_mixed = find(&bm, who)?;
        let by_itself = find(alone_bytes, who)?;
        let db_default = dbview::default_of(class, &view.canonical).map(|v| GVal::from_variant(v, &|_| vals::GRef::None));
        ctx.label_if(by_itself == db_default, "alone_shows_database_default");
        ensure!(
            in_mixed == by_itself,
            format!("c08:default-depends-on-other-class:{:?}", view.canonical_ty.variant_type()),
            "a {class} without {} reads back {:?} when written next to instances of {} / {}, but {:?} (database default {:?}) when written with its own class only",
            c.prop,
            in_mixed,
            c.class_a,
            c.class_b,
            by_itself,
            db_default
        );
    }
    Ok(())
}

pub fn run(ctx: &Ctx) -> PropertyReport {
    let mut rep = PropertyReport::new(
        "C08",
        "exploration",
        "groups of 2-6 same-class instances (Part, MeshPart, TextLabel, ScreenGui, ImageLabel, Sound, ..., unknown classes), each with a random subset of a property pool spelled \
         through canonical / alias / serializes-as / legacy-migrating names, values drawn independently so that leakage is visible. Oracles: (1) if every instance serializes alone the group \
         serializes in every sibling permutation (all n! for n <= 4, 24 sampled beyond); (2) after read-back each instance shows exactly its own values (migrated where legacy) and, for a property \
         it lacked, the database default of the class or the type's neutral value, never a sibling's; (3) mixed-classes: 2-7 instances drawn from a family of related classes (BasePart subclasses, GuiObjects, ...), properties mostly from the spellings the whole \
         family shares: every instance reads back from the mixed file exactly what it reads back from a file holding its own class only; (4) inherited-defaults: for every property whose inheriting classes have different \
         database defaults, one instance of each of two classes sets it and one of each lacks it, in a permuted order: the lacking ones read back what they read back when written with their own class only. Non-trivial = the group mixes >= 2 spellings of one logical property, or an instance lacks a \
         property a sibling carries.",
    );
    let sub = crate::engine::replay_subcheck_or_all(ctx);
    if sub.runs("groups") {
        let cases = ctx.cfg.cases(120_000, 1_500_000);
        let mut r = ctx.run_prop("groups", cases, group_strategy, body);
        for l in ["mixes_spellings_of_one_logical_property", "instance_lacks_property_a_sibling_has", "has_legacy_spelling", "has_alias_spelling", "unknown_class"] {
            r.floor(l, cases / 100);
        }
        rep.push(r);
    }
    if sub.runs("mixed-classes") {
        let cases = ctx.cfg.cases(40_000, 800_000);
        let mut r = ctx.run_prop("mixed-classes", cases, mixed_strategy, mixed_body);
        r.floor("one_property_set_in_two_classes", cases / 20);
        r.floor("instance_lacks_property_another_class_sets", cases / 20);
        rep.push(r);
    }
    if sub.runs("inherited-defaults") {
        // every (declaring class, property) whose inheriting classes disagree on the default
        let cases = inherited_default_cases(usize::MAX);
        let mut r = ctx.run_list("inherited-defaults", cases, true, inherited_default_body);
        r.floor("alone_shows_database_default", 1000);
        rep.push(r);
    }
    if sub.runs("database-defaults") {
        let cases = if ctx.cfg.replay.is_some() { vec![] } else { db_default_cases() };
        let mut r = ctx.run_list("database-defaults", cases, true, db_default_body);
        r.floor("default_inherited_from_a_superclass", 50);
        r.floor("default_inherited_through_two_more_levels_of_a_custom_database", 1000);
        r.notes.push("every (class, canonical property) of the bundled database with a default value, stated or inherited, in both sibling orders; and once more for a class two levels below it in a custom database (bundled database plus two empty subclasses per class) given to both codecs".into());
        rep.push(r);
    }
    if sub.runs("shared-serialized-name") {
        let mut cases = Vec::new();
        for class in dbview::all_class_names() {
            for (_, canon) in dbview::ser_conflicts(&class) {
                if canon.len() >= 2 && dbview::db().classes[class.as_str()].properties.contains_key(canon[0].as_str()) {
                    cases.push(SharedSerProbe { class: class.clone(), first: canon[0].clone(), second: canon[1].clone() });
                    cases.push(SharedSerProbe { class: class.clone(), first: canon[1].clone(), second: canon[0].clone() });
                }
            }
        }
        rep.push(ctx.run_list("shared-serialized-name", cases, true, shared_ser_body));
    }
    rep
}
