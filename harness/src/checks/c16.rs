//! C16 — the bundled reflection database is coherent and closed under both codecs.

use std::collections::HashSet;

use proptest::prelude::*;
use rbx_reflection::{DataType, PropertyKind, PropertySerialization, ReflectionDatabase};
use rbx_types::{Variant, VariantType};
use serde::{Deserialize, Serialize};

use crate::dbview;
use crate::engine::{no_panic, CaseCtx, Ctx, Fail, PropResult, PropertyReport, SubReport};
use crate::gen::forest::{self, BuildMode, GForest, GNode};
use crate::gen::vals::{GRef, GVal, ValProfile};
use crate::oracle::{self, Format, Norm};
use crate::{ensure, fail};

/// Types a default of declared type `decl` may legitimately carry besides `decl` itself:
/// the serialized type, and what the codecs document as convertible.
fn type_ok(default: VariantType, declared: VariantType, serialized: Option<VariantType>) -> bool {
    default == declared
        || Some(default) == serialized
        || matches!(
            (default, declared),
            (VariantType::Int32, VariantType::Int64)
                | (VariantType::Float32, VariantType::Float64)
                | (VariantType::BinaryString, VariantType::Tags)
                | (VariantType::BinaryString, VariantType::Attributes)
                | (VariantType::BinaryString, VariantType::MaterialColors)
                | (VariantType::Color3, VariantType::Color3uint8)
        )
}

fn data_ty(d: &DataType) -> Option<VariantType> {
    match d {
        DataType::Value(v) => Some(*v),
        DataType::Enum(_) => Some(VariantType::Enum),
        _ => None,
    }
}

/// Every incoherence of `db`, as (kind, description). Works on any database value
/// (the bundled one, or a corrupted clone in the self-test).
pub fn coherence(db: &ReflectionDatabase) -> Vec<(String, String)> {
    let mut out = Vec::new();
    let mut push = |k: &str, m: String| out.push((k.to_string(), m));
    for (cname, class) in &db.classes {
        if class.name != *cname {
            push("class-key", format!("class stored under {cname} is named {}", class.name));
        }
        // superclass chain resolves, is acyclic, ends at a root
        let mut seen = HashSet::new();
        let mut cur = class;
        loop {
            if !seen.insert(cur.name.to_string()) {
                push("superclass-cycle", format!("{cname}: superclass chain cycles at {}", cur.name));
                break;
            }
            match &cur.superclass {
                None => break,
                Some(s) => match db.classes.get(s.as_ref()) {
                    Some(c) => cur = c,
                    None => {
                        push("superclass-dangling", format!("{cname}: superclass {s} of {} does not exist", cur.name));
                        break;
                    }
                },
            }
        }
        let lookup = |name: &str| -> Option<&rbx_reflection::PropertyDescriptor> {
            let mut cur = class;
            let mut steps = 0;
            loop {
                if let Some(p) = cur.properties.get(name) {
                    return Some(p);
                }
                steps += 1;
                if steps > 64 {
                    return None;
                }
                cur = db.classes.get(cur.superclass.as_ref()?.as_ref())?;
            }
        };
        for (pname, prop) in &class.properties {
            if prop.name != *pname {
                push("property-key", format!("{cname}.{pname} is named {}", prop.name));
            }
            if let DataType::Enum(e) = &prop.data_type {
                if !db.enums.contains_key(e.as_ref()) {
                    push("enum-dangling", format!("{cname}.{pname}: enum {e} does not exist"));
                }
            }
            match &prop.kind {
                PropertyKind::Alias { alias_for } => match class.properties.get(alias_for.as_ref()) {
                    None => push("alias-dangling", format!("{cname}.{pname}: alias for {alias_for}, which {cname} does not declare")),
                    Some(t) => {
                        if !matches!(t.kind, PropertyKind::Canonical { .. }) {
                            push("alias-of-alias", format!("{cname}.{pname}: alias for {alias_for}, which is not canonical"));
                        }
                    }
                },
                PropertyKind::Canonical { serialization } => match serialization {
                    PropertySerialization::SerializesAs(target) => match class.properties.get(target.as_ref()) {
                        None => push("serializes-as-dangling", format!("{cname}.{pname}: serializes as {target}, which {cname} does not declare")),
                        Some(t) => {
                            // the target must lead back to something that serializes
                            let back = match &t.kind {
                                PropertyKind::Canonical { serialization } => Some(serialization),
                                PropertyKind::Alias { alias_for } => class.properties.get(alias_for.as_ref()).and_then(|c| match &c.kind {
                                    PropertyKind::Canonical { serialization } => Some(serialization),
                                    _ => None,
                                }),
                                _ => None,
                            };
                            match back {
                                None => push("serializes-as-unresolvable", format!("{cname}.{pname}: target {target} does not resolve")),
                                Some(PropertySerialization::DoesNotSerialize) => {
                                    push("serializes-as-non-serializing", format!("{cname}.{pname}: target {target} does not serialize"))
                                }
                                _ => {}
                            }
                            if data_ty(&t.data_type).is_none() {
                                push("serializes-as-type", format!("{cname}.{pname}: target {target} has an unknown data type"));
                            }
                        }
                    },
                    PropertySerialization::Migrate(m) => match lookup(&m.new_property_name) {
                        None => push("migration-dangling", format!("{cname}.{pname}: migrates to {}, which {cname} does not know", m.new_property_name)),
                        Some(t) => {
                            let serializes = match &t.kind {
                                PropertyKind::Canonical { serialization } => !matches!(serialization, PropertySerialization::DoesNotSerialize),
                                PropertyKind::Alias { .. } => true,
                                _ => false,
                            };
                            if !serializes {
                                push("migration-non-serializing", format!("{cname}.{pname}: migration target {} does not serialize", m.new_property_name));
                            }
                        }
                    },
                    _ => {}
                },
                _ => push("property-kind", format!("{cname}.{pname}: unknown property kind")),
            }
        }
        for (dname, value) in &class.default_properties {
            match lookup(dname) {
                None => push("default-unknown-property", format!("{cname}: default for {dname}, which no class in the chain declares")),
                Some(desc) => {
                    // resolve to the canonical descriptor and its serialized type
                    let canonical = match &desc.kind {
                        PropertyKind::Alias { alias_for } => lookup(alias_for).unwrap_or(desc),
                        _ => desc,
                    };
                    let declared = data_ty(&canonical.data_type);
                    let serialized = match &canonical.kind {
                        PropertyKind::Canonical { serialization: PropertySerialization::SerializesAs(t) } => lookup(t).and_then(|d| data_ty(&d.data_type)),
                        _ => declared,
                    };
                    match declared {
                        Some(decl) => {
                            if !type_ok(value.ty(), decl, serialized) {
                                push(
                                    "default-type",
                                    format!("{cname}.{dname}: default is a {:?}, property is declared {:?} (serialized {:?})", value.ty(), decl, serialized),
                                );
                            }
                        }
                        None => push("default-type", format!("{cname}.{dname}: property has an unknown data type")),
                    }
                }
            }
        }
    }
    for (ename, e) in &db.enums {
        if e.name != *ename {
            push("enum-key", format!("enum stored under {ename} is named {}", e.name));
        }
    }
    out
}

/// Structural equality of two JSON trees; numbers equal if equal as integers, as f64 or as f32.
fn json_equal(a: &serde_json::Value, b: &serde_json::Value, path: &str) -> Result<(), String> {
    use serde_json::Value::*;
    match (a, b) {
        (Null, Null) => Ok(()),
        (Bool(x), Bool(y)) if x == y => Ok(()),
        (String(x), String(y)) if x == y => Ok(()),
        (Number(x), Number(y)) => {
            let same = x == y
                || x.as_f64() == y.as_f64()
                || match (x.as_f64(), y.as_f64()) {
                    (Some(p), Some(q)) => (p as f32) == (q as f32),
                    _ => false,
                };
            if same {
                Ok(())
            } else {
                Err(format!("{path}: {x} vs {y}"))
            }
        }
        (Array(x), Array(y)) => {
            if x.len() != y.len() {
                return Err(format!("{path}: array lengths {} vs {}", x.len(), y.len()));
            }
            for (i, (p, q)) in x.iter().zip(y.iter()).enumerate() {
                json_equal(p, q, &format!("{path}[{i}]"))?;
            }
            Ok(())
        }
        (Object(x), Object(y)) => {
            for k in x.keys() {
                if !y.contains_key(k) {
                    return Err(format!("{path}: key {k:?} only in database.json"));
                }
            }
            for (k, q) in y {
                match x.get(k) {
                    Some(p) => json_equal(p, q, &format!("{path}.{k}"))?,
                    None => return Err(format!("{path}: key {k:?} only in database.msgpack")),
                }
            }
            Ok(())
        }
        _ => Err(format!("{path}: {} vs {}", a.to_string().chars().take(60).collect::<std::string::String>(), b.to_string().chars().take(60).collect::<std::string::String>())),
    }
}

#[derive(Clone, Debug, Serialize, Deserialize)]
pub struct ClassCase {
    pub class: String,
}

fn defaults_forest(class: &str) -> GForest {
    // every default along the chain, nearest class wins
    let mut props: Vec<(String, GVal)> = Vec::new();
    let mut seen = HashSet::new();
    if let Some(chain) = dbview::chain(dbview::db(), class) {
        for c in chain {
            let mut names: Vec<&str> = c.default_properties.keys().map(|k| k.as_ref()).collect();
            names.sort();
            for name in names {
                if name == "Name" || !seen.insert(name.to_string()) {
                    continue;
                }
                let v = &c.default_properties[name];
                if matches!(v, Variant::Region3(_) | Variant::Region3int16(_) | Variant::EnumItem(_) | Variant::Vector2int16(_)) {
                    continue;
                }
                props.push((name.to_string(), GVal::from_variant(v, &|_| GRef::None)));
            }
        }
    }
    GForest {
        nodes: vec![GNode {
            parent: None,
            class: class.to_string(),
            name: "defaults".into(),
            props,
        }],
        roots: vec![0],
    }
}

fn no_blob(_: &GVal) -> Option<Vec<u8>> {
    None
}

fn class_body(c: &ClassCase, ctx: &mut CaseCtx) -> PropResult {
    let f = defaults_forest(&c.class);
    ctx.nontrivial_if(!f.nodes[0].props.is_empty());
    ctx.label_if(f.nodes[0].props.len() >= 10, "class_with_10_defaults");
    let built = forest::build(&f, BuildMode::Builder, None);
    let roots = built.root_refs(&f);
    // binary
    let bytes = super::c01::write_binary(&built.dom, &roots, rbx_binary::CompressionType::Lz4).map_err(|mut e| {
        e.key = format!("db:defaults-binary-write:{}", e.key);
        e.msg = format!("{}: {}", c.class, e.msg);
        e
    })?;
    let decoded = super::c01::read_binary(&bytes)?;
    let exp = oracle::expect_roundtrip(&f, Format::Binary, &no_blob);
    if let Err((k, m)) = oracle::compare_dom(&exp, &forest::observe(&decoded), &Norm::binary()) {
        fail!(format!("db:defaults-binary:{k}"), "{}: defaults do not survive the binary format: {m}", c.class);
    }
    // XML
    let text = super::c02::write_xml(&built.dom, &roots, rbx_xml::EncodeOptions::default()).map_err(|mut e| {
        e.key = format!("db:defaults-xml-write:{}", e.key);
        e.msg = format!("{}: {}", c.class, e.msg);
        e
    })?;
    let decoded = super::c02::read_xml(&text, rbx_xml::DecodeOptions::default())?;
    let exp = oracle::expect_roundtrip(&f, Format::Xml, &no_blob);
    if let Err((k, m)) = oracle::compare_dom(&exp, &forest::observe(&decoded), &Norm::xml()) {
        fail!(format!("db:defaults-xml:{k}"), "{}: defaults do not survive the XML format: {m}", c.class);
    }
    Ok(())
}

#[derive(Clone, Debug, Serialize, Deserialize)]
pub struct LookupCase {
    pub class: String,
    pub prop: String,
}

/// Drive both crates' descriptor lookups through their public API with a one-property instance.
fn lookup_body(c: &LookupCase, ctx: &mut CaseCtx) -> PropResult {
    ctx.nontrivial();
    let db = dbview::db();
    let desc = &db.classes[c.class.as_str()].properties[c.prop.as_str()];
    let ty = match &desc.data_type {
        DataType::Value(v) => *v,
        DataType::Enum(_) => VariantType::Enum,
        _ => return Ok(()),
    };
    if matches!(ty, VariantType::Region3 | VariantType::Region3int16 | VariantType::EnumItem | VariantType::Vector2int16) {
        ctx.excluded("type not implemented by the codecs");
        return Ok(());
    }
    let val = forest::value_from_seed(ty, ValProfile::xml(), 0).map_refs(&|_| GRef::None);
    let f = GForest {
        nodes: vec![GNode {
            parent: None,
            class: c.class.clone(),
            name: "x".into(),
            props: vec![(c.prop.clone(), val)],
        }],
        roots: vec![0],
    };
    let built = forest::build(&f, BuildMode::Builder, None);
    let roots = built.root_refs(&f);
    // errors are fine (a clean Err is not a failed lookup); panics are not
    let mut out = Vec::new();
    let r = no_panic("rbx_binary lookup", || rbx_binary::to_writer(&mut out, &built.dom, &roots)).map_err(|mut e| {
        e.key = format!("db:lookup-panics:{}", e.key);
        e.msg = format!("{}.{}: {}", c.class, c.prop, e.msg);
        e
    })?;
    if r.is_ok() {
        no_panic("rbx_binary lookup (read)", || rbx_binary::from_reader(out.as_slice()).map(|_| ()))?.ok();
    }
    let mut out = Vec::new();
    let r = no_panic("rbx_xml lookup", || rbx_xml::to_writer_default(&mut out, &built.dom, &roots)).map_err(|mut e| {
        e.key = format!("db:lookup-panics:{}", e.key);
        e.msg = format!("{}.{}: {}", c.class, c.prop, e.msg);
        e
    })?;
    if r.is_ok() {
        no_panic("rbx_xml lookup (read)", || rbx_xml::from_reader_default(out.as_slice()).map(|_| ()))?.ok();
    }
    // and the harness's own resolver agrees with what the binary writer did: the
    // serialized name it predicts is the name of the column in the file
    if let (Some(view), Ok(())) = (dbview::resolve(&c.class, &c.prop), r) {
        if let (Some(ser), None) = (&view.ser, view.migration) {
            let mut bin = Vec::new();
            if rbx_binary::Serializer::new()
                .compression_type(rbx_binary::CompressionType::None)
                .serialize(&mut bin, &built.dom, &roots)
                .is_ok()
            {
                if let Ok(raw) = crate::spec::refbin::parse_container(&bin) {
                    if let Ok(model) = crate::spec::refbin::decode_model(&raw, crate::spec::refbin::Dialect::implementation()) {
                        ensure!(
                            model.props.iter().any(|p| p.name == ser.name),
                            "db:resolver-disagrees",
                            "{}.{}: the harness resolver says the serialized name is {}, the file has {:?}",
                            c.class,
                            c.prop,
                            ser.name,
                            model.props.iter().map(|p| p.name.clone()).collect::<Vec<_>>()
                        );
                    }
                }
            }
        }
    }
    Ok(())
}

#[derive(Clone, Debug, Serialize, Deserialize)]
pub struct Corruption {
    pub kind: u8,
    pub class_sel: u16,
    pub prop_sel: u16,
}

fn corruption_body(c: &Corruption, ctx: &mut CaseCtx) -> PropResult {
    let mut db: ReflectionDatabase<'static> = dbview::db().clone();
    let mut names: Vec<String> = db.classes.keys().map(|k| k.to_string()).collect();
    names.sort();
    // pick a class that can carry this corruption, starting at the selected one
    let start = (c.class_sel as usize * names.len()) >> 16;
    let mut applied: Option<&'static str> = None;
    for off in 0..names.len() {
        let cname = &names[(start + off) % names.len()];
        let class = db.classes.get_mut(cname.as_str()).unwrap();
        let mut pnames: Vec<String> = class.properties.keys().map(|k| k.to_string()).collect();
        pnames.sort();
        let pick = |v: &Vec<String>| if v.is_empty() { None } else { Some(v[(c.prop_sel as usize * v.len()) >> 16].clone()) };
        match c.kind % 7 {
            0 => {
                // dangling alias
                let aliases: Vec<String> = pnames.iter().filter(|p| matches!(class.properties[p.as_str()].kind, PropertyKind::Alias { .. })).cloned().collect();
                if let Some(p) = pick(&aliases) {
                    class.properties.get_mut(p.as_str()).unwrap().kind = PropertyKind::Alias { alias_for: "ZzNoSuchProperty".into() };
                    applied = Some("dangling_alias");
                }
            }
            1 => {
                if class.superclass.is_some() {
                    class.superclass = Some("ZzNoSuchClass".into());
                    applied = Some("missing_superclass");
                }
            }
            2 => {
                // default of the wrong type
                let mut dn: Vec<String> = class.default_properties.keys().map(|k| k.to_string()).collect();
                dn.sort();
                if let Some(d) = pick(&dn) {
                    let old = class.default_properties[d.as_str()].ty();
                    let new = if old == VariantType::Ray { Variant::Axes(rbx_types::Axes::all()) } else { Variant::Ray(rbx_types::Ray::new(rbx_types::Vector3::new(0.0, 0.0, 0.0), rbx_types::Vector3::new(1.0, 0.0, 0.0))) };
                    class.default_properties.insert(d.into(), new);
                    applied = Some("wrong_default_type");
                }
            }
            3 => {
                let sa: Vec<String> = pnames
                    .iter()
                    .filter(|p| matches!(&class.properties[p.as_str()].kind, PropertyKind::Canonical { serialization: PropertySerialization::SerializesAs(_) }))
                    .cloned()
                    .collect();
                if let Some(p) = pick(&sa) {
                    class.properties.get_mut(p.as_str()).unwrap().kind = PropertyKind::Canonical { serialization: PropertySerialization::SerializesAs("ZzNoSuchProperty".into()) };
                    applied = Some("dangling_serializes_as");
                }
            }
            4 => {
                let en: Vec<String> = pnames.iter().filter(|p| matches!(class.properties[p.as_str()].data_type, DataType::Enum(_))).cloned().collect();
                if let Some(p) = pick(&en) {
                    class.properties.get_mut(p.as_str()).unwrap().data_type = DataType::Enum("ZzNoSuchEnum".into());
                    applied = Some("unknown_enum");
                }
            }
            5 => {
                // default for a property nobody declares
                class.default_properties.insert("ZzNoSuchProperty".into(), Variant::Bool(true));
                applied = Some("default_for_unknown_property");
            }
            _ => {
                // superclass cycle
                if class.superclass.is_some() {
                    class.superclass = Some(cname.clone().into());
                    applied = Some("superclass_cycle");
                }
            }
        }
        if applied.is_some() {
            break;
        }
    }
    let Some(kind) = applied else {
        ctx.excluded("no class can carry this corruption");
        return Ok(());
    };
    ctx.label(kind);
    ctx.nontrivial();
    let found = coherence(&db);
    ensure!(
        !found.is_empty(),
        format!("db:self-test-missed:{kind}"),
        "a database corrupted with '{kind}' passes the coherence check"
    );
    Ok(())
}

// ---------------------------------------------------------------------------
// the regeneration pipeline of rbx_reflector (a binary-only crate: its two pipeline modules are
// compiled into the harness from the working tree)

#[allow(dead_code)]
#[path = "/repo/rbx_reflector/src/defaults.rs"]
mod reflector_defaults;
#[allow(dead_code)]
#[path = "/repo/rbx_reflector/src/patches.rs"]
mod reflector_patches;

#[derive(Clone, Debug, Serialize, Deserialize)]
pub struct RegenCase {
    pub db: GenDb,
    /// defaults place: (class selector, [(slot selector, value seed)], number of properties the database does not know)
    pub place: Vec<(u16, Vec<(u16, u64)>, u8)>,
    /// DefaultValue patches: (class selector, slot selector, value seed)
    pub default_patches: Vec<(u16, u16, u64)>,
    /// the alias / serializes-as links of the generated database are not in the dump but come from
    /// patch entries (as in patches/*.yml); `Some(k)`: the k-th alias member is missing from the dump
    /// (a stale patch entry) - the pipeline may refuse, but must not emit an incoherent database
    #[serde(default)]
    pub links_from_patches: Option<Option<u16>>,
}

fn xml_value(name: &str, v: &GVal) -> String {
    let f = |b: u32| f32::from_bits(b);
    match v {
        GVal::Bool(b) => format!("<bool name=\"{name}\">{b}</bool>"),
        GVal::Int32(i) => format!("<int name=\"{name}\">{i}</int>"),
        GVal::Int64(i) => format!("<int64 name=\"{name}\">{i}</int64>"),
        GVal::String(s_) => format!("<string name=\"{name}\">{s_}</string>"),
        GVal::Float32(b) => format!("<float name=\"{name}\">{}</float>", f(*b)),
        GVal::Vector3(c) => format!("<Vector3 name=\"{name}\"><X>{}</X><Y>{}</Y><Z>{}</Z></Vector3>", f(c[0]), f(c[1]), f(c[2])),
        other => format!("<!-- {other:?} -->"),
    }
}

fn yaml_value(v: &GVal) -> String {
    let f = |b: u32| f32::from_bits(b);
    match v {
        GVal::Bool(b) => format!("Bool: {b}"),
        GVal::Int32(i) => format!("Int32: {i}"),
        GVal::Int64(i) => format!("Int64: {i}"),
        GVal::String(s_) => format!("String: \"{s_}\""),
        GVal::Float32(b) => format!("Float32: {:?}", f(*b)),
        GVal::Vector3(c) => format!("Vector3: [{:?}, {:?}, {:?}]", f(c[0]), f(c[1]), f(c[2])),
        other => format!("String: \"{other:?}\""),
    }
}

fn regen_body(c: &RegenCase, ctx: &mut CaseCtx) -> PropResult {
    static COUNTER: std::sync::atomic::AtomicU64 = std::sync::atomic::AtomicU64::new(0);
    let b = build_db(&c.db);
    let n = c.db.classes.len();
    let mut db = b.db.clone();
    for cl in db.classes.values_mut() {
        cl.default_properties.clear(); // a dump carries no defaults
    }
    // alias / serializes-as links as patch entries over a dump of plain members
    let mut link_yaml: std::collections::BTreeMap<String, Vec<String>> = Default::default();
    let mut stale = false;
    if let Some(drop_sel) = &c.links_from_patches {
        let mut alias_members: Vec<(String, String)> = Vec::new();
        let mut class_names: Vec<String> = db.classes.keys().map(|k| k.to_string()).collect();
        class_names.sort();
        for cn in &class_names {
            let cl = db.classes.get_mut(cn.as_str()).unwrap();
            let mut pnames: Vec<String> = cl.properties.keys().map(|k| k.to_string()).collect();
            pnames.sort();
            for pn in pnames {
                let kind = cl.properties[pn.as_str()].kind.clone();
                match kind {
                    PropertyKind::Alias { alias_for } => {
                        link_yaml.entry(cn.clone()).or_default().push(format!("    {pn}:\n      AliasFor: {alias_for}\n"));
                        alias_members.push((cn.clone(), pn.clone()));
                    }
                    PropertyKind::Canonical { serialization: PropertySerialization::SerializesAs(a) } => {
                        link_yaml.entry(cn.clone()).or_default().push(format!("    {pn}:\n      Serialization:\n        Type: SerializesAs\n        As: {a}\n"));
                    }
                    _ => {}
                }
                cl.properties.get_mut(pn.as_str()).unwrap().kind = PropertyKind::Canonical { serialization: PropertySerialization::Serializes };
            }
        }
        if let (Some(k), false) = (drop_sel, alias_members.is_empty()) {
            let (cn, pn) = &alias_members[(*k as usize * alias_members.len()) >> 16];
            db.classes.get_mut(cn.as_str()).unwrap().properties.remove(pn.as_str());
            stale = true;
        }
        ctx.label_if(!alias_members.is_empty(), "links_come_from_patches");
        ctx.label_if(stale, "stale_patch_entry");
    }
    // which class declares a slot, and how the file spells it
    let declared_in = |class: usize, slot: u8| -> Option<usize> { b.chains[class].iter().copied().find(|k| db.classes[format!("K{k}").as_str()].properties.contains_key(slot_name(slot).as_str())) };
    let file_name = |class: usize, slot: u8| -> String {
        let decl = declared_in(class, slot).unwrap();
        match &db.classes[format!("K{decl}").as_str()].properties[slot_name(slot).as_str()].kind {
            PropertyKind::Canonical { serialization: PropertySerialization::SerializesAs(a) } => a.to_string(),
            _ => slot_name(slot),
        }
    };
    // patches: DefaultValue on the declaring class of a slot
    let mut yaml = String::from("Change:\n");
    let mut patch_defaults: Vec<(usize, u8, GVal)> = Vec::new();
    let mut by_class: std::collections::BTreeMap<usize, Vec<(u8, GVal)>> = Default::default();
    for (csel, ssel, seed) in &c.default_patches {
        let class = (*csel as usize * n) >> 16;
        if b.visible[class].is_empty() {
            continue;
        }
        let slot = b.visible[class][(*ssel as usize * b.visible[class].len()) >> 16];
        let decl = declared_in(class, slot).unwrap();
        if by_class.get(&decl).map(|v| v.iter().any(|(s_, _)| *s_ == slot)).unwrap_or(false) {
            continue;
        }
        let v = slot_value(slot, *seed);
        by_class.entry(decl).or_default().push((slot, v.clone()));
        patch_defaults.push((decl, slot, v));
    }
    // one mapping per class: link entries and DefaultValue entries of the same property are merged
    let mut per_class: std::collections::BTreeMap<String, std::collections::BTreeMap<String, String>> = Default::default();
    for (cn, entries) in &link_yaml {
        for e in entries {
            let (head, rest) = e.split_once('\n').unwrap();
            per_class.entry(cn.clone()).or_default().entry(head.to_string()).or_default().push_str(&format!("{rest}"));
        }
    }
    for (class, items) in &by_class {
        for (slot, v) in items {
            per_class
                .entry(format!("K{class}"))
                .or_default()
                .entry(format!("    {}:", slot_name(*slot)))
                .or_default()
                .push_str(&format!("      DefaultValue:\n        {}\n", yaml_value(v)));
        }
    }
    for (cn, props) in &per_class {
        yaml.push_str(&format!("  {cn}:\n"));
        for (head, body) in props {
            yaml.push_str(&format!("{head}\n{body}"));
        }
    }
    if per_class.is_empty() {
        yaml = "Change: {}\n".into();
    }
    // defaults place
    let mut place = String::from("<roblox version=\"4\">");
    let mut place_expect: Vec<(usize, u8, GVal)> = Vec::new();
    let mut seen_class: HashSet<usize> = HashSet::new();
    let mut unknown_written = 0;
    for (i, (csel, props, unknown)) in c.place.iter().enumerate() {
        let class = (*csel as usize * n) >> 16;
        let first = seen_class.insert(class);
        place.push_str(&format!("<Item class=\"K{class}\" referent=\"R{i}\"><Properties><string name=\"Name\">K{class}</string>"));
        let mut used: HashSet<u8> = HashSet::new();
        for (ssel, seed) in props {
            if b.visible[class].is_empty() {
                break;
            }
            let slot = b.visible[class][(*ssel as usize * b.visible[class].len()) >> 16];
            if !used.insert(slot) {
                continue;
            }
            let v = slot_value(slot, *seed);
            place.push_str(&xml_value(&file_name(class, slot), &v));
            if first {
                place_expect.push((class, slot, v));
            }
        }
        for k in 0..*unknown {
            place.push_str(&format!("<bool name=\"FancyNewFlag{k}\">true</bool>"));
            unknown_written += 1;
        }
        place.push_str("</Properties></Item>");
    }
    place.push_str("</roblox>");
    ctx.label_if(unknown_written > 0, "place_has_properties_the_database_does_not_know");
    ctx.label_if(!patch_defaults.is_empty(), "default_value_patch");
    ctx.label_if(patch_defaults.iter().any(|(d, _, _)| (0..n).filter(|k| b.chains[*k].contains(d)).count() >= 3), "patch_default_reaches_3_classes");
    ctx.nontrivial_if(!place_expect.is_empty() || !patch_defaults.is_empty());

    let dir = std::path::PathBuf::from(format!("/verif/target/tmp/regen-{}-{}", std::process::id(), COUNTER.fetch_add(1, std::sync::atomic::Ordering::Relaxed)));
    let pdir = dir.join("patches");
    std::fs::create_dir_all(&pdir).map_err(|e| Fail::new("harness:regen-io", e.to_string()))?;
    let place_path = dir.join("defaults.rbxlx");
    std::fs::write(pdir.join("p.yml"), &yaml).and_then(|_| std::fs::write(&place_path, &place)).map_err(|e| Fail::new("harness:regen-io", e.to_string()))?;
    let run = no_panic("rbx_reflector pipeline (patches + defaults)", || -> Result<(), String> {
        let patches = reflector_patches::Patches::load(&pdir).map_err(|e| format!("Patches::load: {e:#}\n{yaml}"))?;
        patches.apply_pre_default(&mut db).map_err(|e| format!("apply_pre_default: {e:#}"))?;
        reflector_defaults::apply_defaults(&mut db, &place_path).map_err(|e| format!("apply_defaults: {e:#}"))?;
        patches.apply_post_default(&mut db).map_err(|e| format!("apply_post_default: {e:#}"))?;
        Ok(())
    });
    let _ = std::fs::remove_dir_all(&dir);
    match run? {
        Ok(()) => {}
        // a patch entry for a member the dump no longer has: refusing is a correct answer
        Err(_) if stale => {
            ctx.label("stale_patch_refused");
            return Ok(());
        }
        Err(e) => return Err(Fail::new("db:regen:pipeline-error", format!("the pipeline rejects a coherent dump with valid patches and a valid defaults place: {e}"))),
    }

    // (1) what comes out is a coherent database
    let problems = coherence(&db);
    ensure!(
        problems.is_empty(),
        format!("db:regen:incoherent:{}", problems[0].0),
        "the regenerated database is not coherent: {:?}\nplace: {}",
        problems.iter().take(3).collect::<Vec<_>>(),
        place.chars().take(600).collect::<String>()
    );
    // (2) patch defaults reach the declaring class and every class below it
    for (decl, slot, v) in &patch_defaults {
        for k in 0..n {
            if b.chains[k].contains(decl) {
                let got = db.classes[format!("K{k}").as_str()].default_properties.get(slot_name(*slot).as_str()).map(|x| GVal::from_variant(x, &|_| GRef::None));
                ensure!(got.as_ref() == Some(v), "db:regen:patch-default-not-propagated", "DefaultValue patch K{decl}.{} = {:?}: class K{k} ({} levels below) has {:?}", slot_name(*slot), v, b.chains[k].iter().position(|x| x == decl).unwrap(), got);
            }
        }
    }
    // (3) values of the defaults place become defaults under the canonical name (unless a patch overrides them)
    for (class, slot, v) in &place_expect {
        let overridden = patch_defaults.iter().any(|(d, s_, _)| s_ == slot && b.chains[*class].contains(d));
        if overridden {
            continue;
        }
        let got = db.classes[format!("K{class}").as_str()].default_properties.get(slot_name(*slot).as_str()).map(|x| GVal::from_variant(x, &|_| GRef::None));
        ensure!(got.as_ref() == Some(v), "db:regen:place-default-lost", "defaults place gives K{class}.{} = {:?}; the database has {:?}", slot_name(*slot), v, got);
    }
    // (4) and it works: the lookup API and a write/read through both codecs
    let names: Vec<String> = (0..n).map(|i| format!("K{i}")).collect();
    for name in &names {
        api_agrees(&db, name, &names)?;
    }
    Ok(())
}

fn regen_strategy() -> BoxedStrategy<RegenCase> {
    (
        gen_db_strategy(),
        proptest::collection::vec((any::<u16>(), proptest::collection::vec((any::<u16>(), 1u64..1000), 0..4), prop_oneof![2 => Just(0u8), 1 => 1u8..3]), 0..6),
        proptest::collection::vec((any::<u16>(), any::<u16>(), 1u64..1000), 0..4),
        prop_oneof![2 => Just(None), 2 => Just(Some(None)), 2 => any::<u16>().prop_map(|k| Some(Some(k)))],
    )
        .prop_map(|(db, place, default_patches, links)| RegenCase { db, place, default_patches, links_from_patches: links })
        .boxed()
}

/// patches/*.yml against the bundled database: what each patch asks for is what the database holds.
fn patches_agree(db: &ReflectionDatabase) -> Vec<(String, String)> {
    let mut out = Vec::new();
    let dir = std::path::Path::new("/repo/patches");
    let Ok(rd) = std::fs::read_dir(dir) else { return vec![("harness:patches-unreadable".into(), "cannot list /repo/patches".into())] };
    let mut files: Vec<_> = rd.filter_map(|e| e.ok()).map(|e| e.path()).collect();
    files.sort();
    let s = |v: &serde_yaml::Value, k: &str| v.get(k).and_then(|x| x.as_str()).map(|x| x.to_string());
    for path in files {
        let Ok(text) = std::fs::read_to_string(&path) else { continue };
        let doc: serde_yaml::Value = match serde_yaml::from_str(&text) {
            Ok(d) => d,
            Err(e) => {
                out.push(("db:patches:unparsable".into(), format!("{}: {e}", path.display())));
                continue;
            }
        };
        let Some(change) = doc.get("Change").and_then(|c| c.as_mapping()) else { continue };
        for (cname, props) in change {
            let (Some(cname), Some(props)) = (cname.as_str(), props.as_mapping()) else { continue };
            let Some(class) = db.classes.get(cname) else {
                out.push(("db:patches:class-missing".into(), format!("{}: class {cname} is not in the database", path.display())));
                continue;
            };
            for (pname, ch) in props {
                let Some(pname) = pname.as_str() else { continue };
                let Some(desc) = class.properties.get(pname) else {
                    out.push(("db:patches:property-missing".into(), format!("{cname}.{pname} is patched but not in the database")));
                    continue;
                };
                if let Some(alias) = s(ch, "AliasFor") {
                    if !matches!(&desc.kind, PropertyKind::Alias { alias_for } if alias_for.as_ref() == alias) {
                        out.push(("db:patches:alias".into(), format!("{cname}.{pname}: patch says AliasFor {alias}, database has {:?}", desc.kind)));
                    }
                }
                if let Some(ser) = ch.get("Serialization") {
                    let want = s(ser, "Type").unwrap_or_default();
                    let ok = match (&desc.kind, want.as_str()) {
                        (PropertyKind::Canonical { serialization: PropertySerialization::Serializes }, "Serializes") => true,
                        (PropertyKind::Canonical { serialization: PropertySerialization::DoesNotSerialize }, "DoesNotSerialize") => true,
                        (PropertyKind::Canonical { serialization: PropertySerialization::SerializesAs(a) }, "SerializesAs") => Some(a.to_string()) == s(ser, "As"),
                        (PropertyKind::Canonical { serialization: PropertySerialization::Migrate(m) }, "Migrate") => Some(m.new_property_name.clone()) == s(ser, "To"),
                        _ => false,
                    };
                    if !ok {
                        out.push(("db:patches:serialization".into(), format!("{cname}.{pname}: patch says {:?}, database has {:?}", ser, desc.kind)));
                    }
                }
                if let Some(dv) = ch.get("DefaultValue") {
                    if let Ok(v) = serde_yaml::from_value::<Variant>(dv.clone()) {
                        let want = GVal::from_variant(&v, &|_| GRef::None);
                        // the patch value is inserted last, into the class and everything below it
                        for (other, od) in &db.classes {
                            let below = dbview::chain(db, other).map(|ch| ch.iter().any(|k| k.name == cname)).unwrap_or(false);
                            if below {
                                let got = od.default_properties.get(pname).map(|x| GVal::from_variant(x, &|_| GRef::None));
                                if got.as_ref() != Some(&want) {
                                    out.push(("db:patches:default".into(), format!("{cname}.{pname}: patch DefaultValue {:?}, class {other} has {:?}", want, got)));
                                }
                            }
                        }
                    }
                }
            }
        }
    }
    out
}

// ---------------------------------------------------------------------------
// a database written out and loaded again (what regenerating database.msgpack / database.json does)

fn same_database(a: &ReflectionDatabase, b: &ReflectionDatabase) -> Result<(), String> {
    if a.classes.len() != b.classes.len() {
        return Err(format!("{} classes became {}", a.classes.len(), b.classes.len()));
    }
    for (name, ca) in &a.classes {
        let Some(cb) = b.classes.get(name) else { return Err(format!("class {name} is gone")) };
        if ca.superclass != cb.superclass || ca.name != cb.name {
            return Err(format!("class {name}: name / superclass changed"));
        }
        if format!("{:?}", { let mut t: Vec<_> = ca.tags.iter().map(|t| format!("{t:?}")).collect(); t.sort(); t }) != format!("{:?}", { let mut t: Vec<_> = cb.tags.iter().map(|t| format!("{t:?}")).collect(); t.sort(); t }) {
            return Err(format!("class {name}: tags changed"));
        }
        if ca.properties.len() != cb.properties.len() {
            let lost: Vec<&str> = ca.properties.keys().filter(|k| !cb.properties.contains_key(*k)).map(|k| k.as_ref()).take(5).collect();
            return Err(format!("class {name}: {} property descriptors became {} (lost: {:?})", ca.properties.len(), cb.properties.len(), lost));
        }
        for (pn, pa) in &ca.properties {
            let Some(pb) = cb.properties.get(pn) else { return Err(format!("{name}.{pn} is gone")) };
            let show = |p: &rbx_reflection::PropertyDescriptor| {
                let mut tags: Vec<String> = p.tags.iter().map(|t| format!("{t:?}")).collect();
                tags.sort();
                format!("{} {:?} {:?} {:?} {:?}", p.name, p.scriptability, p.data_type, p.kind, tags)
            };
            if show(pa) != show(pb) {
                return Err(format!("{name}.{pn}: {} became {}", show(pa), show(pb)));
            }
        }
        if ca.default_properties.len() != cb.default_properties.len() {
            return Err(format!("class {name}: {} defaults became {}", ca.default_properties.len(), cb.default_properties.len()));
        }
        for (dn, da) in &ca.default_properties {
            let Some(dbv) = cb.default_properties.get(dn) else { return Err(format!("default {name}.{dn} is gone")) };
            if GVal::from_variant(da, &|_| GRef::None) != GVal::from_variant(dbv, &|_| GRef::None) {
                return Err(format!("default {name}.{dn}: {da:?} became {dbv:?}"));
            }
        }
    }
    if a.enums.len() != b.enums.len() {
        return Err(format!("{} enums became {}", a.enums.len(), b.enums.len()));
    }
    for (en, ea) in &a.enums {
        let Some(eb) = b.enums.get(en) else { return Err(format!("enum {en} is gone")) };
        if ea.items.len() != eb.items.len() || ea.items.iter().any(|(k, v)| eb.items.get(k) != Some(v)) {
            return Err(format!("enum {en}: items changed"));
        }
    }
    Ok(())
}

fn reserialize(db: &ReflectionDatabase<'static>) -> Result<(), Fail> {
    // MessagePack as rbx_reflector writes it (named fields), compact MessagePack, and JSON
    let named = no_panic("rmp_serde::to_vec_named(database)", || rmp_serde::to_vec_named(db))?.map_err(|e| Fail::new("db:reserialize:msgpack-write", e.to_string()))?;
    let back: ReflectionDatabase<'static> = no_panic("rmp_serde::from_slice(database)", || rmp_serde::from_slice(&named))?.map_err(|e| Fail::new("db:reserialize:msgpack-read", e.to_string()))?;
    same_database(db, &back).map_err(|e| Fail::new("db:reserialize:msgpack", format!("database written as MessagePack and read back: {e}")))?;
    // JSON has no non-finite numbers: the JSON round trip is made without the defaults that hold one
    let mut a = db.clone();
    for c in a.classes.values_mut() {
        c.default_properties.retain(|_, v| !GVal::from_variant(v, &|_| GRef::None).has_nonfinite());
    }
    let json = no_panic("serde_json::to_vec(database)", || serde_json::to_vec(&a))?.map_err(|e| Fail::new("db:reserialize:json-write", e.to_string()))?;
    let back: ReflectionDatabase<'static> = no_panic("serde_json::from_slice(database)", || serde_json::from_slice(&json))?.map_err(|e| Fail::new("db:reserialize:json-read", e.to_string()))?;
    same_database(&a, &back).map_err(|e| Fail::new("db:reserialize:json", format!("database written as JSON and read back: {e}")))?;
    Ok(())
}

// ---------------------------------------------------------------------------
// the database's own lookup API against an independent walk

#[derive(Clone, Debug, Serialize, Deserialize)]
pub struct ApiCase {
    pub class: String,
}

/// `superclasses`, `superclasses_iter`, `has_superclass` and `find_default_property` of `db`
/// compared with a plain walk over the `superclass` names.
fn api_agrees(db: &ReflectionDatabase, class: &str, all_names: &[String]) -> Result<(), Fail> {
    let desc = &db.classes[class];
    // own walk
    let mut chain: Vec<&str> = vec![class];
    let mut cur = desc;
    while let Some(s) = &cur.superclass {
        let Some(next) = db.classes.get(s.as_ref()) else { break };
        if chain.len() > 200 {
            break;
        }
        chain.push(next.name.as_ref());
        cur = next;
    }
    let via_vec: Vec<String> = no_panic("ReflectionDatabase::superclasses", || db.superclasses(desc))?
        .map(|v| v.iter().map(|c| c.name.to_string()).collect())
        .unwrap_or_default();
    ensure!(
        via_vec.iter().map(|s| s.as_str()).collect::<Vec<_>>() == chain,
        "db:api:superclasses",
        "superclasses({class}) = {:?}, the superclass links give {:?}",
        via_vec,
        chain
    );
    let via_iter: Vec<String> = no_panic("ReflectionDatabase::superclasses_iter", || db.superclasses_iter(desc).map(|c| c.name.to_string()).collect())?;
    ensure!(
        via_iter.iter().map(|s| s.as_str()).collect::<Vec<_>>() == chain,
        "db:api:superclasses_iter",
        "superclasses_iter({class}) = {:?}, the superclass links give {:?}",
        via_iter,
        chain
    );
    ensure!(
        db.classes[*chain.last().unwrap()].superclass.is_none(),
        "db:api:chain-does-not-end-at-a-root",
        "chain of {class} stops at {} which has a superclass",
        chain.last().unwrap()
    );
    for other in all_names {
        let want = chain.contains(&other.as_str());
        let got = no_panic("ReflectionDatabase::has_superclass", || db.has_superclass(desc, &db.classes[other.as_str()]))?;
        ensure!(got == want, "db:api:has_superclass", "has_superclass({class}, {other}) = {got}, the superclass links say {want}");
    }
    let mut names: HashSet<&str> = HashSet::new();
    for c in &chain {
        names.extend(db.classes[*c].default_properties.keys().map(|k| k.as_ref()));
        names.extend(db.classes[*c].properties.keys().map(|k| k.as_ref()));
    }
    names.insert("ZzNoSuchProperty");
    for name in names {
        let want = chain.iter().find_map(|c| db.classes[*c].default_properties.get(name));
        let got = no_panic("ReflectionDatabase::find_default_property", || db.find_default_property(desc, name))?;
        let same = match (want, got) {
            (None, None) => true,
            (Some(a), Some(b)) => GVal::from_variant(a, &|_| GRef::None) == GVal::from_variant(b, &|_| GRef::None),
            _ => false,
        };
        ensure!(same, "db:api:find_default_property", "find_default_property({class}, {name}) = {:?}, nearest default along the chain is {:?}", got, want);
    }
    Ok(())
}

fn api_body(c: &ApiCase, ctx: &mut CaseCtx) -> PropResult {
    let db = dbview::db();
    let all = dbview::all_class_names();
    let depth = dbview::chain(db, &c.class).map(|v| v.len()).unwrap_or(0);
    ctx.nontrivial_if(depth >= 2);
    ctx.label(if depth >= 7 { "chain>=7" } else if depth >= 4 { "chain4-6" } else { "chain<4" });
    ctx.add_evals(all.len() as u64);
    api_agrees(db, &c.class, &all)
}

// ---------------------------------------------------------------------------
// generated databases ("any database regenerated from a newer dump"): coherent by construction,
// deeper and differently shaped than the bundled one

#[derive(Clone, Debug, Serialize, Deserialize)]
pub struct GenClass {
    /// index of the superclass among the earlier classes (None = a root)
    pub parent: Option<usize>,
    /// property slots this class declares (if no ancestor declares them): (slot, has alias, serializes through the alias)
    pub declares: Vec<(u8, bool, bool)>,
    /// defaults this class sets: (slot, value seed) - kept only for visible properties
    pub defaults: Vec<(u8, u64)>,
}

#[derive(Clone, Debug, Serialize, Deserialize)]
pub struct GenDb {
    pub classes: Vec<GenClass>,
    pub target_sel: u16,
    pub slot_sel: u16,
    pub value_seed: u64,
}

const SLOT_TYPES: [VariantType; 6] = [VariantType::Bool, VariantType::Int32, VariantType::String, VariantType::Float32, VariantType::Vector3, VariantType::Int64];

fn slot_name(s: u8) -> String {
    format!("Prop{s}")
}

fn slot_value(s: u8, seed: u64) -> GVal {
    // plain finite values: this check is about lookups, not about value encodings (C01/C02)
    let k = (seed % 100_000) as i64 - 500;
    match SLOT_TYPES[s as usize % 6] {
        VariantType::Bool => GVal::Bool(seed % 2 == 1),
        VariantType::Int32 => GVal::Int32(k as i32),
        VariantType::String => GVal::String(format!("v{k}")),
        VariantType::Float32 => GVal::Float32((k as f32 * 0.25).to_bits()),
        VariantType::Vector3 => GVal::Vector3([(k as f32).to_bits(), 1.5f32.to_bits(), (-(k as f32) * 0.5).to_bits()]),
        _ => GVal::Int64(k * 1_000_003),
    }
}

fn gen_db_strategy() -> BoxedStrategy<GenDb> {
    let class = |i: usize| {
        (
            any::<u16>(),
            0u8..10,
            proptest::collection::vec((0u8..6, any::<bool>(), any::<bool>()), 0..3),
            proptest::collection::vec((0u8..6, 1u64..1000), 0..3),
        )
            .prop_map(move |(psel, shape, declares, defaults)| GenClass {
                parent: if i == 0 {
                    None
                } else if shape < 7 {
                    // chain-shaped: deep hierarchies are the point
                    Some(i - 1)
                } else if shape == 9 && i > 3 {
                    None
                } else {
                    Some((psel as usize * i) >> 16)
                },
                declares,
                defaults,
            })
    };
    (2usize..24)
        .prop_flat_map(move |n| ((0..n).map(class).collect::<Vec<_>>(), any::<u16>(), any::<u16>(), 1u64..100_000))
        .prop_map(|(classes, target_sel, slot_sel, value_seed)| GenDb { classes, target_sel, slot_sel, value_seed })
        .boxed()
}

struct BuiltDb {
    db: ReflectionDatabase<'static>,
    /// per class: chain of class indices (self first)
    chains: Vec<Vec<usize>>,
    /// per class: slots visible (declared by itself or an ancestor)
    visible: Vec<Vec<u8>>,
}

fn build_db(g: &GenDb) -> BuiltDb {
    use rbx_reflection::{ClassDescriptor, PropertyDescriptor};
    let n = g.classes.len();
    let mut chains: Vec<Vec<usize>> = Vec::new();
    for i in 0..n {
        let mut c = vec![i];
        let mut cur = i;
        while let Some(p) = g.classes[cur].parent {
            c.push(p);
            cur = p;
        }
        chains.push(c);
    }
    let mut declared_here: Vec<Vec<(u8, bool, bool)>> = vec![vec![]; n];
    let mut visible: Vec<Vec<u8>> = vec![vec![]; n];
    for i in 0..n {
        let inherited: Vec<u8> = g.classes[i].parent.map(|p| visible[p].clone()).unwrap_or_default();
        let mut vis = inherited.clone();
        for (slot, alias, through) in &g.classes[i].declares {
            if !vis.contains(slot) {
                vis.push(*slot);
                declared_here[i].push((*slot, *alias, *through));
            }
        }
        visible[i] = vis;
    }
    let mut db = ReflectionDatabase::new();
    for i in 0..n {
        let mut cd = ClassDescriptor::new(format!("K{i}"));
        cd.superclass = g.classes[i].parent.map(|p| format!("K{p}").into());
        for (slot, alias, through) in &declared_here[i] {
            let name = slot_name(*slot);
            let ty = DataType::Value(SLOT_TYPES[*slot as usize % 6]);
            let mut pd = PropertyDescriptor::new(name.clone(), ty.clone());
            let alias_name = format!("prop{slot}_xml");
            if *alias {
                let mut ad = PropertyDescriptor::new(alias_name.clone(), ty);
                ad.kind = PropertyKind::Alias { alias_for: name.clone().into() };
                cd.properties.insert(alias_name.clone().into(), ad);
                if *through {
                    pd.kind = PropertyKind::Canonical { serialization: PropertySerialization::SerializesAs(alias_name.into()) };
                }
            }
            cd.properties.insert(name.into(), pd);
        }
        for (slot, seed) in &g.classes[i].defaults {
            if visible[i].contains(slot) {
                cd.default_properties.insert(slot_name(*slot).into(), slot_value(*slot, *seed).to_variant(&|_| rbx_types::Ref::none(), rbx_types::Ref::none()));
            }
        }
        db.classes.insert(format!("K{i}").into(), cd);
    }
    BuiltDb { db, chains, visible }
}

fn gen_db_body(g: &GenDb, ctx: &mut CaseCtx) -> PropResult {
    let b = build_db(g);
    let n = g.classes.len();
    let depth = b.chains.iter().map(|c| c.len()).max().unwrap_or(0);
    ctx.label(if depth >= 8 { "depth>=8" } else if depth >= 5 { "depth5-7" } else { "depth<5" });
    // the generator's output is coherent: the coherence walk must agree (guards the generator itself)
    let problems = coherence(&b.db);
    ensure!(problems.is_empty(), "harness:generated-db-incoherent", "{:?}", problems.iter().take(3).collect::<Vec<_>>());
    // (0) written out and read back, it is the same database
    reserialize(&b.db)?;
    // (a) lookup API
    let names: Vec<String> = (0..n).map(|i| format!("K{i}")).collect();
    for name in &names {
        api_agrees(&b.db, name, &names)?;
    }
    // (b) both codecs on this database: a class deep in a chain, one property visible there
    let order: Vec<usize> = {
        let mut o: Vec<usize> = (0..n).filter(|i| !b.visible[*i].is_empty()).collect();
        o.sort_by_key(|i| std::cmp::Reverse(b.chains[*i].len()));
        o
    };
    if order.is_empty() {
        ctx.excluded("no class with a property");
        return Ok(());
    }
    let t = order[(g.target_sel as usize * order.len().min(4)) >> 16];
    let slot = b.visible[t][(g.slot_sel as usize * b.visible[t].len()) >> 16];
    let pname = slot_name(slot);
    let class = format!("K{t}");
    let set_val = slot_value(slot, g.value_seed.wrapping_mul(2654435761) | 1 << 40);
    let want_default: Option<GVal> = b.chains[t]
        .iter()
        .find_map(|c| g.classes[*c].defaults.iter().rev().find(|(s, _)| *s == slot && b.visible[*c].contains(s)).map(|(s, seed)| slot_value(*s, *seed)));
    ctx.label_if(want_default.is_some(), "inherited_or_own_default_exists");
    ctx.label_if(b.chains[t].len() >= 7, "target_chain>=7");
    ctx.nontrivial_if(b.chains[t].len() >= 3);
    let f = GForest {
        nodes: vec![
            GNode { parent: None, class: class.clone(), name: "sets".into(), props: vec![(pname.clone(), set_val.clone())] },
            GNode { parent: None, class: class.clone(), name: "lacks".into(), props: vec![] },
        ],
        roots: vec![0, 1],
    };
    let built = forest::build(&f, BuildMode::Builder, None);
    let roots = built.root_refs(&f);
    // binary
    let mut bytes = Vec::new();
    let w = no_panic("rbx_binary serializer (generated database)", || {
        rbx_binary::Serializer::new().reflection_database(&b.db).serialize(&mut bytes, &built.dom, &roots)
    })?;
    if let Err(e) = w {
        fail!("db:generated:binary-write", "binary serializer rejects a {class} with {pname} under a coherent generated database: {e}");
    }
    let dom = no_panic("rbx_binary deserializer (generated database)", || rbx_binary::Deserializer::new().reflection_database(&b.db).deserialize(bytes.as_slice()))?
        .map_err(|e| Fail::new("db:generated:binary-read", format!("binary reader rejects its own file under a coherent generated database: {e}")))?;
    let seen = forest::observe(&dom);
    ensure!(seen.roots.len() == 2, "db:generated:binary-shape", "{} instances came back", seen.roots.len());
    ensure!(
        seen.roots[0].props.get(&pname) == Some(&set_val),
        "db:generated:binary-value",
        "{class}.{pname} = {:?} came back as {:?} (all properties: {:?})",
        set_val,
        seen.roots[0].props.get(&pname),
        seen.roots[0].props.keys().collect::<Vec<_>>()
    );
    if let Some(d) = &want_default {
        ensure!(
            seen.roots[1].props.get(&pname) == Some(d),
            "db:generated:binary-default",
            "a {class} without {pname} reads back {:?}; the nearest default along its chain ({} classes) is {:?}",
            seen.roots[1].props.get(&pname),
            b.chains[t].len(),
            d
        );
    }
    // XML
    let mut text = Vec::new();
    let w = no_panic("rbx_xml serializer (generated database)", || {
        rbx_xml::to_writer(&mut text, &built.dom, &roots, rbx_xml::EncodeOptions::new().reflection_database(&b.db))
    })?;
    if let Err(e) = w {
        fail!("db:generated:xml-write", "XML serializer rejects a {class} with {pname} under a coherent generated database: {e}");
    }
    let dom = no_panic("rbx_xml deserializer (generated database)", || rbx_xml::from_reader(text.as_slice(), rbx_xml::DecodeOptions::new().reflection_database(&b.db)))?
        .map_err(|e| Fail::new("db:generated:xml-read", format!("XML reader rejects its own file under a coherent generated database: {e}")))?;
    let seen = forest::observe(&dom);
    ensure!(seen.roots.len() == 2, "db:generated:xml-shape", "{} instances came back", seen.roots.len());
    ensure!(
        seen.roots[0].props.get(&pname) == Some(&set_val),
        "db:generated:xml-value",
        "{class}.{pname} = {:?} came back from XML as {:?} (all properties: {:?})",
        set_val,
        seen.roots[0].props.get(&pname),
        seen.roots[0].props.keys().collect::<Vec<_>>()
    );
    ctx.add_evals(n as u64);
    Ok(())
}

pub fn run(ctx: &Ctx) -> PropertyReport {
    let mut rep = PropertyReport::new(
        "C16",
        "exploration",
        "exhaustive walk over the reflection database compiled into rbx_reflection_database from the current working tree: superclass chains, aliases, serializes-as and migration targets, \
         enum references, defaults (known property, declared / serialized / documented-convertible type); every (class, property) driven through both codecs with a one-property instance \
         (no panic; the harness resolver's serialized name is the column name in the file); per class an instance populated with exactly its (inherited) defaults written and read back unchanged \
         by both formats; rbx_dom_lua/src/database.json compared with the msgpack database. The lookup API of rbx_reflection (superclasses, superclasses_iter, has_superclass, find_default_property) is compared with an own walk for every class. Generated part: (1) random coherent \
         databases of 2-23 classes with chains up to 23 deep, aliases, serializes-as links and defaults at random levels - same API comparison, and a deep class written and read by both codecs under \
         that database (own value kept, lacking instance gets the nearest default); (2) random single corruptions of a cloned database must each be detected. \
         Non-trivial = a class with defaults / a property lookup / a corruption that applies.",
    );
    rep.assume("a database regenerated by rbx_reflector from a newer dump cannot be produced offline; the check is database-agnostic and exhaustive over whatever database the tree contains, and random coherent databases stand in for future ones");
    let db = dbview::db();
    let sub = crate::engine::replay_subcheck_or_all(ctx);
    if sub.runs("coherence") {
        let start = std::time::Instant::now();
        let mut r = SubReport::new("coherence");
        r.exhaustive = true;
        let issues = coherence(db);
        let n_desc: usize = db.classes.values().map(|c| c.properties.len()).sum();
        let n_def: usize = db.classes.values().map(|c| c.default_properties.len()).sum();
        r.evaluations = (db.classes.len() + n_desc + n_def + db.enums.len()) as u64;
        r.distinct_nontrivial = r.evaluations;
        r.samples.push(serde_json::json!({"classes": db.classes.len(), "descriptors": n_desc, "defaults": n_def, "enums": db.enums.len(), "version": db.version}));
        let mut kinds = HashSet::new();
        for (k, m) in issues {
            if kinds.insert(k.clone()) {
                let path = crate::engine::write_replay("C16", "coherence", &serde_json::json!({"kind": k, "what": m}), &format!("db:{k}"), &m);
                r.failures.push(crate::engine::Failure { key: format!("db:{k}"), msg: m, replay: Some(path) });
            }
        }
        // the Lua copy of the database
        match std::fs::read_to_string("/repo/rbx_dom_lua/src/database.json") {
            Ok(text) => match serde_json::from_str::<serde_json::Value>(&text) {
                Ok(lua) => {
                    // database.json is the same serde model written as JSON (non-finite floats
                    // become null, f32 are printed in their shortest form): compare the value trees
                    let ours = serde_json::to_value(db).unwrap_or(serde_json::Value::Null);
                    r.evaluations += 1;
                    if let Err(where_) = json_equal(&lua, &ours, "$") {
                        let m = format!("rbx_dom_lua/src/database.json differs from rbx_reflection_database/database.msgpack at {where_}");
                        let path = crate::engine::write_replay("C16", "coherence", &serde_json::json!({"kind": "lua-database"}), "db:lua-database-differs", &m);
                        r.failures.push(crate::engine::Failure { key: "db:lua-database-differs".into(), msg: m, replay: Some(path) });
                    }
                }
                Err(e) => r.inconclusive.push(format!("database.json does not parse: {e}")),
            },
            Err(e) => r.inconclusive.push(format!("cannot read database.json: {e}")),
        }
        r.wall_s = start.elapsed().as_secs_f64();
        rep.push(r);
    }
    if sub.runs("lookups") {
        let mut cases = Vec::new();
        if ctx.cfg.replay.is_none() {
            for class in dbview::all_class_names() {
                let mut names: Vec<String> = db.classes[class.as_str()].properties.keys().map(|k| k.to_string()).collect();
                names.sort();
                for prop in names {
                    cases.push(LookupCase { class: class.clone(), prop });
                }
            }
        }
        rep.push(ctx.run_list("lookups", cases, true, lookup_body));
    }
    if sub.runs("patches-vs-database") {
        let start = std::time::Instant::now();
        let mut r = SubReport::new("patches-vs-database");
        r.exhaustive = true;
        let problems = patches_agree(db);
        r.evaluations = std::fs::read_dir("/repo/patches").map(|d| d.count() as u64).unwrap_or(0);
        r.distinct_nontrivial = r.evaluations;
        r.notes.push("every AliasFor / Serialization / DefaultValue entry of patches/*.yml compared with what the bundled database holds for that property (DefaultValue: for the class and every class below it)".into());
        // Reported, not judged: the statement is about the database; a patch edited ahead of the next
        // regeneration is an ordinary intermediate state of the repository, not an incoherent database.
        // (What the patches *do* is judged by the regeneration sub-check on generated inputs.)
        r.notes.push(format!("{} disagreement(s) between patches/ and the bundled database", problems.len()));
        for (key, msg) in problems.iter().take(10) {
            r.notes.push(format!("[{key}] {msg}"));
        }
        *r.labels.entry(if problems.is_empty() { "patches_agree_with_database".to_string() } else { "patches_disagree_with_database".to_string() }).or_default() += 1;
        r.wall_s = start.elapsed().as_secs_f64();
        rep.push(r);
    }
    if sub.runs("regeneration") {
        let cases = ctx.cfg.cases(6_000, 1_000_000);
        let mut r = ctx.run_prop("regeneration", cases, regen_strategy, regen_body);
        r.floor("place_has_properties_the_database_does_not_know", cases / 10);
        r.floor("default_value_patch", cases / 10);
        r.floor("links_come_from_patches", cases / 10);
        r.floor("stale_patch_entry", cases / 20);
        rep.push(r);
    }
    if sub.runs("reserialize") {
        let start = std::time::Instant::now();
        let mut r = SubReport::new("reserialize");
        r.exhaustive = true;
        r.evaluations = (db.classes.len() + db.enums.len()) as u64;
        r.distinct_nontrivial = r.evaluations;
        r.notes.push("the bundled database is written out as MessagePack (named fields, as rbx_reflector does) and as JSON, read back, and compared class by class, descriptor by descriptor, default by default, enum by enum".into());
        if let Err(f) = reserialize(db) {
            let replay = crate::engine::write_replay("C16", "reserialize", &serde_json::json!({}), &f.key, &f.msg);
            r.failures.push(crate::engine::Failure { key: f.key, msg: f.msg, replay: Some(replay) });
        }
        r.wall_s = start.elapsed().as_secs_f64();
        rep.push(r);
    }
    if sub.runs("api-walk") {
        let cases: Vec<ApiCase> = if ctx.cfg.replay.is_some() { vec![] } else { dbview::all_class_names().into_iter().map(|class| ApiCase { class }).collect() };
        let mut r = ctx.run_list("api-walk", cases, true, api_body);
        r.notes.push("superclasses / superclasses_iter / has_superclass (against every class) / find_default_property (every visible name) of rbx_reflection compared with an own walk over the superclass links".into());
        rep.push(r);
    }
    if sub.runs("generated-databases") {
        let cases = ctx.cfg.cases(60_000, 6_000_000);
        let mut r = ctx.run_prop("generated-databases", cases, gen_db_strategy, gen_db_body);
        r.floor("depth>=8", cases / 20);
        r.floor("target_chain>=7", cases / 20);
        r.floor("inherited_or_own_default_exists", cases / 20);
        rep.push(r);
    }
    if sub.runs("class-defaults") {
        let cases: Vec<ClassCase> = if ctx.cfg.replay.is_some() { vec![] } else { dbview::all_class_names().into_iter().map(|class| ClassCase { class }).collect() };
        rep.push(ctx.run_list("class-defaults", cases, true, class_body));
    }
    if sub.runs("corruption-self-test") {
        let cases = ctx.cfg.cases(400, 100_000);
        let strat = || (0u8..7, any::<u16>(), any::<u16>()).prop_map(|(kind, class_sel, prop_sel)| Corruption { kind, class_sel, prop_sel });
        let mut r = ctx.run_prop("corruption-self-test", cases, strat, corruption_body);
        for l in ["dangling_alias", "missing_superclass", "wrong_default_type", "dangling_serializes_as", "unknown_enum", "default_for_unknown_property", "superclass_cycle"] {
            r.floor(l, cases / 40);
        }
        rep.push(r);
    }
    rep
}
