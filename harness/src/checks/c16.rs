//! C16 — the bundled reflection database is coherent and closed under both codecs.

use std::collections::HashSet;

use proptest::prelude::*;
use rbx_reflection::{DataType, PropertyKind, PropertySerialization, ReflectionDatabase};
use rbx_types::{Variant, VariantType};
use serde::{Deserialize, Serialize};

use crate::dbview;
use crate::engine::{no_panic, CaseCtx, Ctx, Fail, PropResult, PropertyReport, SubReport};
use crate::gen::forest::{self, BuildMode, GForest, GNode};
use crate::gen::vals::{GRef, GVal, ValProfile};
use crate::oracle::{self, Format, Norm};
use crate::{ensure, fail};

/// Types a default of declared type `decl` may legitimately carry besides `decl` itself:
/// the serialized type, and what the codecs document as convertible.
fn type_ok(default: VariantType, declared: VariantType, serialized: Option<VariantType>) -> bool {
    default == declared
        || Some(default) == serialized
        || matches!(
            (default, declared),
            (VariantType::Int32, VariantType::Int64)
                | (VariantType::Float32, VariantType::Float64)
                | (VariantType::BinaryString, VariantType::Tags)
                | (VariantType::BinaryString, VariantType::Attributes)
                | (VariantType::BinaryString, VariantType::MaterialColors)
                | (VariantType::Color3, VariantType::Color3uint8)
        )
}

fn data_ty(d: &DataType) -> Option<VariantType> {
    match d {
        DataType::Value(v) => Some(*v),
        DataType::Enum(_) => Some(VariantType::Enum),
        _ => None,
    }
}

/// Every incoherence of `db`, as (kind, description). Works on any database value
/// (the bundled one, or a corrupted clone in the self-test).
pub fn coherence(db: &ReflectionDatabase) -> Vec<(String, String)> {
    let mut out = Vec::new();
    let mut push = |k: &str, m: String| out.push((k.to_string(), m));
    for (cname, class) in &db.classes {
        if class.name != *cname {
            push("class-key", format!("class stored under {cname} is named {}", class.name));
        }
        // superclass chain resolves, is acyclic, ends at a root
        let mut seen = HashSet::new();
        let mut cur = class;
        loop {
            if !seen.insert(cur.name.to_string()) {
                push("superclass-cycle", format!("{cname}: superclass chain cycles at {}", cur.name));
                break;
            }
            match &cur.superclass {
                None => break,
                Some(s) => match db.classes.get(s.as_ref()) {
                    Some(c) => cur = c,
                    None => {
                        push("superclass-dangling", format!("{cname}: superclass {s} of {} does not exist", cur.name));
                        break;
                    }
                },
            }
        }
        let lookup = |name: &str| -> Option<&rbx_reflection::PropertyDescriptor> {
            let mut cur = class;
            let mut steps = 0;
            loop {
                if let Some(p) = cur.properties.get(name) {
                    return Some(p);
                }
                steps += 1;
                if steps > 64 {
                    return None;
                }
                cur = db.classes.get(cur.superclass.as_ref()?.as_ref())?;
            }
        };
        for (pname, prop) in &class.properties {
            if prop.name != *pname {
                push("property-key", format!("{cname}.{pname} is named {}", prop.name));
            }
            if let DataType::Enum(e) = &prop.data_type {
                if !db.enums.contains_key(e.as_ref()) {
                    push("enum-dangling", format!("{cname}.{pname}: enum {e} does not exist"));
                }
            }
            match &prop.kind {
                PropertyKind::Alias { alias_for } => match class.properties.get(alias_for.as_ref()) {
                    None => push("alias-dangling", format!("{cname}.{pname}: alias for {alias_for}, which {cname} does not declare")),
                    Some(t) => {
                        if !matches!(t.kind, PropertyKind::Canonical { .. }) {
                            push("alias-of-alias", format!("{cname}.{pname}: alias for {alias_for}, which is not canonical"));
                        }
                    }
                },
                PropertyKind::Canonical { serialization } => match serialization {
                    PropertySerialization::SerializesAs(target) => match class.properties.get(target.as_ref()) {
                        None => push("serializes-as-dangling", format!("{cname}.{pname}: serializes as {target}, which {cname} does not declare")),
                        Some(t) => {
                            // the target must lead back to something that serializes
                            let back = match &t.kind {
                                PropertyKind::Canonical { serialization } => Some(serialization),
                                PropertyKind::Alias { alias_for } => class.properties.get(alias_for.as_ref()).and_then(|c| match &c.kind {
                                    PropertyKind::Canonical { serialization } => Some(serialization),
                                    _ => None,
                                }),
                                _ => None,
                            };
                            match back {
                                None => push("serializes-as-unresolvable", format!("{cname}.{pname}: target {target} does not resolve")),
                                Some(PropertySerialization::DoesNotSerialize) => {
                                    push("serializes-as-non-serializing", format!("{cname}.{pname}: target {target} does not serialize"))
                                }
                                _ => {}
                            }
                            if data_ty(&t.data_type).is_none() {
                                push("serializes-as-type", format!("{cname}.{pname}: target {target} has an unknown data type"));
                            }
                        }
                    },
                    PropertySerialization::Migrate(m) => match lookup(&m.new_property_name) {
                        None => push("migration-dangling", format!("{cname}.{pname}: migrates to {}, which {cname} does not know", m.new_property_name)),
                        Some(t) => {
                            let serializes = match &t.kind {
                                PropertyKind::Canonical { serialization } => !matches!(serialization, PropertySerialization::DoesNotSerialize),
                                PropertyKind::Alias { .. } => true,
                                _ => false,
                            };
                            if !serializes {
                                push("migration-non-serializing", format!("{cname}.{pname}: migration target {} does not serialize", m.new_property_name));
                            }
                        }
                    },
                    _ => {}
                },
                _ => push("property-kind", format!("{cname}.{pname}: unknown property kind")),
            }
        }
        for (dname, value) in &class.default_properties {
            match lookup(dname) {
                None => push("default-unknown-property", format!("{cname}: default for {dname}, which no class in the chain declares")),
                Some(desc) => {
                    // resolve to the canonical descriptor and its serialized type
                    let canonical = match &desc.kind {
                        PropertyKind::Alias { alias_for } => lookup(alias_for).unwrap_or(desc),
                        _ => desc,
                    };
                    let declared = data_ty(&canonical.data_type);
                    let serialized = match &canonical.kind {
                        PropertyKind::Canonical { serialization: PropertySerialization::SerializesAs(t) } => lookup(t).and_then(|d| data_ty(&d.data_type)),
                        _ => declared,
                    };
                    match declared {
                        Some(decl) => {
                            if !type_ok(value.ty(), decl, serialized) {
                                push(
                                    "default-type",
                                    format!("{cname}.{dname}: default is a {:?}, property is declared {:?} (serialized {:?})", value.ty(), decl, serialized),
                                );
                            }
                        }
                        None => push("default-type", format!("{cname}.{dname}: property has an unknown data type")),
                    }
                }
            }
        }
    }
    for (ename, e) in &db.enums {
        if e.name != *ename {
            push("enum-key", format!("enum stored under {ename} is named {}", e.name));
        }
    }
    out
}

/// Structural equality of two JSON trees; numbers equal if equal as integers, as f64 or as f32.
fn json_equal(a: &serde_json::Value, b: &serde_json::Value, path: &str) -> Result<(), String> {
    use serde_json::Value::*;
    match (a, b) {
        (Null, Null) => Ok(()),
        (Bool(x), Bool(y)) if x == y => Ok(()),
        (String(x), String(y)) if x == y => Ok(()),
        (Number(x), Number(y)) => {
            let same = x == y
                || x.as_f64() == y.as_f64()
                || match (x.as_f64(), y.as_f64()) {
                    (Some(p), Some(q)) => (p as f32) == (q as f32),
                    _ => false,
                };
            if same {
                Ok(())
            } else {
                Err(format!("{path}: {x} vs {y}"))
            }
        }
        (Array(x), Array(y)) => {
            if x.len() != y.len() {
                return Err(format!("{path}: array lengths {} vs {}", x.len(), y.len()));
            }
            for (i, (p, q)) in x.iter().zip(y.iter()).enumerate() {
                json_equal(p, q, &format!("{path}[{i}]"))?;
            }
            Ok(())
        }
        (Object(x), Object(y)) => {
            for k in x.keys() {
                if !y.contains_key(k) {
                    return Err(format!("{path}: key {k:?} only in database.json"));
                }
            }
            for (k, q) in y {
                match x.get(k) {
                    Some(p) => json_equal(p, q, &format!("{path}.{k}"))?,
                    None => return Err(format!("{path}: key {k:?} only in database.msgpack")),
                }
            }
            Ok(())
        }
        _ => Err(format!("{path}: {} vs {}", a.to_string().chars().take(60).collect::<std::string::String>(), b.to_string().chars().take(60).collect::<std::string::String>())),
    }
}

#[derive(Clone, Debug, Serialize, Deserialize)]
pub struct ClassCase {
    pub class: String,
}

fn defaults_forest(class: &str) -> GForest {
    // every default along the chain, nearest class wins
    let mut props: Vec<(String, GVal)> = Vec::new();
    let mut seen = HashSet::new();
    if let Some(chain) = dbview::chain(dbview::db(), class) {
        for c in chain {
            let mut names: Vec<&str> = c.default_properties.keys().map(|k| k.as_ref()).collect();
            names.sort();
            for name in names {
                if name == "Name" || !seen.insert(name.to_string()) {
                    continue;
                }
                let v = &c.default_properties[name];
                if matches!(v, Variant::Region3(_) | Variant::Region3int16(_) | Variant::EnumItem(_) | Variant::Vector2int16(_)) {
                    continue;
                }
                props.push((name.to_string(), GVal::from_variant(v, &|_| GRef::None)));
            }
        }
    }
    GForest {
        nodes: vec![GNode {
            parent: None,
            class: class.to_string(),
            name: "defaults".into(),
            props,
        }],
        roots: vec![0],
    }
}

fn no_blob(_: &GVal) -> Option<Vec<u8>> {
    None
}

fn class_body(c: &ClassCase, ctx: &mut CaseCtx) -> PropResult {
    let f = defaults_forest(&c.class);
    ctx.nontrivial_if(!f.nodes[0].props.is_empty());
    ctx.label_if(f.nodes[0].props.len() >= 10, "class_with_10_defaults");
    let built = forest::build(&f, BuildMode::Builder, None);
    let roots = built.root_refs(&f);
    // binary
    let bytes = super::c01::write_binary(&built.dom, &roots, rbx_binary::CompressionType::Lz4).map_err(|mut e| {
        e.key = format!("db:defaults-binary-write:{}", e.key);
        e.msg = format!("{}: {}", c.class, e.msg);
        e
    })?;
    let decoded = super::c01::read_binary(&bytes)?;
    let exp = oracle::expect_roundtrip(&f, Format::Binary, &no_blob);
    if let Err((k, m)) = oracle::compare_dom(&exp, &forest::observe(&decoded), &Norm::binary()) {
        fail!(format!("db:defaults-binary:{k}"), "{}: defaults do not survive the binary format: {m}", c.class);
    }
    // XML
    let text = super::c02::write_xml(&built.dom, &roots, rbx_xml::EncodeOptions::default()).map_err(|mut e| {
        e.key = format!("db:defaults-xml-write:{}", e.key);
        e.msg = format!("{}: {}", c.class, e.msg);
        e
    })?;
    let decoded = super::c02::read_xml(&text, rbx_xml::DecodeOptions::default())?;
    let exp = oracle::expect_roundtrip(&f, Format::Xml, &no_blob);
    if let Err((k, m)) = oracle::compare_dom(&exp, &forest::observe(&decoded), &Norm::xml()) {
        fail!(format!("db:defaults-xml:{k}"), "{}: defaults do not survive the XML format: {m}", c.class);
    }
    Ok(())
}

#[derive(Clone, Debug, Serialize, Deserialize)]
pub struct LookupCase {
    pub class: String,
    pub prop: String,
}

/// Drive both crates' descriptor lookups through their public API with a one-property instance.
fn lookup_body(c: &LookupCase, ctx: &mut CaseCtx) -> PropResult {
    ctx.nontrivial();
    let db = dbview::db();
    let desc = &db.classes[c.class.as_str()].properties[c.prop.as_str()];
    let ty = match &desc.data_type {
        DataType::Value(v) => *v,
        DataType::Enum(_) => VariantType::Enum,
        _ => return Ok(()),
    };
    if matches!(ty, VariantType::Region3 | VariantType::Region3int16 | VariantType::EnumItem | VariantType::Vector2int16) {
        ctx.excluded("type not implemented by the codecs");
        return Ok(());
    }
    let val = forest::value_from_seed(ty, ValProfile::xml(), 0).map_refs(&|_| GRef::None);
    let f = GForest {
        nodes: vec![GNode {
            parent: None,
            class: c.class.clone(),
            name: "x".into(),
            props: vec![(c.prop.clone(), val)],
        }],
        roots: vec![0],
    };
    let built = forest::build(&f, BuildMode::Builder, None);
    let roots = built.root_refs(&f);
    // errors are fine (a clean Err is not a failed lookup); panics are not
    let mut out = Vec::new();
    let r = no_panic("rbx_binary lookup", || rbx_binary::to_writer(&mut out, &built.dom, &roots)).map_err(|mut e| {
        e.key = format!("db:lookup-panics:{}", e.key);
        e.msg = format!("{}.{}: {}", c.class, c.prop, e.msg);
        e
    })?;
    if r.is_ok() {
        no_panic("rbx_binary lookup (read)", || rbx_binary::from_reader(out.as_slice()).map(|_| ()))?.ok();
    }
    let mut out = Vec::new();
    let r = no_panic("rbx_xml lookup", || rbx_xml::to_writer_default(&mut out, &built.dom, &roots)).map_err(|mut e| {
        e.key = format!("db:lookup-panics:{}", e.key);
        e.msg = format!("{}.{}: {}", c.class, c.prop, e.msg);
        e
    })?;
    if r.is_ok() {
        no_panic("rbx_xml lookup (read)", || rbx_xml::from_reader_default(out.as_slice()).map(|_| ()))?.ok();
    }
    // and the harness's own resolver agrees with what the binary writer did: the
    // serialized name it predicts is the name of the column in the file
    if let (Some(view), Ok(())) = (dbview::resolve(&c.class, &c.prop), r) {
        if let (Some(ser), None) = (&view.ser, view.migration) {
            let mut bin = Vec::new();
            if rbx_binary::Serializer::new()
                .compression_type(rbx_binary::CompressionType::None)
                .serialize(&mut bin, &built.dom, &roots)
                .is_ok()
            {
                if let Ok(raw) = crate::spec::refbin::parse_container(&bin) {
                    if let Ok(model) = crate::spec::refbin::decode_model(&raw, crate::spec::refbin::Dialect::implementation()) {
                        ensure!(
                            model.props.iter().any(|p| p.name == ser.name),
                            "db:resolver-disagrees",
                            "{}.{}: the harness resolver says the serialized name is {}, the file has {:?}",
                            c.class,
                            c.prop,
                            ser.name,
                            model.props.iter().map(|p| p.name.clone()).collect::<Vec<_>>()
                        );
                    }
                }
            }
        }
    }
    Ok(())
}

#[derive(Clone, Debug, Serialize, Deserialize)]
pub struct Corruption {
    pub kind: u8,
    pub class_sel: u16,
    pub prop_sel: u16,
}

fn corruption_body(c: &Corruption, ctx: &mut CaseCtx) -> PropResult {
    let mut db: ReflectionDatabase<'static> = dbview::db().clone();
    let mut names: Vec<String> = db.classes.keys().map(|k| k.to_string()).collect();
    names.sort();
    // pick a class that can carry this corruption, starting at the selected one
    let start = (c.class_sel as usize * names.len()) >> 16;
    let mut applied: Option<&'static str> = None;
    for off in 0..names.len() {
        let cname = &names[(start + off) % names.len()];
        let class = db.classes.get_mut(cname.as_str()).unwrap();
        let mut pnames: Vec<String> = class.properties.keys().map(|k| k.to_string()).collect();
        pnames.sort();
        let pick = |v: &Vec<String>| if v.is_empty() { None } else { Some(v[(c.prop_sel as usize * v.len()) >> 16].clone()) };
        match c.kind % 7 {
            0 => {
                // dangling alias
                let aliases: Vec<String> = pnames.iter().filter(|p| matches!(class.properties[p.as_str()].kind, PropertyKind::Alias { .. })).cloned().collect();
                if let Some(p) = pick(&aliases) {
                    class.properties.get_mut(p.as_str()).unwrap().kind = PropertyKind::Alias { alias_for: "ZzNoSuchProperty".into() };
                    applied = Some("dangling_alias");
                }
            }
            1 => {
                if class.superclass.is_some() {
                    class.superclass = Some("ZzNoSuchClass".into());
                    applied = Some("missing_superclass");
                }
            }
            2 => {
                // default of the wrong type
                let mut dn: Vec<String> = class.default_properties.keys().map(|k| k.to_string()).collect();
                dn.sort();
                if let Some(d) = pick(&dn) {
                    let old = class.default_properties[d.as_str()].ty();
                    let new = if old == VariantType::Ray { Variant::Axes(rbx_types::Axes::all()) } else { Variant::Ray(rbx_types::Ray::new(rbx_types::Vector3::new(0.0, 0.0, 0.0), rbx_types::Vector3::new(1.0, 0.0, 0.0))) };
                    class.default_properties.insert(d.into(), new);
                    applied = Some("wrong_default_type");
                }
            }
            3 => {
                let sa: Vec<String> = pnames
                    .iter()
                    .filter(|p| matches!(&class.properties[p.as_str()].kind, PropertyKind::Canonical { serialization: PropertySerialization::SerializesAs(_) }))
                    .cloned()
                    .collect();
                if let Some(p) = pick(&sa) {
                    class.properties.get_mut(p.as_str()).unwrap().kind = PropertyKind::Canonical { serialization: PropertySerialization::SerializesAs("ZzNoSuchProperty".into()) };
                    applied = Some("dangling_serializes_as");
                }
            }
            4 => {
                let en: Vec<String> = pnames.iter().filter(|p| matches!(class.properties[p.as_str()].data_type, DataType::Enum(_))).cloned().collect();
                if let Some(p) = pick(&en) {
                    class.properties.get_mut(p.as_str()).unwrap().data_type = DataType::Enum("ZzNoSuchEnum".into());
                    applied = Some("unknown_enum");
                }
            }
            5 => {
                // default for a property nobody declares
                class.default_properties.insert("ZzNoSuchProperty".into(), Variant::Bool(true));
                applied = Some("default_for_unknown_property");
            }
            _ => {
                // superclass cycle
                if class.superclass.is_some() {
                    class.superclass = Some(cname.clone().into());
                    applied = Some("superclass_cycle");
                }
            }
        }
        if applied.is_some() {
            break;
        }
    }
    let Some(kind) = applied else {
        ctx.excluded("no class can carry this corruption");
        return Ok(());
    };
    ctx.label(kind);
    ctx.nontrivial();
    let found = coherence(&db);
    ensure!(
        !found.is_empty(),
        format!("db:self-test-missed:{kind}"),
        "a database corrupted with '{kind}' passes the coherence check"
    );
    Ok(())
}

pub fn run(ctx: &Ctx) -> PropertyReport {
    let mut rep = PropertyReport::new(
        "C16",
        "exploration",
        "exhaustive walk over the reflection database compiled into rbx_reflection_database from the current working tree: superclass chains, aliases, serializes-as and migration targets, \
         enum references, defaults (known property, declared / serialized / documented-convertible type); every (class, property) driven through both codecs with a one-property instance \
         (no panic; the harness resolver's serialized name is the column name in the file); per class an instance populated with exactly its (inherited) defaults written and read back unchanged \
         by both formats; rbx_dom_lua/src/database.json compared with the msgpack database. Generated part: random single corruptions of a cloned database must each be detected. \
         Non-trivial = a class with defaults / a property lookup / a corruption that applies.",
    );
    rep.assume("a database regenerated by rbx_reflector from a newer dump cannot be produced offline; the check is database-agnostic and exhaustive over whatever database the tree contains");
    let db = dbview::db();
    let sub = crate::engine::replay_subcheck_or_all(ctx);
    if sub.runs("coherence") {
        let start = std::time::Instant::now();
        let mut r = SubReport::new("coherence");
        r.exhaustive = true;
        let issues = coherence(db);
        let n_desc: usize = db.classes.values().map(|c| c.properties.len()).sum();
        let n_def: usize = db.classes.values().map(|c| c.default_properties.len()).sum();
        r.evaluations = (db.classes.len() + n_desc + n_def + db.enums.len()) as u64;
        r.distinct_nontrivial = r.evaluations;
        r.samples.push(serde_json::json!({"classes": db.classes.len(), "descriptors": n_desc, "defaults": n_def, "enums": db.enums.len(), "version": db.version}));
        let mut kinds = HashSet::new();
        for (k, m) in issues {
            if kinds.insert(k.clone()) {
                let path = crate::engine::write_replay("C16", "coherence", &serde_json::json!({"kind": k, "what": m}), &format!("db:{k}"), &m);
                r.failures.push(crate::engine::Failure { key: format!("db:{k}"), msg: m, replay: Some(path) });
            }
        }
        // the Lua copy of the database
        match std::fs::read_to_string("/repo/rbx_dom_lua/src/database.json") {
            Ok(text) => match serde_json::from_str::<serde_json::Value>(&text) {
                Ok(lua) => {
                    // database.json is the same serde model written as JSON (non-finite floats
                    // become null, f32 are printed in their shortest form): compare the value trees
                    let ours = serde_json::to_value(db).unwrap_or(serde_json::Value::Null);
                    r.evaluations += 1;
                    if let Err(where_) = json_equal(&lua, &ours, "$") {
                        let m = format!("rbx_dom_lua/src/database.json differs from rbx_reflection_database/database.msgpack at {where_}");
                        let path = crate::engine::write_replay("C16", "coherence", &serde_json::json!({"kind": "lua-database"}), "db:lua-database-differs", &m);
                        r.failures.push(crate::engine::Failure { key: "db:lua-database-differs".into(), msg: m, replay: Some(path) });
                    }
                }
                Err(e) => r.inconclusive.push(format!("database.json does not parse: {e}")),
            },
            Err(e) => r.inconclusive.push(format!("cannot read database.json: {e}")),
        }
        r.wall_s = start.elapsed().as_secs_f64();
        rep.push(r);
    }
    if sub.runs("lookups") {
        let mut cases = Vec::new();
        if ctx.cfg.replay.is_none() {
            for class in dbview::all_class_names() {
                let mut names: Vec<String> = db.classes[class.as_str()].properties.keys().map(|k| k.to_string()).collect();
                names.sort();
                for prop in names {
                    cases.push(LookupCase { class: class.clone(), prop });
                }
            }
        }
        rep.push(ctx.run_list("lookups", cases, true, lookup_body));
    }
    if sub.runs("class-defaults") {
        let cases: Vec<ClassCase> = if ctx.cfg.replay.is_some() { vec![] } else { dbview::all_class_names().into_iter().map(|class| ClassCase { class }).collect() };
        rep.push(ctx.run_list("class-defaults", cases, true, class_body));
    }
    if sub.runs("corruption-self-test") {
        let cases = ctx.cfg.cases(400, 20_000);
        let strat = || (0u8..7, any::<u16>(), any::<u16>()).prop_map(|(kind, class_sel, prop_sel)| Corruption { kind, class_sel, prop_sel });
        let mut r = ctx.run_prop("corruption-self-test", cases, strat, corruption_body);
        for l in ["dangling_alias", "missing_superclass", "wrong_default_type", "dangling_serializes_as", "unknown_enum", "default_for_unknown_property", "superclass_cycle"] {
            r.floor(l, cases / 40);
        }
        rep.push(r);
    }
    rep
}
