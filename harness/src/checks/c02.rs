//! C02 — XML round trip preserves the instance forest and every value.

use proptest::prelude::*;
use rbx_xml::{DecodeOptions, DecodePropertyBehavior, EncodeOptions, EncodePropertyBehavior};
use serde::{Deserialize, Serialize};

use crate::engine::{no_panic, normalise_msg, CaseCtx, Ctx, Fail, PropResult, PropertyReport};
use crate::gen::forest::{self, BuildMode, ForestProfile, GForest};
use crate::gen::vals::{self, GVal, TextMode, ValProfile};
use crate::oracle::{self, Format, Norm};
use crate::{ensure, fail};

use super::c01::{classify_forest, strip_names};

#[derive(Clone, Copy, Debug, PartialEq, Eq, Serialize, Deserialize)]
pub enum Pairing {
    /// EncodeOptions::default + DecodeOptions::default (database-known properties)
    Default,
    /// WriteUnknown + ReadUnknown
    Unknown,
    /// NoReflection + NoReflection
    NoReflection,
}

impl Pairing {
    pub fn options(self) -> (EncodeOptions<'static>, DecodeOptions<'static>) {
        match self {
            Pairing::Default => (EncodeOptions::default(), DecodeOptions::default()),
            Pairing::Unknown => (
                EncodeOptions::new().property_behavior(EncodePropertyBehavior::WriteUnknown),
                DecodeOptions::new().property_behavior(DecodePropertyBehavior::ReadUnknown),
            ),
            Pairing::NoReflection => (
                EncodeOptions::new().property_behavior(EncodePropertyBehavior::NoReflection),
                DecodeOptions::new().property_behavior(DecodePropertyBehavior::NoReflection),
            ),
        }
    }
    /// The same options spelled through other call chains: naming the (default) bundled database
    /// explicitly, before or after the property behaviour. All variants mean the same.
    pub fn options_variant(self, v: usize) -> (EncodeOptions<'static>, DecodeOptions<'static>) {
        let db = rbx_reflection_database::get();
        let (eb, dbh) = match self {
            Pairing::Default => (EncodePropertyBehavior::IgnoreUnknown, DecodePropertyBehavior::IgnoreUnknown),
            Pairing::Unknown => (EncodePropertyBehavior::WriteUnknown, DecodePropertyBehavior::ReadUnknown),
            Pairing::NoReflection => (EncodePropertyBehavior::NoReflection, DecodePropertyBehavior::NoReflection),
        };
        match v % 3 {
            0 => self.options(),
            1 => (
                EncodeOptions::new().property_behavior(eb).reflection_database(db),
                DecodeOptions::new().property_behavior(dbh).reflection_database(db),
            ),
            _ => (
                EncodeOptions::new().reflection_database(db).property_behavior(eb),
                DecodeOptions::new().reflection_database(db).property_behavior(dbh),
            ),
        }
    }
    pub fn format(self) -> Format {
        match self {
            Pairing::NoReflection => Format::XmlNoReflection,
            _ => Format::Xml,
        }
    }
    pub fn label(self) -> &'static str {
        match self {
            Pairing::Default => "pairing_default",
            Pairing::Unknown => "pairing_write_unknown+read_unknown",
            Pairing::NoReflection => "pairing_no_reflection",
        }
    }
}

#[derive(Clone, Debug, Serialize, Deserialize)]
pub struct XmlCase {
    pub forest: GForest,
    pub pairing: Pairing,
}

pub fn xml_profile(max_nodes: usize, known_only: bool, text: TextMode) -> ForestProfile {
    let mut vp = ValProfile::xml();
    vp.text = text;
    ForestProfile {
        vals: vp,
        max_nodes,
        deep_weight: 1,
        types: vals::xml_types(),
        known_classes: true,
        all_db_classes: false,
        unknown_classes: !known_only,
        alias_names: true,
        unknown_props: !known_only,
        max_props: 6,
        ident_text: TextMode::Xml,
        free_roots: true,
        exclude_unknown_color3uint8: false,
        exclude_unknown_types: vec![],
        multi_spelling: false,
        non_serializing: true,
        narrow_numbers: true,
    }
}

pub fn xml_case(max_nodes: usize, text: TextMode, deep: bool) -> BoxedStrategy<XmlCase> {
    let mk = move |known_only: bool| {
        let mut p = xml_profile(max_nodes, known_only, text);
        if deep {
            p.deep_weight = 9;
            p.max_props = 2;
        }
        forest::forest(p)
    };
    prop_oneof![
        mk(true).prop_map(|forest| XmlCase {
            forest,
            pairing: Pairing::Default
        }),
        mk(false).prop_map(|forest| XmlCase {
            forest,
            pairing: Pairing::Unknown
        }),
        mk(false).prop_map(|forest| XmlCase {
            forest,
            pairing: Pairing::NoReflection
        }),
    ]
    .boxed()
}

pub fn write_xml(
    dom: &rbx_dom_weak::WeakDom,
    roots: &[rbx_types::Ref],
    opts: EncodeOptions<'static>,
) -> Result<Vec<u8>, Fail> {
    let mut out = Vec::new();
    let res = no_panic("rbx_xml serializer", || {
        rbx_xml::to_writer(&mut out, dom, roots, opts)
    })?;
    match res {
        Ok(()) => Ok(out),
        Err(e) => Err(Fail::new(
            format!("xml-encode-error: {}", normalise_msg(&strip_names(&e.to_string()))),
            format!("XML serializer rejected a DOM of supported values: {e}"),
        )),
    }
}

pub fn read_xml(bytes: &[u8], opts: DecodeOptions<'static>) -> Result<rbx_dom_weak::WeakDom, Fail> {
    let res = no_panic("rbx_xml deserializer", || rbx_xml::from_reader(bytes, opts))?;
    res.map_err(|e| {
        Fail::new(
            format!("xml-decode-error: {}", normalise_msg(&strip_names(&e.to_string()))),
            format!("XML reader rejected a document rbx_xml wrote: {e}"),
        )
    })
}

fn attr_blob(v: &GVal) -> Option<Vec<u8>> {
    match v {
        GVal::Attributes(e) => crate::spec::refattr::encode(e).ok(),
        _ => None,
    }
}

pub fn classify_xml(f: &GForest, ctx: &mut CaseCtx) {
    let written = f.written_preorder();
    let pos: std::collections::HashMap<usize, usize> =
        written.iter().enumerate().map(|(p, n)| (*n, p)).collect();
    let mut shared: std::collections::HashMap<&[u8], usize> = Default::default();
    for &n in &written {
        let node = &f.nodes[n];
        let mut strings: Vec<&str> = vec![node.name.as_str()];
        for (_, v) in &node.props {
            match v {
                GVal::String(s) | GVal::ContentId(s) => strings.push(s),
                GVal::SharedString(b) => *shared.entry(b.as_slice()).or_default() += 1,
                GVal::Ref(vals::GRef::Node(t)) => {
                    if let (Some(a), Some(b)) = (pos.get(&n), pos.get(t)) {
                        if b > a {
                            ctx.label("forward_ref");
                            ctx.nontrivial();
                        }
                    }
                }
                _ => {}
            }
        }
        for s in strings {
            let outer_ws = s.chars().next().map(|c| c.is_whitespace()).unwrap_or(false)
                || s.chars().last().map(|c| c.is_whitespace()).unwrap_or(false);
            if outer_ws {
                ctx.label("string_needs_cdata");
                ctx.nontrivial();
            }
            if s.contains(['<', '>', '&']) {
                ctx.label("string_needs_escaping");
                ctx.nontrivial();
            }
            if s.contains("]]>") {
                ctx.label("string_contains_cdata_end");
            }
            if s.contains('\r') {
                ctx.label("string_contains_cr");
            }
        }
        let nm = &node.name;
        if nm.trim() != nm.as_str() {
            ctx.label("name_with_outer_whitespace");
        }
    }
    if shared.values().any(|c| *c >= 2) {
        ctx.label("shared_string_used_twice");
        ctx.nontrivial();
    }
}

pub fn roundtrip_body(case: &XmlCase, ctx: &mut CaseCtx) -> PropResult {
    let f = &case.forest;
    classify_forest(f, ctx);
    classify_xml(f, ctx);
    // one case in eight runs after failed saves on this thread (state surviving a failed call would corrupt this save)
    {
        let h = f.nodes.len() as u64 * 31 + f.nodes.iter().map(|n| n.props.len() as u64 * 7 + n.name.len() as u64).sum::<u64>();
        if h % 8 == 3 && super::c07::provoke_failed_saves(h.wrapping_mul(0x9E37_79B9_7F4A_7C15)) > 0 {
            ctx.label("after_failed_saves_on_this_thread");
        }
    }
    ctx.label(case.pairing.label());
    let built = forest::build(f, BuildMode::Builder, None);
    let roots = built.root_refs(f);
    let exp = oracle::expect_roundtrip(f, case.pairing.format(), &attr_blob);
    let variant = f.nodes.len() + f.nodes.iter().map(|n| n.props.len()).sum::<usize>();
    ctx.label(["options_plain", "options_behaviour_then_database", "options_database_then_behaviour"][variant % 3]);
    let (enc, dec) = case.pairing.options_variant(variant);
    let bytes = write_xml(&built.dom, &roots, enc)?;
    let decoded = read_xml(&bytes, dec)?;
    ensure!(
        decoded.root().class == "DataModel" && decoded.root().parent().is_none(),
        "root-not-datamodel",
        "decoded root is {:?}",
        decoded.root().class
    );
    let act = forest::observe(&decoded);
    if let Err((key, msg)) = oracle::compare_dom(&exp, &act, &Norm::xml()) {
        fail!(
            format!("xml-roundtrip:{key}"),
            "[{:?}] {msg}\n--- document ---\n{}",
            case.pairing,
            String::from_utf8_lossy(&bytes).chars().take(1500).collect::<String>()
        );
    }
    // every public entry point is the same codec: from_str / *_default must agree with from_reader / to_writer
    let text = std::str::from_utf8(&bytes).map_err(|e| Fail::new("xml-writer:not-utf8", e.to_string()))?;
    let via_str = no_panic("rbx_xml::from_str", || rbx_xml::from_str(text, case.pairing.options().1))?
        .map_err(|e| Fail::new("xml-entry-points:from_str-rejects", format!("from_str rejects what from_reader accepts: {e}")))?;
    if let Err((key, msg)) = oracle::compare_dom(&exp, &forest::observe(&via_str), &Norm::xml()) {
        fail!(format!("xml-entry-points:from_str:{key}"), "from_str, unlike from_reader: {msg}");
    }
    if case.pairing == Pairing::Default {
        let mut out = Vec::new();
        no_panic("rbx_xml::to_writer_default", || rbx_xml::to_writer_default(&mut out, &built.dom, &roots))?
            .map_err(|e| Fail::new("xml-entry-points:to_writer_default-rejects", e.to_string()))?;
        ensure!(out == bytes, "xml-entry-points:to_writer_default-differs", "to_writer_default and to_writer(EncodeOptions::default()) write different documents");
        let a = no_panic("rbx_xml::from_reader_default", || rbx_xml::from_reader_default(bytes.as_slice()))?
            .map_err(|e| Fail::new("xml-entry-points:from_reader_default-rejects", e.to_string()))?;
        if let Err((key, msg)) = oracle::compare_dom(&exp, &forest::observe(&a), &Norm::xml()) {
            fail!(format!("xml-entry-points:from_reader_default:{key}"), "from_reader_default, unlike from_reader(DecodeOptions::default()): {msg}");
        }
        let b = no_panic("rbx_xml::from_str_default", || rbx_xml::from_str_default(text))?
            .map_err(|e| Fail::new("xml-entry-points:from_str_default-rejects", e.to_string()))?;
        if let Err((key, msg)) = oracle::compare_dom(&exp, &forest::observe(&b), &Norm::xml()) {
            fail!(format!("xml-entry-points:from_str_default:{key}"), "from_str_default, unlike from_reader(DecodeOptions::default()): {msg}");
        }
    }
    Ok(())
}

pub fn run(ctx: &Ctx) -> PropertyReport {
    let mut rep = PropertyReport::new(
        "C02",
        "exploration",
        "random instance forests restricted to XML-supported types and XML-1.0-legal characters, written by rbx_xml and read back under \
         the three option pairings the property lists (default/default on database-known properties; WriteUnknown+ReadUnknown; \
         NoReflection+NoReflection); expectation computed from the spec. Non-trivial = a string needing CDATA or escaping, a forward Ref, \
         a SharedString used twice, a non-finite float, heterogeneous same-class property sets, or a Ref leaving the written set.",
    );
    let sub = crate::engine::replay_subcheck_or_all(ctx);
    if sub.runs("roundtrip") {
        let cases = ctx.cfg.cases(100_000, 1_500_000);
        let max_nodes = ctx.cfg.tier.pick(14, 40);
        let mut r = ctx.run_prop(
            "roundtrip",
            cases,
            || xml_case(max_nodes, TextMode::Xml, false),
            roundtrip_body,
        );
        for l in [
            "string_needs_cdata",
            "string_needs_escaping",
            "forward_ref",
            "shared_string_used_twice",
            "has_nonfinite_float",
            "pairing_default",
            "pairing_write_unknown+read_unknown",
            "pairing_no_reflection",
        ] {
            r.floor(l, cases / 400);
        }
        rep.push(r);
    }
    if sub.runs("large") {
        // long values (text, base64, shared strings, sequences of > 64 Ki keypoints) and > 64 Ki instances
        use super::c01::LargeCase;
        let mut cases = Vec::new();
        for kind in ["String", "BinaryString", "SharedString", "NumberSequence", "ColorSequence"] {
            for n in [65_536usize, 65_537, 200_001] {
                cases.push(LargeCase::LongValue { kind: kind.to_string(), n });
            }
        }
        cases.push(LargeCase::ManyInstances { n: 65_537 });
        cases.extend(super::c01::more_large_cases(false));
        // the XML reader requires two keypoints (generator domain of this property, section C02 of DESIGN.md)
        cases.retain(|c| !matches!(c, LargeCase::MinimalColumn { kind, .. } if kind.ends_with("Sequence")));
        rep.push(ctx.run_list("large", cases, true, |c: &LargeCase, ctx: &mut CaseCtx| {
            let case = XmlCase { forest: super::c01::large_forest(c), pairing: Pairing::Unknown };
            roundtrip_body(&case, ctx)?;
            ctx.nontrivial();
            Ok(())
        }));
    }
    if sub.runs("deep") {
        let cases = ctx.cfg.cases(60, 1500);
        let nodes = ctx.cfg.tier.pick(300, 300);
        rep.push(ctx.run_prop(
            "deep",
            cases,
            move || xml_case(nodes, TextMode::Xml, true),
            roundtrip_body,
        ));
    }
    rep
}
