//! C02 — XML round trip preserves the instance forest and every value.

use proptest::prelude::*;
use rbx_xml::{DecodeOptions, DecodePropertyBehavior, EncodeOptions, EncodePropertyBehavior};
use serde::{Deserialize, Serialize};

use crate::engine::{no_panic, normalise_msg, CaseCtx, Ctx, Fail, PropResult, PropertyReport};
use crate::gen::forest::{self, BuildMode, ForestProfile, GForest};
use crate::gen::vals::{self, GVal, TextMode, ValProfile};
use crate::oracle::{self, Format, Norm};
use crate::{ensure, fail};

use super::c01::{classify_forest, strip_names};

#[derive(Clone, Copy, Debug, PartialEq, Eq, Serialize, Deserialize)]
pub enum Pairing {
    /// EncodeOptions::default + DecodeOptions::default (database-known properties)
    Default,
    /// WriteUnknown + ReadUnknown
    Unknown,
    /// NoReflection + NoReflection
    NoReflection,
}

impl Pairing {
    pub fn options(self) -> (EncodeOptions<'static>, DecodeOptions<'static>) {
        match self {
            Pairing::Default => (EncodeOptions::default(), DecodeOptions::default()),
            Pairing::Unknown => (
                EncodeOptions::new().property_behavior(EncodePropertyBehavior::WriteUnknown),
                DecodeOptions::new().property_behavior(DecodePropertyBehavior::ReadUnknown),
            ),
            Pairing::NoReflection => (
                EncodeOptions::new().property_behavior(EncodePropertyBehavior::NoReflection),
                DecodeOptions::new().property_behavior(DecodePropertyBehavior::NoReflection),
            ),
        }
    }
    /// The same options spelled through other call chains: naming the (default) bundled database
    /// explicitly, before or after the property behaviour. All variants mean the same.
    pub fn options_variant(self, v: usize) -> (EncodeOptions<'static>, DecodeOptions<'static>) {
        let db = rbx_reflection_database::get();
        let (eb, dbh) = match self {
            Pairing::Default => (EncodePropertyBehavior::IgnoreUnknown, DecodePropertyBehavior::IgnoreUnknown),
            Pairing::Unknown => (EncodePropertyBehavior::WriteUnknown, DecodePropertyBehavior::ReadUnknown),
            Pairing::NoReflection => (EncodePropertyBehavior::NoReflection, DecodePropertyBehavior::NoReflection),
        };
        match v % 3 {
            0 => self.options(),
            1 => (
                EncodeOptions::new().property_behavior(eb).reflection_database(db),
                DecodeOptions::new().property_behavior(dbh).reflection_database(db),
            ),
            _ => (
                EncodeOptions::new().reflection_database(db).property_behavior(eb),
                DecodeOptions::new().reflection_database(db).property_behavior(dbh),
            ),
        }
    }
    pub fn format(self) -> Format {
        match self {
            Pairing::NoReflection => Format::XmlNoReflection,
            _ => Format::Xml,
        }
    }
    pub fn label(self) -> &'static str {
        match self {
            Pairing::Default => "pairing_default",
            Pairing::Unknown => "pairing_write_unknown+read_unknown",
            Pairing::NoReflection => "pairing_no_reflection",
        }
    }
}

#[derive(Clone, Debug, Serialize, Deserialize)]
pub struct XmlCase {
    pub forest: GForest,
    pub pairing: Pairing,
}

pub fn xml_profile(max_nodes: usize, known_only: bool, text: TextMode) -> ForestProfile {
    let mut vp = ValProfile::xml();
    vp.text = text;
    ForestProfile {
        vals: vp,
        max_nodes,
        deep_weight: 1,
        types: vals::xml_types(),
        known_classes: true,
        all_db_classes: false,
        unknown_classes: !known_only,
        alias_names: true,
        unknown_props: !known_only,
        max_props: 6,
        ident_text: TextMode::Xml,
        free_roots: true,
        exclude_unknown_color3uint8: false,
        exclude_unknown_types: vec![],
        multi_spelling: false,
        non_serializing: true,
        narrow_numbers: true,
    }
}

pub fn xml_case(max_nodes: usize, text: TextMode, deep: bool) -> BoxedStrategy<XmlCase> {
    let mk = move |known_only: bool| {
        let mut p = xml_profile(max_nodes, known_only, text);
        if deep {
            p.deep_weight = 9;
            p.max_props = 2;
        }
        forest::forest(p)
    };
    prop_oneof![
        mk(true).prop_map(|forest| XmlCase {
            forest,
            pairing: Pairing::Default
        }),
        mk(false).prop_map(|forest| XmlCase {
            forest,
            pairing: Pairing::Unknown
        }),
        mk(false).prop_map(|forest| XmlCase {
            forest,
            pairing: Pairing::NoReflection
        }),
    ]
    .boxed()
}

pub fn write_xml(
    dom: &rbx_dom_weak::WeakDom,
    roots: &[rbx_types::Ref],
    opts: EncodeOptions<'static>,
) -> Result<Vec<u8>, Fail> {
    let mut out = Vec::new();
    let res = no_panic("rbx_xml serializer", || {
        rbx_xml::to_writer(&mut out, dom, roots, opts)
    })?;
    match res {
        Ok(()) => Ok(out),
        Err(e) => Err(Fail::new(
            format!("xml-encode-error: {}", normalise_msg(&strip_names(&e.to_string()))),
            format!("XML serializer rejected a DOM of supported values: {e}"),
        )),
    }
}

pub fn read_xml(bytes: &[u8], opts: DecodeOptions<'static>) -> Result<rbx_dom_weak::WeakDom, Fail> {
    let res = no_panic("rbx_xml deserializer", || rbx_xml::from_reader(bytes, opts))?;
    res.map_err(|e| {
        Fail::new(
            format!("xml-decode-error: {}", normalise_msg(&strip_names(&e.to_string()))),
            format!("XML reader rejected a document rbx_xml wrote: {e}"),
        )
    })
}

fn attr_blob(v: &GVal) -> Option<Vec<u8>> {
    match v {
        GVal::Attributes(e) => crate::spec::refattr::encode(e).ok(),
        _ => None,
    }
}

pub fn classify_xml(f: &GForest, ctx: &mut CaseCtx) {
    let written = f.written_preorder();
    let pos: std::collections::HashMap<usize, usize> =
        written.iter().enumerate().map(|(p, n)| (*n, p)).collect();
    let mut shared: std::collections::HashMap<&[u8], usize> = Default::default();
    for &n in &written {
        let node = &f.nodes[n];
        let mut strings: Vec<&str> = vec![node.name.as_str()];
        for (_, v) in &node.props {
            match v {
                GVal::String(s) | GVal::ContentId(s) => strings.push(s),
                GVal::SharedString(b) => *shared.entry(b.as_slice()).or_default() += 1,
                GVal::Ref(vals::GRef::Node(t)) => {
                    if let (Some(a), Some(b)) = (pos.get(&n), pos.get(t)) {
                        if b > a {
                            ctx.label("forward_ref");
                            ctx.nontrivial();
                        }
                    }
                }
                _ => {}
            }
        }
        for s in strings {
            let outer_ws = s.chars().next().map(|c| c.is_whitespace()).unwrap_or(false)
                || s.chars().last().map(|c| c.is_whitespace()).unwrap_or(false);
            if outer_ws {
                ctx.label("string_needs_cdata");
                ctx.nontrivial();
            }
            if s.contains(['<', '>', '&']) {
                ctx.label("string_needs_escaping");
                ctx.nontrivial();
            }
            if s.contains("]]>") {
                ctx.label("string_contains_cdata_end");
            }
            if s.contains('\r') {
                ctx.label("string_contains_cr");
            }
        }
        let nm = &node.name;
        if nm.trim() != nm.as_str() {
            ctx.label("name_with_outer_whitespace");
        }
    }
    if shared.values().any(|c| *c >= 2) {
        ctx.label("shared_string_used_twice");
        ctx.nontrivial();
    }
}

pub fn roundtrip_body(case: &XmlCase, ctx: &mut CaseCtx) -> PropResult {
    let f = &case.forest;
    classify_forest(f, ctx);
    classify_xml(f, ctx);
    // one case in eight runs after failed saves on this thread (state surviving a failed call would corrupt this save)
    {
        let h = f.nodes.len() as u64 * 31 + f.nodes.iter().map(|n| n.props.len() as u64 * 7 + n.name.len() as u64).sum::<u64>();
        if h % 8 == 3 && super::c07::provoke_failed_saves(h.wrapping_mul(0x9E37_79B9_7F4A_7C15)) > 0 {
            ctx.label("after_failed_saves_on_this_thread");
        }
    }
    ctx.label(case.pairing.label());
    let built = forest::build(f, BuildMode::Builder, None);
    let roots = built.root_refs(f);
    let exp = oracle::expect_roundtrip(f, case.pairing.format(), &attr_blob);
    let variant = f.nodes.len() + f.nodes.iter().map(|n| n.props.len()).sum::<usize>();
    ctx.label(["options_plain", "options_behaviour_then_database", "options_database_then_behaviour"][variant % 3]);
    let (enc, dec) = case.pairing.options_variant(variant);
    let bytes = write_xml(&built.dom, &roots, enc)?;
    let decoded = read_xml(&bytes, dec)?;
    ensure!(
        decoded.root().class == "DataModel" && decoded.root().parent().is_none(),
        "root-not-datamodel",
        "decoded root is {:?}",
        decoded.root().class
    );
    let act = forest::observe(&decoded);
    if let Err((key, msg)) = oracle::compare_dom(&exp, &act, &Norm::xml()) {
        fail!(
            format!("xml-roundtrip:{key}"),
            "[{:?}] {msg}\n--- document ---\n{}",
            case.pairing,
            String::from_utf8_lossy(&bytes).chars().take(1500).collect::<String>()
        );
    }
    // every public entry point is the same codec: from_str / *_default must agree with from_reader / to_writer
    let text = std::str::from_utf8(&bytes).map_err(|e| Fail::new("xml-writer:not-utf8", e.to_string()))?;
    let via_str = no_panic("rbx_xml::from_str", || rbx_xml::from_str(text, case.pairing.options().1))?
        .map_err(|e| Fail::new("xml-entry-points:from_str-rejects", format!("from_str rejects what from_reader accepts: {e}")))?;
    if let Err((key, msg)) = oracle::compare_dom(&exp, &forest::observe(&via_str), &Norm::xml()) {
        fail!(format!("xml-entry-points:from_str:{key}"), "from_str, unlike from_reader: {msg}");
    }
    if case.pairing == Pairing::Default {
        let mut out = Vec::new();
        no_panic("rbx_xml::to_writer_default", || rbx_xml::to_writer_default(&mut out, &built.dom, &roots))?
            .map_err(|e| Fail::new("xml-entry-points:to_writer_default-rejects", e.to_string()))?;
        ensure!(out == bytes, "xml-entry-points:to_writer_default-differs", "to_writer_default and to_writer(EncodeOptions::default()) write different documents");
        let a = no_panic("rbx_xml::from_reader_default", || rbx_xml::from_reader_default(bytes.as_slice()))?
            .map_err(|e| Fail::new("xml-entry-points:from_reader_default-rejects", e.to_string()))?;
        if let Err((key, msg)) = oracle::compare_dom(&exp, &forest::observe(&a), &Norm::xml()) {
            fail!(format!("xml-entry-points:from_reader_default:{key}"), "from_reader_default, unlike from_reader(DecodeOptions::default()): {msg}");
        }
        let b = no_panic("rbx_xml::from_str_default", || rbx_xml::from_str_default(text))?
            .map_err(|e| Fail::new("xml-entry-points:from_str_default-rejects", e.to_string()))?;
        if let Err((key, msg)) = oracle::compare_dom(&exp, &forest::observe(&b), &Norm::xml()) {
            fail!(format!("xml-entry-points:from_str_default:{key}"), "from_str_default, unlike from_reader(DecodeOptions::default()): {msg}");
        }
    }
    Ok(())
}

/// A database-known property holding a value of another type than the database declares (a DOM is
/// untyped; tools build such DOMs from JSON or Lua numbers). Outside the conversions rbx_xml
/// documents in conversion.rs the value is written in its own type and must come back unchanged.
#[derive(Clone, Debug, Serialize, Deserialize)]
pub struct Mistyped {
    pub class_sel: u32,
    pub prop_sel: u32,
    pub ty_sel: u32,
    pub seed: u64,
}

fn mistyped_body(c: &Mistyped, ctx: &mut CaseCtx) -> PropResult {
    use rbx_types::VariantType as T;
    let classes = crate::dbview::all_class_names();
    let class = &classes[c.class_sel as usize % classes.len()];
    let cp = crate::dbview::class_props(class);
    let plain: Vec<_> = cp.plain.iter().filter(|s| !s.view.is_alias && s.name == s.view.canonical && s.view.canonical != "Name" && s.view.ser.is_some()).collect();
    if plain.is_empty() {
        ctx.excluded("class without plain serializable properties");
        return Ok(());
    }
    // one case in four looks for a 32-bit number property and gives it the 64-bit type
    let narrow: Vec<_> = plain.iter().copied().filter(|s| matches!(s.view.canonical_ty.variant_type(), T::Int32 | T::Float32)).collect();
    let widen = c.ty_sel % 4 == 0 && !narrow.is_empty();
    let sp = if widen { narrow[c.prop_sel as usize % narrow.len()] } else { plain[c.prop_sel as usize % plain.len()] };
    if !crate::dbview::ser_conflicts(class).is_empty() {
        ctx.excluded("class with shared serialized names (open finding of C08)");
        return Ok(());
    }
    let declared = [sp.view.canonical_ty.variant_type(), sp.view.ser.as_ref().unwrap().ty.variant_type()];
    let candidates: Vec<T> = crate::gen::vals::xml_types()
        .into_iter()
        .filter(|u| !matches!(u, T::Ref | T::SharedString | T::Content | T::ContentId | T::BrickColor | T::Tags | T::Attributes | T::MaterialColors | T::UniqueId))
        .filter(|u| {
            declared.iter().all(|t| {
                u != t
                    && !matches!(
                        (u, t),
                        (T::Int32, T::Int64)
                            | (T::Float32, T::Float64)
                            | (T::Int32, T::BrickColor)
                            | (T::Color3, T::Color3uint8)
                            | (T::BinaryString, T::Tags)
                            | (T::BinaryString, T::Attributes)
                            | (T::BinaryString, T::MaterialColors)
                            | (T::EnumItem, T::Enum)
                            | (T::Content, T::ContentId)
                    )
            })
        })
        .collect();
    let u = match (widen, declared[0]) {
        (true, T::Int32) => T::Int64,
        (true, T::Float32) => T::Float64,
        _ => candidates[c.ty_sel as usize % candidates.len()],
    };
    let mut profile = crate::gen::vals::ValProfile::xml();
    profile.min_keypoints = 2;
    let val = forest::value_from_seed(u, profile, c.seed);
    ctx.label(match (u, declared[0]) {
        (T::Int64, T::Int32) => "wide_integer_in_narrow_property",
        (T::Float64, T::Float32) => "wide_float_in_narrow_property",
        _ => "other_type_pair",
    });
    ctx.nontrivial();
    let f = GForest {
        nodes: vec![
            crate::gen::forest::GNode { parent: None, class: class.clone(), name: "holder".into(), props: vec![(sp.name.clone(), val.clone())] },
            crate::gen::forest::GNode { parent: None, class: class.clone(), name: "plain".into(), props: vec![] },
        ],
        roots: vec![0, 1],
    };
    let built = forest::build(&f, BuildMode::Builder, None);
    let roots = built.root_refs(&f);
    let (enc, dec) = Pairing::Default.options();
    let bytes = match write_xml(&built.dom, &roots, enc) {
        Ok(b) => b,
        Err(_) => {
            // a conversion the writer refuses is a clean error, not this check's subject
            ctx.excluded("writer rejects the type pair");
            return Ok(());
        }
    };
    let decoded = read_xml(&bytes, dec)?;
    let act = forest::observe(&decoded);
    let holder = act.roots.iter().find(|r| r.name == "holder");
    let got = holder.and_then(|h| h.props.get(&sp.view.roundtrip).or_else(|| h.props.get(&sp.name)));
    let ok = got.map(|g| oracle::val_matches(&val, g, &Norm::xml())).unwrap_or(false);
    ensure!(
        ok,
        format!("xml-roundtrip:mistyped:{:?}-in-{:?}", u, declared[0]),
        "{class}.{} (declared {:?}) held {:?}; after the XML round trip it is {:?} (all properties: {:?})",
        sp.name,
        declared[0],
        val,
        got,
        holder.map(|h| h.props.keys().cloned().collect::<Vec<_>>())
    );
    Ok(())
}

pub fn run(ctx: &Ctx) -> PropertyReport {
    let mut rep = PropertyReport::new(
        "C02",
        "exploration",
        "random instance forests restricted to XML-supported types and XML-1.0-legal characters, written by rbx_xml and read back under \
         the three option pairings the property lists (default/default on database-known properties; WriteUnknown+ReadUnknown; \
         NoReflection+NoReflection); expectation computed from the spec. Non-trivial = a string needing CDATA or escaping, a forward Ref, \
         a SharedString used twice, a non-finite float, heterogeneous same-class property sets, or a Ref leaving the written set.",
    );
    let sub = crate::engine::replay_subcheck_or_all(ctx);
    if sub.runs("roundtrip") {
        let cases = ctx.cfg.cases(100_000, 1_500_000);
        let max_nodes = ctx.cfg.tier.pick(14, 40);
        let mut r = ctx.run_prop(
            "roundtrip",
            cases,
            || xml_case(max_nodes, TextMode::Xml, false),
            roundtrip_body,
        );
        for l in [
            "string_needs_cdata",
            "string_needs_escaping",
            "forward_ref",
            "shared_string_used_twice",
            "has_nonfinite_float",
            "pairing_default",
            "pairing_write_unknown+read_unknown",
            "pairing_no_reflection",
        ] {
            r.floor(l, cases / 400);
        }
        rep.push(r);
    }
    if sub.runs("mistyped") {
        let cases = ctx.cfg.cases(60_000, 3_000_000);
        let strat = || (any::<u32>(), any::<u32>(), any::<u32>(), any::<u64>()).prop_map(|(class_sel, prop_sel, ty_sel, seed)| Mistyped { class_sel, prop_sel, ty_sel, seed });
        let mut r = ctx.run_prop("mistyped", cases, strat, mistyped_body);
        r.floor("wide_integer_in_narrow_property", cases / 100);
        r.floor("wide_float_in_narrow_property", cases / 100);
        r.notes.push("a database-known property of any class holding a value of a type the database does not declare for it (outside rbx_xml's documented conversions): written in its own type, it must come back unchanged".into());
        rep.push(r);
    }
    if sub.runs("large") {
        // long values (text, base64, shared strings, sequences of > 64 Ki keypoints) and > 64 Ki instances
        use super::c01::LargeCase;
        let mut cases = Vec::new();
        for kind in ["String", "BinaryString", "SharedString", "NumberSequence", "ColorSequence"] {
            for n in [65_536usize, 65_537, 200_001] {
                cases.push(LargeCase::LongValue { kind: kind.to_string(), n });
            }
        }
        cases.push(LargeCase::ManyInstances { n: 65_537 });
        cases.extend(super::c01::more_large_cases(false));
        // the XML reader requires two keypoints (generator domain of this property, section C02 of DESIGN.md)
        cases.retain(|c| !matches!(c, LargeCase::MinimalColumn { kind, .. } if kind.ends_with("Sequence")));
        rep.push(ctx.run_list("large", cases, true, |c: &LargeCase, ctx: &mut CaseCtx| {
            let case = XmlCase { forest: super::c01::large_forest(c), pairing: Pairing::Unknown };
            roundtrip_body(&case, ctx)?;
            ctx.nontrivial();
            Ok(())
        }));
    }
    if sub.runs("deep") {
        let cases = ctx.cfg.cases(60, 1500);
        let nodes = ctx.cfg.tier.pick(300, 300);
        rep.push(ctx.run_prop(
            "deep",
            cases,
            move || xml_case(nodes, TextMode::Xml, true),
            roundtrip_body,
        ));
    }
    rep
}
