//! C18 — SharedString interning is safe and effective under concurrency.
//!
//! The harness owns the schedule: worker OS threads run small programs; at
//! every yield point (start of each operation, plus the two hook points inside
//! rbx_types) a thread hands control back, and the controller lets exactly
//! one thread advance per step. A schedule is a sequence of choices.

use std::cell::RefCell;
use std::collections::hash_map::DefaultHasher;
use std::hash::{Hash, Hasher};
use std::sync::atomic::{AtomicU64, Ordering};
use std::sync::{Arc, Mutex};
use std::time::Duration;

use proptest::prelude::*;
use rbx_types::SharedString;
use serde::{Deserialize, Serialize};

use crate::engine::{CaseCtx, Ctx, Fail, PropResult, PropertyReport, SubReport};
use crate::{ensure, fail};

#[derive(Clone, Copy, Debug, PartialEq, Eq, Hash, Serialize, Deserialize)]
pub enum SOp {
    /// create a handle for content c
    New(u8),
    /// clone the i-th live handle of this thread (mod count)
    Clone(u8),
    /// drop the i-th live handle of this thread (mod count)
    Drop(u8),
}

#[derive(Clone, Debug, Serialize, Deserialize)]
pub struct SchedCase {
    pub programs: Vec<Vec<SOp>>,
    /// choice at each scheduling step, reduced modulo the number of runnable threads
    pub schedule: Vec<u8>,
}

#[derive(Clone, Copy, Debug, PartialEq, Eq)]
enum TStatus {
    NotStarted,
    /// parked at a yield point (payload: point id; 100 = operation boundary)
    Parked(u32),
    Running,
    Finished,
}

struct Slot {
    handle: SharedString,
    content: usize,
}

struct Shared {
    status: Vec<TStatus>,
    handles: Vec<Vec<Slot>>,
    error: Option<String>,
    /// trace of (thread, point) for diagnostics and non-triviality
    trace: Vec<(usize, u32)>,
}

struct Sched {
    state: Mutex<Shared>,
    /// thread allowed to run (NOBODY = the controller's turn). Hand-over is by
    /// spinning on this word: condvar wake-ups cost ~50 us each on this machine
    /// and an execution has dozens of hand-overs.
    current: std::sync::atomic::AtomicUsize,
}

const NOBODY: usize = usize::MAX;

fn spin_until(cond: impl Fn() -> bool, timeout: Duration) -> bool {
    let mut spins = 0u32;
    let mut started: Option<std::time::Instant> = None;
    while !cond() {
        spins += 1;
        if spins < 2000 {
            std::hint::spin_loop();
        } else {
            std::thread::yield_now();
            if spins % 4096 == 0 {
                let t0 = *started.get_or_insert_with(std::time::Instant::now);
                if t0.elapsed() > timeout {
                    return false;
                }
            }
        }
    }
    true
}

thread_local! {
    static CURRENT: RefCell<Option<(Arc<Sched>, usize)>> = const { RefCell::new(None) };
}

fn hook(point: u32) {
    let cur = CURRENT.with(|c| c.borrow().clone());
    if let Some((sched, tid)) = cur {
        sched.park(tid, point);
    }
}

impl Sched {
    /// Hand control back to the controller and wait to be scheduled again.
    fn park(&self, tid: usize, point: u32) {
        // Give the turn back first (only if it is ours: a thread parking for the
        // first time never had it), then publish the parked status. The
        // controller proceeds only when nobody has the turn AND nobody is
        // Running / NotStarted, so it cannot grant a turn in between.
        let _ = self
            .current
            .compare_exchange(tid, NOBODY, Ordering::AcqRel, Ordering::Relaxed);
        self.state.lock().unwrap().status[tid] = TStatus::Parked(point);
        // a parked thread waits for its turn for as long as the controller lives
        spin_until(|| self.current.load(Ordering::Acquire) == tid, Duration::from_secs(3600));
        self.state.lock().unwrap().status[tid] = TStatus::Running;
    }
}

struct Job {
    sched: Arc<Sched>,
    tid: usize,
    prog: Vec<SOp>,
    contents: Vec<Vec<u8>>,
}

thread_local! {
    static POOL: RefCell<Vec<std::sync::mpsc::Sender<Job>>> = const { RefCell::new(Vec::new()) };
}

fn spawn_worker() -> std::sync::mpsc::Sender<Job> {
    let (tx, rx) = std::sync::mpsc::channel::<Job>();
    std::thread::Builder::new()
        .stack_size(256 << 10)
        .spawn(move || {
            while let Ok(job) = rx.recv() {
                run_job(job);
            }
        })
        .expect("spawn worker");
    tx
}

fn run_job(job: Job) {
    let Job { sched, tid, prog, contents } = job;
    CURRENT.with(|c| *c.borrow_mut() = Some((sched.clone(), tid)));
    // wait for the first turn
    sched.park(tid, 100);
    let res = std::panic::catch_unwind(std::panic::AssertUnwindSafe(|| {
        // handles live in the shared state so that the controller can
        // inspect them while every thread is parked
        for (k, op) in prog.iter().enumerate() {
            if k > 0 {
                sched.park(tid, 100);
            }
            match *op {
                SOp::New(c) => {
                    let c = c as usize % contents.len();
                    let h = SharedString::new(contents[c].clone());
                    sched.state.lock().unwrap().handles[tid].push(Slot { handle: h, content: c });
                }
                SOp::Clone(i) => {
                    let mut st = sched.state.lock().unwrap();
                    let len = st.handles[tid].len();
                    if len > 0 {
                        let s = &st.handles[tid][i as usize % len];
                        let copy = Slot { handle: s.handle.clone(), content: s.content };
                        st.handles[tid].push(copy);
                    }
                }
                SOp::Drop(i) => {
                    let taken = {
                        let mut st = sched.state.lock().unwrap();
                        let len = st.handles[tid].len();
                        if len > 0 {
                            Some(st.handles[tid].remove(i as usize % len))
                        } else {
                            None
                        }
                    };
                    // the drop itself runs outside the harness lock: it may park
                    drop(taken);
                }
            }
        }
        // release everything that is left, one handle per step
        loop {
            sched.park(tid, 100);
            let taken = sched.state.lock().unwrap().handles[tid].pop();
            match taken {
                Some(s) => drop(s),
                None => break,
            }
        }
    }));
    CURRENT.with(|c| *c.borrow_mut() = None);
    let mut st = sched.state.lock().unwrap();
    if let Err(p) = res {
        let msg = p
            .downcast_ref::<String>()
            .cloned()
            .or_else(|| p.downcast_ref::<&str>().map(|s| s.to_string()))
            .unwrap_or_else(|| "panic".into());
        st.error = Some(format!("thread {tid} panicked: {msg}"));
    }
    drop(st);
    let _ = sched
        .current
        .compare_exchange(tid, NOBODY, Ordering::AcqRel, Ordering::Relaxed);
    sched.state.lock().unwrap().status[tid] = TStatus::Finished;
}

static CASE_COUNTER: AtomicU64 = AtomicU64::new(0);

pub struct Execution {
    /// number of runnable threads at each scheduling step
    pub branching: Vec<usize>,
    pub result: Result<(), Fail>,
    pub separated_cleanup: bool,
    pub steps: usize,
}

fn content_bytes(case_id: u64, c: usize) -> Vec<u8> {
    format!("c18-content-{case_id}-{c}").into_bytes()
}

/// Run `programs` under `choices` (missing choices default to 0).
pub fn execute(programs: &[Vec<SOp>], choices: &[u8]) -> Execution {
    rbx_types::verif_set_yield_hook(Some(hook));
    let case_id = CASE_COUNTER.fetch_add(1, Ordering::Relaxed);
    let n = programs.len();
    let n_contents = 2usize;
    let contents: Vec<Vec<u8>> = (0..n_contents).map(|c| content_bytes(case_id, c)).collect();
    let sched = Arc::new(Sched {
        state: Mutex::new(Shared {
            status: vec![TStatus::NotStarted; n],
            handles: (0..n).map(|_| Vec::new()).collect(),
            error: None,
            trace: Vec::new(),
        }),
        current: std::sync::atomic::AtomicUsize::new(NOBODY),
    });

    // persistent worker threads (one pool per controller thread): spawning OS
    // threads per execution dominated the cost of exhaustive exploration
    POOL.with(|p| {
        let mut p = p.borrow_mut();
        while p.len() < n {
            p.push(spawn_worker());
        }
        for (tid, prog) in programs.iter().enumerate() {
            p[tid]
                .send(Job {
                    sched: sched.clone(),
                    tid,
                    prog: prog.clone(),
                    contents: contents.clone(),
                })
                .expect("worker alive");
        }
    });

    let mut branching = Vec::new();
    let mut result: Result<(), Fail> = Ok(());
    let mut separated_cleanup = false;
    let mut step = 0usize;
    loop {
        // wait until nobody is running
        let ready = spin_until(
            || {
                sched.current.load(Ordering::Acquire) == NOBODY
                    && !sched
                        .state
                        .lock()
                        .unwrap()
                        .status
                        .iter()
                        .any(|s| matches!(s, TStatus::NotStarted | TStatus::Running))
            },
            Duration::from_secs(20),
        );
        let waited = !ready;
        let mut st = sched.state.lock().unwrap();
        if waited {
            result = Err(Fail::new(
                "c18:stuck",
                format!("a thread did not reach its next yield point within 20 s (deadlock?); trace {:?}", st.trace),
            ));
            // the stuck worker is abandoned together with this controller's pool
            POOL.with(|p| p.borrow_mut().clear());
            return Execution { branching, result, separated_cleanup, steps: step };
        }
        if let Some(e) = st.error.take() {
            result = Err(Fail::new("c18:panic", e));
        }
        // oracle: every thread is parked or finished
        if result.is_ok() {
            if let Err(f) = check_quiescent(&st, &contents) {
                result = Err(f);
            }
        }
        let runnable: Vec<usize> = (0..n).filter(|t| matches!(st.status[*t], TStatus::Parked(_))).collect();
        if runnable.is_empty() {
            break;
        }
        // a drop's clean-up half separated from its release half by another thread's step
        let choice = choices.get(step).copied().unwrap_or(0) as usize % runnable.len();
        let tid = runnable[choice];
        if runnable.len() > 1
            && runnable.iter().any(|t| *t != tid && st.status[*t] == TStatus::Parked(1))
            && matches!(st.status[tid], TStatus::Parked(0))
        {
            separated_cleanup = true;
        }
        branching.push(runnable.len());
        let point = match st.status[tid] {
            TStatus::Parked(p) => p,
            _ => 0,
        };
        st.trace.push((tid, point));
        if result.is_err() {
            // drain: let everybody finish so that threads can be joined
        }
        st.status[tid] = TStatus::Running;
        drop(st);
        sched.current.store(tid, Ordering::Release);
        step += 1;
        if step > 10_000 {
            result = Err(Fail::new("c18:stuck", "more than 10000 scheduling steps".to_string()));
            break;
        }
    }
    if result.is_ok() {
        for c in &contents {
            if rbx_types::verif_cache_has(c) {
                result = Err(Fail::new(
                    "c18:table-not-empty",
                    "every handle has been dropped but the intern table still has an entry for one of the contents".to_string(),
                ));
            }
        }
    }
    Execution { branching, result, separated_cleanup, steps: step }
}

fn check_quiescent(st: &Shared, contents: &[Vec<u8>]) -> Result<(), Fail> {
    let mut by_content: Vec<Vec<&SharedString>> = vec![Vec::new(); contents.len()];
    for t in &st.handles {
        for s in t {
            if s.handle.data() != contents[s.content].as_slice() {
                return Err(Fail::new(
                    "c18:wrong-bytes",
                    format!("a handle created from content {} exposes other bytes", s.content),
                ));
            }
            by_content[s.content].push(&s.handle);
        }
    }
    for (c, hs) in by_content.iter().enumerate() {
        for h in hs.iter().skip(1) {
            let first = hs[0];
            if *h != first {
                return Err(Fail::new("c18:not-equal", format!("two handles of content {c} compare unequal")));
            }
            let hash = |x: &SharedString| {
                let mut s = DefaultHasher::new();
                Hash::hash(x, &mut s);
                s.finish()
            };
            if hash(h) != hash(first) {
                return Err(Fail::new("c18:hash-differs", format!("two handles of content {c} hash differently")));
            }
            if h.data().as_ptr() != first.data().as_ptr() {
                return Err(Fail::new(
                    "c18:not-shared",
                    format!(
                        "two live handles with equal contents (content {c}) do not share one buffer; trace (thread, yield point) {:?}",
                        st.trace
                    ),
                ));
            }
        }
    }
    // different contents are different
    if let (Some(a), Some(b)) = (by_content[0].first(), by_content.get(1).and_then(|v| v.first())) {
        if a == b {
            return Err(Fail::new("c18:distinct-equal", "handles of different contents compare equal".to_string()));
        }
    }
    Ok(())
}

fn random_body(case: &SchedCase, ctx: &mut CaseCtx) -> PropResult {
    let ex = execute(&case.programs, &case.schedule);
    ctx.label_if(ex.separated_cleanup, "cleanup_separated_from_release_by_a_new");
    ctx.nontrivial_if(ex.separated_cleanup || ex.branching.iter().filter(|b| **b > 1).count() >= 3);
    ex.result
}

/// Exhaustive DFS over all schedules of `programs`. Returns (executions, first failure).
pub fn explore_all(programs: &[Vec<SOp>], limit: u64) -> (u64, u64, Option<(Vec<u8>, Fail)>) {
    let mut choices: Vec<u8> = Vec::new();
    let mut execs = 0u64;
    let mut interesting = 0u64;
    loop {
        let ex = execute(programs, &choices);
        execs += 1;
        if ex.separated_cleanup {
            interesting += 1;
        }
        if let Err(f) = ex.result {
            let full: Vec<u8> = (0..ex.branching.len()).map(|i| choices.get(i).copied().unwrap_or(0)).collect();
            return (execs, interesting, Some((full, f)));
        }
        // next schedule: increment the last position that still has an alternative
        let mut full: Vec<u8> = (0..ex.branching.len()).map(|i| choices.get(i).copied().unwrap_or(0)).collect();
        let mut advanced = false;
        while let Some(last) = full.pop() {
            let k = full.len();
            if (last as usize) + 1 < ex.branching[k] {
                full.push(last + 1);
                advanced = true;
                break;
            }
        }
        if !advanced || execs >= limit {
            return (execs, interesting, None);
        }
        choices = full;
    }
}

#[derive(Clone, Debug, Serialize, Deserialize)]
pub struct ProgramSet {
    pub programs: Vec<Vec<SOp>>,
}

fn all_programs(len: usize, alphabet: &[SOp]) -> Vec<Vec<SOp>> {
    let mut out = vec![vec![]];
    for _ in 0..len {
        let mut next = Vec::new();
        for p in &out {
            for op in alphabet {
                let mut q = p.clone();
                q.push(*op);
                next.push(q);
            }
        }
        out = next;
    }
    out
}

fn exhaustive_body(case: &ProgramSet, ctx: &mut CaseCtx) -> PropResult {
    let (execs, interesting, failure) = explore_all(&case.programs, 5_000_000);
    ctx.add_evals(execs.saturating_sub(1));
    ctx.nontrivial_if(interesting > 0);
    ctx.label_if(interesting > 0, "cleanup_separated_from_release_by_a_new");
    match failure {
        None => Ok(()),
        Some((schedule, f)) => {
            // save the failing schedule as an ordinary replayable case
            let case = SchedCase {
                programs: case.programs.clone(),
                schedule,
            };
            let path = crate::engine::write_replay("C18", "random", &case, &f.key, &f.msg);
            fail!(f.key, "{} (schedule saved as {})", f.msg, path.display())
        }
    }
}

fn stress(ctx: &Ctx) -> SubReport {
    // free-running (uncontrolled) threads, quiescent oracle only
    let mut r = SubReport::new("free-running-stress");
    let start = std::time::Instant::now();
    if ctx.cfg.replay.is_some() {
        return r;
    }
    rbx_types::verif_set_yield_hook(Some(hook));
    let iters = ctx.cfg.tier.pick(20_000usize, 400_000);
    let threads = 16;
    let tag = CASE_COUNTER.fetch_add(1, Ordering::Relaxed);
    let contents: Vec<Vec<u8>> = (0..3).map(|c| format!("c18-stress-{tag}-{c}").into_bytes()).collect();
    let errors: Mutex<Vec<String>> = Mutex::new(Vec::new());
    // phase 1 - churn: groups of threads create and immediately drop one content, so its reference
    // count crosses zero as often as possible while other threads are inside new() for the same
    // content; a checker per group holds two handles made back to back and compares their buffers.
    let churn_iters = ctx.cfg.tier.pick(150_000usize, 3_000_000);
    let churn_contents: Vec<Vec<u8>> = (0..4).map(|c| format!("c18-churn-{tag}-{c}").into_bytes()).collect();
    std::thread::scope(|s| {
        for t in 0..threads {
            let content = &churn_contents[t % churn_contents.len()];
            let errors = &errors;
            let checker = t >= 12;
            s.spawn(move || {
                let res = crate::engine::catch(|| {
                    for i in 0..churn_iters {
                        // buffers with spare capacity as well as exact ones (String-built data usually has some)
                        let with_slack = |i: usize| {
                            let mut v = Vec::with_capacity(content.len() + 1 + i % 61);
                            v.extend_from_slice(content);
                            v
                        };
                        let a = SharedString::new(if i % 2 == 0 { content.clone() } else { with_slack(i) });
                        if checker {
                            let b = SharedString::new(if i % 3 == 0 { content.clone() } else { with_slack(i / 3) });
                            if a.data().as_ptr() != b.data().as_ptr() {
                                return Err(format!("round {i}: two live handles of one content do not share a buffer"));
                            }
                            if a != b {
                                return Err(format!("round {i}: equal contents compare unequal"));
                            }
                        }
                        if a.data() != content.as_slice() {
                            return Err(format!("round {i}: wrong bytes"));
                        }
                    }
                    Ok(())
                });
                match res {
                    Ok(Ok(())) => {}
                    Ok(Err(e)) => errors.lock().unwrap().push(format!("churn: {e}")),
                    Err(info) => errors.lock().unwrap().push(format!("churn: a SharedString operation panicked: {}", crate::engine::normalise_msg(&info.msg))),
                }
            });
        }
    });
    for c in &churn_contents {
        match crate::engine::catch(|| rbx_types::verif_cache_has(c)) {
            Ok(true) => errors.lock().unwrap().push("churn: intern table still holds an entry after every handle was dropped".into()),
            Ok(false) => {}
            Err(_) => errors.lock().unwrap().push("churn: the intern table lock is poisoned".into()),
        }
    }
    r.evaluations += (churn_iters * threads) as u64;
    if errors.lock().unwrap().is_empty() {
    std::thread::scope(|s| {
        for t in 0..threads {
            let contents = &contents;
            let errors = &errors;
            s.spawn(move || {
                let mut x = 0x9E37_79B9u64.wrapping_mul(t as u64 + 1);
                let mut held: Vec<(SharedString, usize)> = Vec::new();
                for _ in 0..iters {
                    // xorshift: schedule noise only, never part of an oracle decision
                    x ^= x << 13;
                    x ^= x >> 7;
                    x ^= x << 17;
                    match x % 4 {
                        0 | 1 => {
                            let c = (x >> 8) as usize % contents.len();
                            let h = SharedString::new(contents[c].clone());
                            if h.data() != contents[c].as_slice() {
                                errors.lock().unwrap().push("wrong bytes".into());
                            }
                            held.push((h, c));
                        }
                        2 => {
                            if let Some((h, c)) = held.last() {
                                let copy = (h.clone(), *c);
                                held.push(copy);
                            }
                        }
                        _ => {
                            if !held.is_empty() {
                                let i = (x >> 8) as usize % held.len();
                                held.swap_remove(i);
                            }
                        }
                    }
                    if held.len() > 8 {
                        held.clear();
                    }
                }
                for (h, c) in &held {
                    if h.data() != contents[*c].as_slice() {
                        errors.lock().unwrap().push("wrong bytes at end".into());
                    }
                }
            });
        }
    });
    }
    // phase 3 - paired last releases: two threads hold the last two handles of a content that nobody
    // interns again and release them at the same instant (spin rendezvous, swept skew); whichever
    // of them releases last must clean the table, so afterwards it holds no entry for that content.
    let pair_rounds = ctx.cfg.tier.pick(40_000usize, 1_000_000);
    let pairs = 8usize;
    if errors.lock().unwrap().is_empty() {
        rbx_types::verif_set_yield_hook(None);
        std::thread::scope(|s| {
            for p in 0..pairs {
                let errors = &errors;
                s.spawn(move || {
                    let slot: Mutex<Option<SharedString>> = Mutex::new(None);
                    let arrive = std::sync::atomic::AtomicUsize::new(0);
                    let left = std::sync::atomic::AtomicUsize::new(0);
                    let meet = |n: usize, a: &std::sync::atomic::AtomicUsize| {
                        a.fetch_add(1, Ordering::AcqRel);
                        while a.load(Ordering::Acquire) < n {
                            std::hint::spin_loop();
                        }
                    };
                    let content = |i: usize| format!("c18-pair-{tag}-{p}-{i}").into_bytes();
                    std::thread::scope(|s2| {
                        s2.spawn(|| {
                            for i in 0..pair_rounds {
                                // wait for the handle of this round
                                let h = loop {
                                    if let Some(h) = slot.lock().unwrap().take() {
                                        break h;
                                    }
                                    std::hint::spin_loop();
                                };
                                meet(2 * (i + 1), &arrive);
                                for _ in 0..(i % 48) {
                                    std::hint::spin_loop();
                                }
                                drop(h);
                                left.fetch_add(1, Ordering::AcqRel);
                            }
                        });
                        let mut leaked = 0usize;
                        for i in 0..pair_rounds {
                            let c = content(i);
                            let mine = SharedString::new(c.clone());
                            *slot.lock().unwrap() = Some(mine.clone());
                            meet(2 * (i + 1), &arrive);
                            for _ in 0..((i / 48) % 48) {
                                std::hint::spin_loop();
                            }
                            drop(mine);
                            while left.load(Ordering::Acquire) < i + 1 {
                                std::hint::spin_loop();
                            }
                            if rbx_types::verif_cache_has(&c) {
                                leaked += 1;
                            }
                        }
                        if leaked > 0 {
                            errors.lock().unwrap().push(format!("paired releases: after {leaked} of {pair_rounds} rounds the intern table still holds an entry although both handles of the content were dropped"));
                        }
                    });
                });
            }
        });
        rbx_types::verif_set_yield_hook(Some(hook));
        r.evaluations += (pair_rounds * pairs) as u64;
    }
    r.evaluations += (iters * threads) as u64;
    r.distinct_nontrivial = r.evaluations;
    r.notes.push("uncontrolled schedule: a stress sample, not an exhaustive exploration".into());
    r.samples.push(serde_json::json!({"threads": threads, "ops_per_thread": iters, "contents": 3}));
    let mut errs = errors.into_inner().unwrap();
    if errs.is_empty() {
        for c in &contents {
            if rbx_types::verif_cache_has(c) {
                errs.push("intern table still holds an entry after every handle was dropped".into());
            }
        }
    }
    if let Some(e) = errs.first() {
        let path = crate::engine::write_replay("C18", "free-running-stress", &serde_json::json!({"iters": iters}), "c18:stress", e);
        let class = if e.contains("panicked") || e.contains("poisoned") { "panic" } else if e.contains("share") { "not-shared" } else { "state" };
        r.failures.push(crate::engine::Failure {
            key: format!("c18:stress:{class}"),
            msg: e.clone(),
            replay: Some(path),
        });
    }
    r.wall_s = start.elapsed().as_secs_f64();
    r
}

// ---------------------------------------------------------------------------
// single-threaded API sequences: every way a handle can appear or disappear, and many live contents

#[derive(Clone, Debug, Serialize, Deserialize)]
pub enum ApiOp {
    New(u8),
    Clone(u8),
    /// `dst.clone_from(&src)` (also what Vec::clone_from / Option::clone_from call)
    CloneFrom(u8, u8),
    /// `*dst = src.clone()`
    Assign(u8, u8),
    Drop(u8),
    /// `Vec<SharedString>::clone_from` over all live handles in reverse order
    VecCloneFrom,
    /// a worker thread takes over `k` of the live handles (and makes two of its own) and panics:
    /// they are dropped while that thread unwinds
    DropWhileUnwinding(u8),
}

#[derive(Clone, Debug, Serialize, Deserialize)]
pub struct ApiCase {
    pub ops: Vec<ApiOp>,
    /// distinct contents kept alive next to the sequence (0 = none)
    pub ballast: u16,
}

fn api_body(case: &ApiCase, ctx: &mut CaseCtx) -> PropResult {
    let tag = CASE_COUNTER.fetch_add(1, Ordering::Relaxed);
    // contents 0..4 are short; 5..7 are > 64 KiB / > 128 KiB buffers that share a long prefix and
    // differ only in their last bytes or in their length
    let content = |c: usize| -> Vec<u8> {
        let mut v = format!("c18-api-{tag}-").into_bytes();
        match c {
            5 | 6 | 7 => {
                v.resize(140_000, b'x');
                match c {
                    5 => {}
                    6 => *v.last_mut().unwrap() = b'y',
                    _ => v.truncate(139_000),
                }
            }
            _ => v.extend_from_slice(c.to_string().as_bytes()),
        }
        v
    };
    let ballast: Vec<SharedString> = (0..case.ballast as usize).map(|i| SharedString::new(content(1000 + i))).collect();
    let mut live: Vec<(SharedString, usize)> = Vec::new();
    let pick = |sel: u8, len: usize| if len == 0 { None } else { Some(sel as usize % len) };
    let mut used_clone_from = false;
    let mut unwound = false;
    let mut large = false;
    let res = crate::engine::catch(|| -> Result<(), Fail> {
        for op in &case.ops {
            match op {
                ApiOp::New(c) => {
                    let k = if *c >= 230 { 5 + (*c as usize % 3) } else { *c as usize % 5 };
                    large |= k >= 5;
                    live.push((SharedString::new(content(k)), k))
                }
                ApiOp::Clone(h) => {
                    if let Some(i) = pick(*h, live.len()) {
                        let x = (live[i].0.clone(), live[i].1);
                        live.push(x);
                    }
                }
                ApiOp::CloneFrom(d, s_) => {
                    if let (Some(d), Some(s_)) = (pick(*d, live.len()), pick(*s_, live.len())) {
                        if d != s_ {
                            let (src, c) = (live[s_].0.clone(), live[s_].1);
                            live[d].0.clone_from(&src);
                            live[d].1 = c;
                            used_clone_from = true;
                        }
                    }
                }
                ApiOp::Assign(d, s_) => {
                    if let (Some(d), Some(s_)) = (pick(*d, live.len()), pick(*s_, live.len())) {
                        if d != s_ {
                            let (src, c) = (live[s_].0.clone(), live[s_].1);
                            live[d] = (src, c);
                        }
                    }
                }
                ApiOp::Drop(h) => {
                    if let Some(i) = pick(*h, live.len()) {
                        live.swap_remove(i);
                    }
                }
                ApiOp::DropWhileUnwinding(k) => {
                    let take = (*k as usize % 4).min(live.len());
                    let moved: Vec<SharedString> = live.drain(live.len() - take..).map(|(h, _)| h).collect();
                    let extra = content(4);
                    let res = std::thread::spawn(move || {
                        let _mine = (SharedString::new(extra.clone()), SharedString::new(extra));
                        let _moved = moved;
                        crate::engine::quiet_panic("unwinding with SharedString handles alive");
                    })
                    .join();
                    ensure!(res.is_err(), "harness:c18", "worker did not panic");
                    unwound = true;
                }
                ApiOp::VecCloneFrom => {
                    if live.len() >= 2 {
                        let src: Vec<SharedString> = live.iter().rev().map(|(h, _)| h.clone()).collect();
                        let cs: Vec<usize> = live.iter().rev().map(|(_, c)| *c).collect();
                        let mut dst: Vec<SharedString> = live.drain(..).map(|(h, _)| h).collect();
                        dst.clone_from(&src);
                        live = dst.into_iter().zip(cs).collect();
                        used_clone_from = true;
                    }
                }
            }
            // every live handle: own bytes; equal contents share one buffer, are == and hash alike
            for (h, c) in &live {
                ensure!(h.data() == content(*c).as_slice(), "c18:api:wrong-bytes", "a handle shows other bytes than it was created from");
            }
            for i in 0..live.len() {
                for j in i + 1..live.len() {
                    if live[i].1 == live[j].1 {
                        ensure!(live[i].0.data().as_ptr() == live[j].0.data().as_ptr(), "c18:api:not-shared", "two live handles of one content hold different buffers after {:?}", op);
                        ensure!(live[i].0 == live[j].0, "c18:api:not-equal", "equal contents compare unequal");
                    }
                }
            }
        }
        // ballast re-interned: the same buffers
        for (i, b) in ballast.iter().enumerate() {
            let again = SharedString::new(content(1000 + i));
            ensure!(again.data().as_ptr() == b.data().as_ptr(), "c18:api:not-shared", "content #{i} of {} live contents was interned a second time into another buffer", ballast.len());
        }
        Ok(())
    });
    ctx.label_if(used_clone_from, "clone_from_used");
    ctx.label_if(unwound, "handles_dropped_while_unwinding");
    ctx.label_if(large, "large_contents_with_a_shared_prefix");
    ctx.label_if(case.ballast >= 1024, "more_than_1024_live_contents");
    ctx.nontrivial_if(used_clone_from || case.ballast >= 1024 || case.ops.len() >= 4);
    match res {
        Err(info) => fail!("c18:api:panic", "a SharedString operation panicked: {}", info.msg),
        Ok(Err(f)) => return Err(f),
        Ok(Ok(())) => {}
    }
    drop(live);
    drop(ballast);
    for c in 0..8 {
        ensure!(!rbx_types::verif_cache_has(&content(c)), "c18:api:entry-left-behind", "the intern table still holds content {c} after every handle was dropped");
    }
    for i in (0..case.ballast as usize).step_by(97) {
        ensure!(!rbx_types::verif_cache_has(&content(1000 + i)), "c18:api:entry-left-behind", "the intern table still holds ballast content {i} after every handle was dropped");
    }
    Ok(())
}

fn api_strategy() -> BoxedStrategy<ApiCase> {
    let op = prop_oneof![
        4 => any::<u8>().prop_map(ApiOp::New),
        2 => any::<u8>().prop_map(ApiOp::Clone),
        2 => (any::<u8>(), any::<u8>()).prop_map(|(a, b)| ApiOp::CloneFrom(a, b)),
        1 => (any::<u8>(), any::<u8>()).prop_map(|(a, b)| ApiOp::Assign(a, b)),
        3 => any::<u8>().prop_map(ApiOp::Drop),
        1 => Just(ApiOp::VecCloneFrom),
        1 => any::<u8>().prop_map(ApiOp::DropWhileUnwinding),
    ];
    (proptest::collection::vec(op, 0..14), prop_oneof![6 => Just(0u16), 2 => 1u16..64, 1 => 1000u16..2600])
        .prop_map(|(ops, ballast)| ApiCase { ops, ballast })
        .boxed()
}

pub fn op_strategy() -> BoxedStrategy<SOp> {
    prop_oneof![
        4 => (0u8..2).prop_map(SOp::New),
        2 => (0u8..3).prop_map(SOp::Clone),
        3 => (0u8..3).prop_map(SOp::Drop),
    ]
    .boxed()
}

/// Contents of one length that differ in a single place (first byte after the tag, middle, last
/// byte), or only in length (one byte shorter / longer, i.e. one a prefix of the other), all alive
/// together: none may be conflated with another, each repeated content must share its buffer.
#[derive(Clone, Debug, Serialize, Deserialize)]
pub struct SizeCase {
    pub len: usize,
}

fn size_body(case: &SizeCase, ctx: &mut CaseCtx) -> PropResult {
    let tag = CASE_COUNTER.fetch_add(1, Ordering::Relaxed);
    let n = case.len.max(40);
    let mut base = format!("c18-size-{tag:012}-").into_bytes();
    let head = base.len();
    let mut x = 0x9E37_79B9_7F4A_7C15u64 ^ tag;
    while base.len() < n {
        x ^= x << 13;
        x ^= x >> 7;
        x ^= x << 17;
        base.push((x >> 24) as u8);
    }
    let variant = |k: usize| -> Vec<u8> {
        let mut v = base.clone();
        match k {
            0 => {}
            1 => v[head] ^= 1,
            2 => v[n / 2] ^= 0x80,
            3 => v[n - 1] ^= 1,
            4 => v.truncate(n - 1),
            5 => v.push(b't'),
            6 => v[n - 2] ^= 4,
            _ => {
                // differs in the last whole 64-byte block only
                let at = (n - 1) / 64 * 64;
                v[at.min(n - 1)] ^= 2;
            }
        }
        v
    };
    let res = crate::engine::catch(|| -> Result<(), Fail> {
        let contents: Vec<Vec<u8>> = (0..8).map(variant).collect();
        let first: Vec<SharedString> = contents.iter().map(|c| SharedString::new(c.clone())).collect();
        let second: Vec<SharedString> = contents.iter().rev().map(|c| SharedString::new(c.clone())).collect();
        for (i, h) in first.iter().enumerate() {
            ensure!(h.data() == contents[i].as_slice(), "c18:sizes:wrong-bytes", "variant {i} of a {n}-byte content exposes other bytes than it was created from (its bytes equal those of variant {:?})", contents.iter().position(|c| c.as_slice() == h.data()));
            let again = &second[7 - i];
            ensure!(again.data() == contents[i].as_slice(), "c18:sizes:wrong-bytes", "second handle of variant {i} of a {n}-byte content exposes other bytes");
            ensure!(again.data().as_ptr() == h.data().as_ptr(), "c18:sizes:not-shared", "two live handles of one {n}-byte content (variant {i}) have different buffers");
            ensure!(again == h, "c18:sizes:equal-contents-unequal", "two handles of one {n}-byte content compare unequal");
            for (j, o) in first.iter().enumerate().skip(i + 1) {
                if contents[i] != contents[j] {
                    ensure!(h != o, "c18:sizes:distinct-contents-equal", "variants {i} and {j} of a {n}-byte content compare equal");
                    ensure!(h.data().as_ptr() != o.data().as_ptr(), "c18:sizes:conflated", "variants {i} and {j} of a {n}-byte content share one buffer");
                }
            }
        }
        drop(first);
        drop(second);
        for (i, c) in contents.iter().enumerate() {
            ensure!(!rbx_types::verif_cache_has(c), "c18:sizes:entry-left-behind", "the intern table still holds variant {i} of a {n}-byte content after every handle was dropped");
        }
        Ok(())
    });
    ctx.label(if n >= 1 << 20 { "at_least_1_MiB" } else if n >= 1 << 16 { "at_least_64_KiB" } else { "below_64_KiB" });
    ctx.nontrivial();
    match res {
        Err(info) => fail!("c18:sizes:panic", "a SharedString operation panicked: {}", info.msg),
        Ok(r) => r,
    }
}

pub fn run(ctx: &Ctx) -> PropertyReport {
    let mut rep = PropertyReport::new(
        "C18",
        "exploration",
        "2-3 threads each running a program of <= 4 new / clone / drop operations over an alphabet of 2 contents (unique per case), interleaved by a controller that owns the \
         schedule through the cfg(rbx_dom_verif) yield points (before the table lock in new(), between the last release and the table clean-up in Drop, and at every \
         operation boundary). After every step, with all threads parked: each live handle exposes its bytes, equal contents are ==, hash equal and share one buffer; no panic, no \
         stuck thread; at quiescence the table has no entry for the case's contents. Exhaustive DFS over all schedules of all small programs, plus random programs and schedules, \
         plus single-threaded API sequences (new / clone / clone_from / assignment / drop / Vec::clone_from, optionally next to 1000-2600 other live contents) with the same oracles, \
         plus contents of every length around each power of two up to 4 MiB (64 MiB in the thorough tier) in 8 variants that differ in one byte or one byte of length, all alive together, \
         plus an uncontrolled 16-thread stress run. Non-trivial = a schedule in which a Drop's clean-up half is separated from its release half by another thread's new().",
    );
    rep.assume("data races inside Arc / Mutex are trusted to std; the controlled granularity is the one the property names");
    // each execution keeps up to 4 spinning threads busy: 4 controllers fill 16 cores
    let mut cfg = ctx.cfg.clone();
    cfg.threads = (cfg.threads / 4).clamp(1, 4);
    let ctx = &Ctx {
        cfg: &cfg,
        findings: ctx.findings,
    };
    let sub = crate::engine::replay_subcheck_or_all(ctx);
    if sub.runs("exhaustive") {
        // all schedules of all program pairs over one content
        let alphabet = [SOp::New(0), SOp::Clone(0), SOp::Drop(0)];
        let len = ctx.cfg.tier.pick(2, 3);
        let progs = all_programs(len, &alphabet);
        let mut cases = Vec::new();
        for a in &progs {
            for b in &progs {
                cases.push(ProgramSet { programs: vec![a.clone(), b.clone()] });
            }
        }
        if ctx.cfg.tier == crate::engine::Tier::Thorough {
            // three threads: every triple of one-operation programs, and every triple in which one
            // thread runs two operations (all schedules of all 2-2-2 triples would be ~10^10 executions)
            let p1 = all_programs(1, &alphabet);
            let p2 = all_programs(2, &alphabet);
            for a in &p2 {
                for b in &p1 {
                    for c in &p1 {
                        cases.push(ProgramSet { programs: vec![a.clone(), b.clone(), c.clone()] });
                    }
                }
            }
        }
        let cases = if ctx.cfg.replay.is_some() { vec![] } else { cases };
        let mut r = ctx.run_list("exhaustive", cases, true, exhaustive_body);
        r.notes.push(format!("every schedule of every pair of {len}-operation programs over {{New, Clone, Drop}} on one content"));
        rep.push(r);
    }
    if sub.runs("random") {
        let cases = ctx.cfg.cases(20_000, 1_000_000);
        let strat = || {
            (
                proptest::collection::vec(proptest::collection::vec(op_strategy(), 1..5), 2..4),
                proptest::collection::vec(0u8..6, 0..40),
            )
                .prop_map(|(programs, schedule)| SchedCase { programs, schedule })
        };
        let mut r = ctx.run_prop("random", cases, strat, random_body);
        r.floor("cleanup_separated_from_release_by_a_new", cases / 500);
        rep.push(r);
    }
    if sub.runs("api-sequences") {
        let cases = ctx.cfg.cases(20_000, 600_000);
        rbx_types::verif_set_yield_hook(None);
        let mut r = ctx.run_prop("api-sequences", cases, api_strategy, api_body);
        r.floor("clone_from_used", cases / 20);
        r.floor("handles_dropped_while_unwinding", cases / 20);
        r.floor("large_contents_with_a_shared_prefix", cases / 20);
        r.floor("more_than_1024_live_contents", cases / 50);
        rep.push(r);
    }
    if sub.runs("content-sizes") {
        rbx_types::verif_set_yield_hook(None);
        let mut lens: Vec<usize> = vec![40, 63, 64, 65, 127, 128, 129, 1000];
        let top = ctx.cfg.tier.pick(22u32, 26);
        for p in 8..=top {
            for d in [-1i64, 0, 1, 63, 64, 65] {
                lens.push(((1i64 << p) + d) as usize);
            }
        }
        lens.extend([3 << 10, 3 << 16, 3 << 20, 5 << 20, 1_000_003, 3_000_001]);
        lens.sort();
        lens.dedup();
        let cases: Vec<SizeCase> = lens.into_iter().map(|len| SizeCase { len }).collect();
        rep.push(ctx.run_list("content-sizes", cases, true, size_body));
    }
    if sub.runs("free-running-stress") {
        rep.push(stress(ctx));
    }
    rep
}
