//! C13 — decoders never panic or hang; truncation and I/O faults surface as errors.

use std::io::{self, Read, Write};

use proptest::prelude::*;
use proptest::sample::select;
use serde::{Deserialize, Serialize};

use crate::engine::{catch, panic_key, CaseCtx, Ctx, Fail, PropResult, PropertyReport};
use crate::gen::forest::{self, BuildMode, GForest};
use crate::gen::vals::{self, GVal, TextMode, ValProfile};
use crate::sandbox::{self, Kind, Outcome};
use crate::spec::binbuild::{self, Plan};
use crate::spec::refbin::{self, Comp, Dialect, PlannedChunk};
use crate::{ensure, fail};

use super::c01::{binary_profile, COMPRESSIONS};
use super::c02::{xml_profile, Pairing};

// ---------------------------------------------------------------------------
// Base inputs

#[derive(Clone, Debug, Serialize, Deserialize)]
pub enum Base {
    /// written by rbx_binary with compression index 0..3
    OwnBinary(GForest, u8),
    /// written by the reference encoder under a plan
    ForeignBinary(GForest, Plan),
    /// written by rbx_xml (WriteUnknown)
    OwnXml(GForest),
    /// attribute blob from the reference attribute encoder
    AttrBlob(Vec<(String, GVal)>),
    /// raw bytes
    Raw(Vec<u8>, u8),
    /// a well-formed XML document whose Properties hold elements of type names the reader does not
    /// know: (type-name selector, property-name selector, nesting inside the element) per element -
    /// the same unknown type may appear several times, in one Item or in several
    XmlUnknownTypes(Vec<(u8, u8, u8)>, bool),
}

impl Base {
    pub fn kind(&self) -> Kind {
        match self {
            Base::OwnBinary(..) | Base::ForeignBinary(..) => Kind::Binary,
            Base::OwnXml(_) => Kind::XmlReadUnknown,
            Base::XmlUnknownTypes(_, read_unknown) => {
                if *read_unknown {
                    Kind::XmlReadUnknown
                } else {
                    Kind::Xml
                }
            }
            Base::AttrBlob(_) => Kind::Attributes,
            Base::Raw(_, k) => match k % 4 {
                0 => Kind::Binary,
                1 => Kind::Xml,
                2 => Kind::XmlReadUnknown,
                _ => Kind::Attributes,
            },
        }
    }

    pub fn render(&self) -> Result<Vec<u8>, Fail> {
        match self {
            Base::OwnBinary(f, c) => {
                let built = forest::build(f, BuildMode::Builder, None);
                let roots = built.root_refs(f);
                super::c01::write_binary(&built.dom, &roots, COMPRESSIONS[*c as usize % 3].0)
            }
            Base::ForeignBinary(f, plan) => {
                let complete = binbuild::complete_columns(f);
                binbuild::encode(&complete, plan, Dialect::implementation())
                    .map(|b| b.bytes)
                    .map_err(|e| Fail::new("harness-encode", e))
            }
            Base::OwnXml(f) => {
                let built = forest::build(f, BuildMode::Builder, None);
                let roots = built.root_refs(f);
                super::c02::write_xml(&built.dom, &roots, Pairing::Unknown.options().0)
            }
            Base::AttrBlob(e) => crate::spec::refattr::encode(e).map_err(|e| Fail::new("harness-encode", e.0)),
            Base::Raw(b, _) => Ok(b.clone()),
            Base::XmlUnknownTypes(elems, _) => {
                const TYPES: [&str; 6] = ["Wibble", "QFont", "SystemAddress", "Vector4", "int128", "ProtectedString2"];
                let mut doc = String::from("<roblox version=\"4\">");
                for (item, chunk) in elems.chunks(3).enumerate() {
                    doc.push_str(&format!("<Item class=\"Folder\" referent=\"RBX{item}\"><Properties><string name=\"Name\">f{item}</string>"));
                    for (t, p, nest) in chunk {
                        let ty = TYPES[*t as usize % TYPES.len()];
                        let inner = match nest % 4 {
                            0 => "text".to_string(),
                            1 => "<X>1</X><Y>2</Y>".to_string(),
                            2 => String::new(),
                            _ => format!("<{ty}>again</{ty}>"),
                        };
                        doc.push_str(&format!("<{ty} name=\"P{}\">{inner}</{ty}>", p % 4));
                    }
                    doc.push_str("<bool name=\"Archivable\">true</bool></Properties></Item>");
                }
                doc.push_str("</roblox>");
                Ok(doc.into_bytes())
            }
        }
    }
}

fn small_binary_profile(max_nodes: usize) -> forest::ForestProfile {
    let mut p = binary_profile(max_nodes);
    p.max_props = 4;
    p.narrow_numbers = false;
    p
}

pub fn base_strategy(max_nodes: usize) -> BoxedStrategy<Base> {
    let attr = proptest::collection::vec(
        (
            vals::text(TextMode::Any),
            vals::attribute_value(ValProfile::binary(), true),
        ),
        0..6,
    )
    .prop_map(|mut v| {
        v.sort_by(|a, b| a.0.cmp(&b.0));
        v.dedup_by(|a, b| a.0 == b.0);
        Base::AttrBlob(v)
    });
    prop_oneof![
        5 => (forest::forest(small_binary_profile(max_nodes)), prop_oneof![3 => Just(1u8), 1 => Just(0u8), 1 => Just(2u8)])
            .prop_map(|(f, c)| Base::OwnBinary(f, c)),
        3 => (forest::forest({ let mut p = small_binary_profile(max_nodes); p.free_roots = false; p }), super::c04::plan_strategy())
            .prop_map(|(f, p)| Base::ForeignBinary(f, p)),
        4 => forest::forest(xml_profile(max_nodes, false, TextMode::Xml)).prop_map(Base::OwnXml),
        3 => attr,
        1 => (vals::bytes(200), any::<u8>()).prop_map(|(b, k)| Base::Raw(b, k)),
        2 => (proptest::collection::vec((0u8..6, any::<u8>(), any::<u8>()), 1..8), any::<bool>()).prop_map(|(e, r)| Base::XmlUnknownTypes(e, r)),
        1 => (any::<u8>()).prop_map(|k| {
            // a bare valid header
            Base::Raw(refbin::header(0, 0), k & 0xfc)
        }),
    ]
    .boxed()
}

// ---------------------------------------------------------------------------
// Mutations

pub const U32_EDGE: &[u32] = &[
    0,
    1,
    2,
    3,
    0x7f,
    0x80,
    0xff,
    0x100,
    0xffff,
    0x10000,
    0x00ff_ffff,
    0x0100_0000,
    0x7fff_ffff,
    0x8000_0000,
    0xffff_fffe,
    0xffff_ffff,
    0x1000_0000,
    0x4000_0000,
];

#[derive(Clone, Debug, Serialize, Deserialize)]
pub enum Mutation {
    BitFlip(u16, u8),
    ByteSet(u16, u8),
    Truncate(u16),
    Insert(u16, Vec<u8>),
    Delete(u16, u8),
    DupRange(u16, u8, u16),
    /// overwrite 4 bytes at a position with a little-endian u32
    SetU32Le(u16, u32),
    /// overwrite 4 bytes at a position with a big-endian u32
    SetU32Be(u16, u32),
    /// binary container: header field (0 version, 1 class count, 2 instance count, 3 reserved)
    HeaderField(u8, u32),
    /// binary container: chunk header field (0 compressed len, 1 len, 2 reserved, 3 name byte)
    ChunkField(u16, u8, u32),
    /// binary container: edit the decompressed payload of a chunk, then re-frame it
    ChunkPayloadU32(u16, u16, u32),
    ChunkPayloadByte(u16, u16, u8),
    ChunkTruncate(u16, u16),
    /// binary container: drop the last 1..=8 bytes of a chunk's decompressed payload (trailing
    /// arrays such as the OptionalCFrame presence flags live there), header kept consistent
    ChunkTruncateTail(u16, u8),
    SwapChunks(u16, u16),
    DupChunk(u16),
    DropChunk(u16),
    /// XML: replace the k-th occurrence of a dictionary needle
    XmlReplace(u8, u16, u8),
    /// XML: wrap the body in `depth` nested Items
    XmlNest(u32),
}

const XML_NEEDLES: &[&str] = &[
    "<Item", "</Item>", "<Properties>", "</Properties>", "referent=\"", "name=\"", "class=\"", "<roblox", "</roblox>",
    "version=\"4\"", "<string", "</string>", "<BinaryString", "<Ref", "null", "<![CDATA[", "]]>", ">0<", ">1<", "<X>", "</X>",
    "<SharedStrings>", "<SharedString", "md5=\"", "<float", "<int", "<token", "<UniqueId", "<Font", "<CoordinateFrame", "<R00>",
    "<OptionalCoordinateFrame", "<Content", "<url>", "<null>", "<Color3uint8", "<NumberSequence", "<PhysicalProperties", "<CustomPhysics>", " ",
];

const XML_REPLACEMENTS: &[&str] = &[
    "", "<Item", "</Item>", "<", ">", "&", "&amp;", "&#0;", "&#xD800;", "<![CDATA[", "]]>", "\"", "99999999999999999999999999", "-1", "NAN",
    "1e999", "\u{0}", "<Properties>", "</Properties>", "<Item class=\"Folder\" referent=\"null\">", "<!--", "<?xml version=\"1.0\"?>", "<!DOCTYPE a [<!ENTITY b \"c\">]>",
    "&b;", "<External>null</External>", "<Meta name=\"x\">y</Meta>", "====", "AAAA", "version=\"5\"", "<X>INF</X>", "<Ref name=\"r\">0</Ref>",
];

pub fn mutation_strategy() -> BoxedStrategy<Mutation> {
    let p = || any::<u16>();
    let edge = || prop_oneof![3 => select(U32_EDGE), 1 => any::<u32>()];
    prop_oneof![
        3 => (p(), 0u8..8).prop_map(|(a, b)| Mutation::BitFlip(a, b)),
        3 => (p(), any::<u8>()).prop_map(|(a, b)| Mutation::ByteSet(a, b)),
        2 => p().prop_map(Mutation::Truncate),
        1 => (p(), vals::bytes(12)).prop_map(|(a, b)| Mutation::Insert(a, b)),
        1 => (p(), 1u8..32).prop_map(|(a, b)| Mutation::Delete(a, b)),
        1 => (p(), 1u8..64, p()).prop_map(|(a, b, c)| Mutation::DupRange(a, b, c)),
        3 => (p(), edge()).prop_map(|(a, b)| Mutation::SetU32Le(a, b)),
        1 => (p(), edge()).prop_map(|(a, b)| Mutation::SetU32Be(a, b)),
        2 => (0u8..4, edge()).prop_map(|(a, b)| Mutation::HeaderField(a, b)),
        3 => (p(), 0u8..4, edge()).prop_map(|(a, b, c)| Mutation::ChunkField(a, b, c)),
        5 => (p(), p(), edge()).prop_map(|(a, b, c)| Mutation::ChunkPayloadU32(a, b, c)),
        4 => (p(), p(), any::<u8>()).prop_map(|(a, b, c)| Mutation::ChunkPayloadByte(a, b, c)),
        2 => (p(), p()).prop_map(|(a, b)| Mutation::ChunkTruncate(a, b)),
        4 => (p(), 1u8..=8).prop_map(|(a, b)| Mutation::ChunkTruncateTail(a, b)),
        1 => (p(), p()).prop_map(|(a, b)| Mutation::SwapChunks(a, b)),
        1 => p().prop_map(Mutation::DupChunk),
        1 => p().prop_map(Mutation::DropChunk),
        5 => (any::<u8>(), p(), any::<u8>()).prop_map(|(a, b, c)| Mutation::XmlReplace(a, b, c)),
        1 => prop_oneof![3 => 1u32..200, 1 => select(vec![1000u32, 5000, 20_000, 60_000])].prop_map(Mutation::XmlNest),
    ]
    .boxed()
}

fn at(sel: u16, len: usize) -> usize {
    if len == 0 {
        0
    } else {
        (sel as usize * len) >> 16
    }
}

/// Container view used by the structured binary mutations.
struct Container {
    header: [u32; 4],
    chunks: Vec<(PlannedChunk, [Option<u32>; 3])>,
}

fn open_container(bytes: &[u8]) -> Option<Container> {
    let raw = refbin::parse_container(bytes).ok()?;
    Some(Container {
        header: [raw.version as u32, raw.class_count, raw.instance_count, 0],
        chunks: raw
            .chunks
            .iter()
            .map(|c| {
                (
                    PlannedChunk {
                        name: c.name,
                        data: c.data.clone(),
                        comp: c.comp,
                    },
                    [None, None, None],
                )
            })
            .collect(),
    })
}

fn close_container(c: &Container) -> Vec<u8> {
    let mut out = Vec::new();
    out.extend_from_slice(refbin::MAGIC);
    out.extend_from_slice(refbin::SIGNATURE);
    out.extend_from_slice(&(c.header[0] as u16).to_le_bytes());
    out.extend_from_slice(&c.header[1].to_le_bytes());
    out.extend_from_slice(&c.header[2].to_le_bytes());
    out.extend_from_slice(&c.header[3].to_le_bytes());
    out.extend_from_slice(&[0u8; 4]);
    for (ch, overrides) in &c.chunks {
        let start = out.len();
        refbin::frame_chunk(&mut out, ch);
        for (i, o) in overrides.iter().enumerate() {
            if let Some(v) = o {
                let off = start + 4 + 4 * i;
                out[off..off + 4].copy_from_slice(&v.to_le_bytes());
            }
        }
    }
    out
}

pub fn apply_mutations(kind: Kind, base: &[u8], muts: &[Mutation], ctx: &mut CaseCtx) -> Vec<u8> {
    let mut bytes = base.to_vec();
    for m in muts {
        match m {
            Mutation::BitFlip(p, b) => {
                if !bytes.is_empty() {
                    let i = at(*p, bytes.len());
                    bytes[i] ^= 1 << b;
                    ctx.label("mut:bitflip");
                }
            }
            Mutation::ByteSet(p, v) => {
                if !bytes.is_empty() {
                    let i = at(*p, bytes.len());
                    bytes[i] = *v;
                    ctx.label("mut:byteset");
                }
            }
            Mutation::Truncate(p) => {
                let i = at(*p, bytes.len() + 1);
                bytes.truncate(i);
                ctx.label("mut:truncate");
            }
            Mutation::Insert(p, b) => {
                let i = at(*p, bytes.len() + 1);
                let tail = bytes.split_off(i);
                bytes.extend_from_slice(b);
                bytes.extend_from_slice(&tail);
                ctx.label("mut:insert");
            }
            Mutation::Delete(p, n) => {
                if !bytes.is_empty() {
                    let i = at(*p, bytes.len());
                    let end = (i + *n as usize).min(bytes.len());
                    bytes.drain(i..end);
                    ctx.label("mut:delete");
                }
            }
            Mutation::DupRange(p, n, d) => {
                if !bytes.is_empty() {
                    let i = at(*p, bytes.len());
                    let end = (i + *n as usize).min(bytes.len());
                    let piece = bytes[i..end].to_vec();
                    let j = at(*d, bytes.len() + 1);
                    let tail = bytes.split_off(j);
                    bytes.extend_from_slice(&piece);
                    bytes.extend_from_slice(&tail);
                    ctx.label("mut:splice");
                }
            }
            Mutation::SetU32Le(p, v) | Mutation::SetU32Be(p, v) => {
                if bytes.len() >= 4 {
                    let i = at(*p, bytes.len() - 3);
                    let b = if matches!(m, Mutation::SetU32Le(..)) {
                        v.to_le_bytes()
                    } else {
                        v.to_be_bytes()
                    };
                    bytes[i..i + 4].copy_from_slice(&b);
                    ctx.label("mut:length_field");
                }
            }
            Mutation::HeaderField(..)
            | Mutation::ChunkField(..)
            | Mutation::ChunkPayloadU32(..)
            | Mutation::ChunkPayloadByte(..)
            | Mutation::ChunkTruncate(..)
            | Mutation::ChunkTruncateTail(..)
            | Mutation::SwapChunks(..)
            | Mutation::DupChunk(_)
            | Mutation::DropChunk(_) => {
                if kind != Kind::Binary {
                    continue;
                }
                let Some(mut c) = open_container(&bytes) else { continue };
                if c.chunks.is_empty() {
                    continue;
                }
                let n = c.chunks.len();
                match m {
                    Mutation::HeaderField(f, v) => {
                        c.header[*f as usize % 4] = *v;
                        ctx.label("mut:header_field");
                    }
                    Mutation::ChunkField(ci, f, v) => {
                        let i = at(*ci, n);
                        if *f == 3 {
                            c.chunks[i].0.name[(*v % 4) as usize] ^= (*v >> 8) as u8 | 1;
                        } else {
                            c.chunks[i].1[*f as usize] = Some(*v);
                        }
                        ctx.label("mut:chunk_header_field");
                    }
                    Mutation::ChunkPayloadU32(ci, off, v) => {
                        let i = at(*ci, n);
                        let d = &mut c.chunks[i].0.data;
                        if d.len() >= 4 {
                            let o = at(*off, d.len() - 3);
                            d[o..o + 4].copy_from_slice(&v.to_le_bytes());
                            ctx.label("mut:chunk_payload_u32");
                        }
                    }
                    Mutation::ChunkPayloadByte(ci, off, v) => {
                        let i = at(*ci, n);
                        let d = &mut c.chunks[i].0.data;
                        if !d.is_empty() {
                            let o = at(*off, d.len());
                            d[o] = *v;
                            ctx.label("mut:chunk_payload_byte");
                        }
                    }
                    Mutation::ChunkTruncate(ci, off) => {
                        let i = at(*ci, n);
                        let d = &mut c.chunks[i].0.data;
                        let o = at(*off, d.len() + 1);
                        d.truncate(o);
                        ctx.label("mut:chunk_truncate");
                    }
                    Mutation::ChunkTruncateTail(ci, k) => {
                        let i = at(*ci, n);
                        let d = &mut c.chunks[i].0.data;
                        let keep = d.len().saturating_sub(*k as usize);
                        d.truncate(keep);
                        ctx.label("mut:chunk_truncate_tail");
                    }
                    Mutation::SwapChunks(a, b) => {
                        let (i, j) = (at(*a, n), at(*b, n));
                        c.chunks.swap(i, j);
                        ctx.label("mut:chunk_reorder");
                    }
                    Mutation::DupChunk(a) => {
                        let i = at(*a, n);
                        let ch = (c.chunks[i].0.clone(), c.chunks[i].1);
                        c.chunks.insert(i, ch);
                        ctx.label("mut:chunk_duplicate");
                    }
                    Mutation::DropChunk(a) => {
                        let i = at(*a, n);
                        c.chunks.remove(i);
                        ctx.label("mut:chunk_drop");
                    }
                    _ => unreachable!(),
                }
                bytes = close_container(&c);
            }
            Mutation::XmlReplace(ni, occ, ri) => {
                if !matches!(kind, Kind::Xml | Kind::XmlReadUnknown) {
                    continue;
                }
                let needle = XML_NEEDLES[*ni as usize % XML_NEEDLES.len()].as_bytes();
                let rep = XML_REPLACEMENTS[*ri as usize % XML_REPLACEMENTS.len()].as_bytes();
                let positions: Vec<usize> = bytes
                    .windows(needle.len())
                    .enumerate()
                    .filter(|(_, w)| *w == needle)
                    .map(|(i, _)| i)
                    .collect();
                if !positions.is_empty() {
                    let i = positions[at(*occ, positions.len())];
                    let mut out = bytes[..i].to_vec();
                    out.extend_from_slice(rep);
                    out.extend_from_slice(&bytes[i + needle.len()..]);
                    bytes = out;
                    ctx.label("mut:xml_replace");
                }
            }
            Mutation::XmlNest(depth) => {
                if !matches!(kind, Kind::Xml | Kind::XmlReadUnknown) {
                    continue;
                }
                let text = String::from_utf8_lossy(&bytes).to_string();
                if let (Some(open_end), Some(close)) = (text.find('>'), text.rfind("</roblox>")) {
                    if open_end < close {
                        let mut out = String::with_capacity(text.len() + *depth as usize * 60);
                        out.push_str(&text[..=open_end]);
                        for i in 0..*depth {
                            out.push_str(&format!("<Item class=\"Folder\" referent=\"N{i}\"><Properties></Properties>"));
                        }
                        out.push_str(&text[open_end + 1..close]);
                        for _ in 0..*depth {
                            out.push_str("</Item>");
                        }
                        out.push_str("</roblox>");
                        bytes = out.into_bytes();
                        ctx.label(if *depth >= 1000 { "mut:xml_deep_nesting" } else { "mut:xml_nesting" });
                    }
                }
            }
        }
    }
    bytes
}

#[derive(Clone, Debug, Serialize, Deserialize)]
pub struct FuzzCase {
    pub base: Base,
    pub muts: Vec<Mutation>,
}

fn header_class_error(kind: Kind, msg: &str) -> bool {
    match kind {
        Kind::Binary => msg.contains("Invalid file header") || msg.contains("Unknown file version"),
        Kind::Xml | Kind::XmlReadUnknown => msg.contains("line 1") && msg.contains("column 1:"),
        Kind::Attributes => false,
    }
}

pub fn outcome_to_result(kind: Kind, outcome: &Outcome, bytes: &[u8], ctx: &mut CaseCtx) -> PropResult {
    match outcome {
        Outcome::Ok(_) => {
            ctx.label("outcome:ok");
            ctx.nontrivial();
            Ok(())
        }
        Outcome::Err(e) => {
            ctx.label("outcome:err");
            if !header_class_error(kind, e) {
                ctx.label("got_past_header");
                ctx.nontrivial();
            }
            Ok(())
        }
        Outcome::Panic(key, msg) => {
            ctx.nontrivial();
            Err(Fail::new(key.clone(), format!("{kind:?} decoder panicked on {} bytes: {msg}", bytes.len())))
        }
        Outcome::Oversize { size, site } => {
            ctx.nontrivial();
            Err(Fail::new(
                format!("oversize-alloc@{site}"),
                format!(
                    "{kind:?} decoder requested {size} bytes in one allocation for a {}-byte input (limit {}) at {site}",
                    bytes.len(),
                    sandbox::alloc_limit_for(bytes.len())
                ),
            ))
        }
        Outcome::Died(how) => {
            ctx.nontrivial();
            let key = if how.contains("stack overflow") {
                format!("stack-overflow:{kind:?}")
            } else {
                format!("died:{kind:?}:{}", crate::engine::normalise_msg(how).chars().take(60).collect::<String>())
            };
            Err(Fail::new(key, format!("{kind:?} decoder killed the process on {} bytes: {how}", bytes.len())))
        }
        Outcome::Timeout => Err(Fail::new(format!("hang:{kind:?}"), format!("{kind:?} decoder did not return within 20 s on {} bytes", bytes.len()))),
    }
}

fn fuzz_body(case: &FuzzCase, ctx: &mut CaseCtx) -> PropResult {
    let kind = case.base.kind();
    let base = match case.base.render() {
        Ok(b) => b,
        Err(f) if f.key.starts_with("serialize-error") || f.key.starts_with("xml-encode-error") => {
            ctx.excluded("base file not serializable");
            return Ok(());
        }
        Err(f) => return Err(f),
    };
    let bytes = apply_mutations(kind, &base, &case.muts, ctx);
    ctx.label(match kind {
        Kind::Binary => "kind:binary",
        Kind::Xml | Kind::XmlReadUnknown => "kind:xml",
        Kind::Attributes => "kind:attributes",
    });
    let mut outcome = sandbox::sandboxed_decode(kind, &bytes);
    if outcome == Outcome::Timeout {
        // only a reproducible time-out counts
        outcome = sandbox::sandboxed_decode(kind, &bytes);
        if outcome != Outcome::Timeout {
            ctx.label("timeout_not_reproduced");
        }
    }
    outcome_to_result(kind, &outcome, &bytes, ctx)
}

pub fn fuzz_case_strategy(max_nodes: usize) -> BoxedStrategy<FuzzCase> {
    (
        base_strategy(max_nodes),
        proptest::collection::vec(mutation_strategy(), 0..5),
    )
        .prop_map(|(base, muts)| FuzzCase { base, muts })
        .boxed()
}

// ---------------------------------------------------------------------------
// 2. every strict prefix of a valid file is rejected

#[derive(Clone, Debug, Serialize, Deserialize)]
pub struct FileCase {
    pub forest: GForest,
    /// 0..3 binary compression, 3 = XML
    pub format: u8,
}

fn file_case_strategy(max_nodes: usize) -> BoxedStrategy<FileCase> {
    prop_oneof![
        3 => (forest::forest(small_binary_profile(max_nodes)), 0u8..3).prop_map(|(forest, format)| FileCase { forest, format }),
        1 => forest::forest(xml_profile(max_nodes, false, TextMode::Xml)).prop_map(|forest| FileCase { forest, format: 3 }),
    ]
    .boxed()
}

fn render_file(case: &FileCase) -> Result<(Kind, Vec<u8>), Fail> {
    let built = forest::build(&case.forest, BuildMode::Builder, None);
    let roots = built.root_refs(&case.forest);
    if case.format < 3 {
        Ok((
            Kind::Binary,
            super::c01::write_binary(&built.dom, &roots, COMPRESSIONS[case.format as usize].0)?,
        ))
    } else {
        Ok((
            Kind::XmlReadUnknown,
            super::c02::write_xml(&built.dom, &roots, Pairing::Unknown.options().0)?,
        ))
    }
}

fn prefix_body(case: &FileCase, ctx: &mut CaseCtx) -> PropResult {
    let (kind, bytes) = match render_file(case) {
        Ok(x) => x,
        Err(f) if f.key.starts_with("serialize-error") || f.key.starts_with("xml-encode-error") => {
            ctx.excluded("base file not serializable");
            return Ok(());
        }
        Err(f) => return Err(f),
    };
    // the complete file decodes
    match sandbox::decode_in_process(kind, &bytes) {
        Outcome::Ok(_) => {}
        other => fail!("prefix:complete-file-rejected", "the complete file does not decode: {other:?}"),
    }
    // for XML, whitespace after the closing tag is not part of the document
    let mut end = bytes.len();
    if kind != Kind::Binary {
        while end > 0 && (bytes[end - 1] as char).is_ascii_whitespace() {
            end -= 1;
        }
    }
    ctx.label(match case.format {
        0 => "file:binary-lz4",
        1 => "file:binary-none",
        2 => "file:binary-zstd",
        _ => "file:xml",
    });
    ctx.nontrivial_if(end > 64);
    for cut in 0..end {
        match sandbox::decode_in_process(kind, &bytes[..cut]) {
            Outcome::Err(_) => {}
            Outcome::Ok(d) => fail!(
                format!("prefix:accepted:{kind:?}"),
                "prefix of {cut} bytes of a {end}-byte file was accepted ({d})"
            ),
            Outcome::Panic(key, msg) => {
                return Err(Fail::new(key, format!("prefix of {cut}/{end} bytes: {msg}")))
            }
            other => fail!("prefix:other", "prefix of {cut} bytes: {other:?}"),
        }
    }
    ctx.add_evals(end as u64);
    Ok(())
}

// ---------------------------------------------------------------------------
// 3. delivery independence

#[derive(Clone, Debug, Serialize, Deserialize)]
pub struct DeliveryCase {
    pub file: FileCase,
    pub muts: Vec<Mutation>,
    /// sizes of successive read() results (cycled); 0 = inject ErrorKind::Interrupted
    pub partition: Vec<u8>,
}

struct Chopped<'a> {
    data: &'a [u8],
    pos: usize,
    plan: &'a [u8],
    step: usize,
    interrupts: usize,
    just_interrupted: bool,
}

impl Read for Chopped<'_> {
    fn read(&mut self, buf: &mut [u8]) -> io::Result<usize> {
        if buf.is_empty() {
            return Ok(0);
        }
        let k = if self.plan.is_empty() {
            255
        } else {
            self.plan[self.step % self.plan.len()]
        };
        self.step += 1;
        // an interrupted read is always followed by one that makes progress
        // (a reader that is interrupted forever never returns for anybody)
        if k == 0 && self.pos < self.data.len() && !self.just_interrupted {
            self.interrupts += 1;
            self.just_interrupted = true;
            return Err(io::Error::new(io::ErrorKind::Interrupted, "injected EINTR"));
        }
        self.just_interrupted = false;
        let n = (k.max(1) as usize).min(buf.len()).min(self.data.len() - self.pos);
        buf[..n].copy_from_slice(&self.data[self.pos..self.pos + n]);
        self.pos += n;
        Ok(n)
    }
}

/// UniqueIds regenerated after a collision inside the reader's DOM (two default-filled nil ids) are
/// random, so two decodes of one file may differ there and nowhere else.
fn without_unique_ids(mut d: forest::CanonDom) -> forest::CanonDom {
    let mut stack: Vec<&mut forest::CanonInst> = d.roots.iter_mut().collect();
    while let Some(i) = stack.pop() {
        i.props.remove("UniqueId");
        stack.extend(i.children.iter_mut());
    }
    d
}

fn decode_dom(kind: Kind, r: impl Read) -> Result<Result<forest::CanonDom, String>, crate::engine::PanicInfo> {
    catch(|| match kind {
        Kind::Binary => rbx_binary::from_reader(r).map(|d| without_unique_ids(forest::observe(&d))).map_err(|e| e.to_string()),
        _ => rbx_xml::from_reader(
            r,
            rbx_xml::DecodeOptions::new().property_behavior(rbx_xml::DecodePropertyBehavior::ReadUnknown),
        )
        .map(|d| without_unique_ids(forest::observe(&d)))
        .map_err(|e| e.to_string()),
    })
}

/// Delivery independence for attribute blobs and for files far larger than any read buffer.
#[derive(Clone, Debug, Serialize, Deserialize)]
pub enum BigDelivery {
    /// an attribute blob (generated map) read through the chopped reader
    Attributes { entries: Vec<(String, GVal)>, partition: Vec<u8> },
    /// a file with one incompressible value of `n` bytes (format 0..3 binary compression, 3 XML)
    LargeFile { n: usize, format: u8, partition: Vec<u8> },
}

fn big_delivery_body(case: &BigDelivery, ctx: &mut CaseCtx) -> PropResult {
    match case {
        BigDelivery::Attributes { entries, partition } => {
            let bytes = super::c14::crate_encode(entries)?;
            let oneshot = catch(|| rbx_types::Attributes::from_reader(bytes.as_slice()).map_err(|e| e.to_string())).map_err(|i| Fail::new(panic_key(&i), i.msg))?;
            let mut rd = Chopped { data: &bytes, pos: 0, plan: partition, step: 0, interrupts: 0, just_interrupted: false };
            let chopped = catch(|| rbx_types::Attributes::from_reader(&mut rd).map_err(|e| e.to_string())).map_err(|i| Fail::new(panic_key(&i), format!("with chopped delivery: {}", i.msg)))?;
            ctx.label("attribute_blob");
            ctx.label_if(rd.interrupts > 0, "interrupted_reads_injected");
            ctx.nontrivial_if(!entries.is_empty());
            match (oneshot, chopped) {
                (Ok(a), Ok(b)) => ensure!(super::c14::observe_attrs(&a) == super::c14::observe_attrs(&b), "delivery:different-value:Attributes", "decoded attribute map depends on how the reader delivered the bytes"),
                (Err(_), Err(_)) => {}
                (Ok(_), Err(e)) => {
                    let k = if rd.interrupts > 0 && e.to_lowercase().contains("interrupt") { "delivery:interrupted-read-not-retried:Attributes" } else { "delivery:rejects-when-chopped:Attributes" };
                    fail!(k, "a {}-byte attribute blob decodes in one piece but not in pieces {:?}: {e}", bytes.len(), partition)
                }
                (Err(e), Ok(_)) => fail!("delivery:accepts-when-chopped:Attributes", "one-shot decode fails ({e}) but chopped delivery succeeds"),
            }
        }
        BigDelivery::LargeFile { n, format, partition } => {
            let forest = super::c01::large_forest(&super::c01::LargeCase::LongValue { kind: "Incompressible".into(), n: *n });
            let (kind, bytes) = render_file(&FileCase { forest, format: *format })?;
            let oneshot = decode_dom(kind, bytes.as_slice()).map_err(|i| Fail::new(panic_key(&i), i.msg))?;
            let mut rd = Chopped { data: &bytes, pos: 0, plan: partition, step: 0, interrupts: 0, just_interrupted: false };
            let chopped = decode_dom(kind, &mut rd).map_err(|i| Fail::new(panic_key(&i), format!("with chopped delivery: {}", i.msg)))?;
            ctx.label("large_file");
            ctx.label_if(rd.interrupts > 0, "interrupted_reads_injected");
            ctx.nontrivial();
            match (oneshot, chopped) {
                (Ok(a), Ok(b)) => ensure!(a == b, format!("delivery:different-dom:{kind:?}"), "decoded DOM of a {}-byte file depends on how the reader delivered the bytes", bytes.len()),
                (Err(_), Err(_)) => {}
                (Ok(_), Err(e)) => {
                    let k = if rd.interrupts > 0 && e.to_lowercase().contains("interrupt") { format!("delivery:interrupted-read-not-retried:{kind:?}") } else { format!("delivery:rejects-when-chopped:{kind:?}") };
                    fail!(k, "a {}-byte file decodes in one piece but not in pieces {:?} ({} interrupts): {e}", bytes.len(), partition, rd.interrupts)
                }
                (Err(e), Ok(_)) => fail!(format!("delivery:accepts-when-chopped:{kind:?}"), "one-shot decode fails ({e}) but chopped delivery succeeds"),
            }
        }
    }
    Ok(())
}

/// Blob decoders reached with arbitrary bytes: directly, and through a property of a file.
#[derive(Clone, Debug, Serialize, Deserialize)]
pub struct BlobCase {
    /// 0 MaterialColors::decode, 1 Tags::decode, 2 Terrain.MaterialColors in a binary file, 3 the same in XML,
    /// 4 Instance.Tags in a binary file, 5 Instance.Tags in XML, 6 UniqueId::from_str of the bytes read as
    /// (lossy) UTF-8 fitted to 32 bytes, 7 the same text inside an XML <UniqueId> element
    pub route: u8,
    pub bytes: Vec<u8>,
}

/// The bytes as text of exactly 32 bytes (the length UniqueId's text form has): multi-byte characters
/// land on arbitrary offsets, the rest is padded with hex digits.
fn text32(bytes: &[u8]) -> String {
    let mut out = String::new();
    for ch in String::from_utf8_lossy(bytes).chars() {
        let ch = if ch.is_control() || ch == '<' || ch == '&' || ch == '>' { 'a' } else { ch };
        if out.len() + ch.len_utf8() > 32 {
            break;
        }
        out.push(ch);
    }
    while out.len() < 32 {
        out.push('0');
    }
    out
}

fn blob_body(c: &BlobCase, ctx: &mut CaseCtx) -> PropResult {
    ctx.label(["blob:MaterialColors::decode", "blob:Tags::decode", "blob:MaterialColors-in-binary", "blob:MaterialColors-in-xml", "blob:Tags-in-binary", "blob:Tags-in-xml", "text:UniqueId::from_str", "text:UniqueId-in-xml"][(c.route % 8) as usize]);
    ctx.nontrivial_if(!c.bytes.is_empty());
    let in_binary = |class: &str, prop: &str| -> Vec<u8> {
        let cls = refbin::BinClass { id: 0, name: class.to_string(), object_format: 0, referents: vec![0], markers: vec![] };
        let chunks = vec![
            PlannedChunk { name: *b"INST", data: refbin::inst_chunk(&cls), comp: Comp::None },
            PlannedChunk { name: *b"PROP", data: refbin::prop_chunk(0, "Name", &refbin::Column::String(vec![b"t".to_vec()]), Dialect::implementation()), comp: Comp::None },
            PlannedChunk { name: *b"PROP", data: refbin::prop_chunk(0, prop, &refbin::Column::String(vec![c.bytes.clone()]), Dialect::implementation()), comp: Comp::Lz4 },
            PlannedChunk { name: *b"PRNT", data: refbin::prnt_chunk(&[(0, -1)]), comp: Comp::None },
            refbin::end_chunk(),
        ];
        refbin::assemble(1, 1, &chunks)
    };
    let in_xml = |class: &str, prop: &str| -> Vec<u8> {
        let b64 = base64::encode(&c.bytes);
        format!("<roblox version=\"4\"><Item class=\"{class}\" referent=\"R1\"><Properties><string name=\"Name\">t</string><BinaryString name=\"{prop}\">{b64}</BinaryString></Properties></Item></roblox>").into_bytes()
    };
    let outcome = match c.route % 8 {
        6 => catch(|| text32(&c.bytes).parse::<rbx_types::UniqueId>().is_ok()).map(|_| ()),
        7 => {
            let doc = format!("<roblox version=\"4\"><Item class=\"Folder\" referent=\"R1\"><Properties><UniqueId name=\"UniqueId\">{}</UniqueId></Properties></Item></roblox>", text32(&c.bytes));
            catch(|| rbx_xml::from_reader_default(doc.as_bytes()).is_ok()).map(|_| ())
        }
        0 => catch(|| rbx_types::MaterialColors::decode(&c.bytes).is_ok()).map(|_| ()),
        1 => catch(|| rbx_types::Tags::decode(&c.bytes).is_ok()).map(|_| ()),
        2 => catch(|| rbx_binary::from_reader(in_binary("Terrain", "MaterialColors").as_slice()).is_ok()).map(|_| ()),
        3 => catch(|| rbx_xml::from_reader_default(in_xml("Terrain", "MaterialColors").as_slice()).is_ok()).map(|_| ()),
        4 => catch(|| rbx_binary::from_reader(in_binary("Folder", "Tags").as_slice()).is_ok()).map(|_| ()),
        _ => catch(|| rbx_xml::from_reader_default(in_xml("Folder", "Tags").as_slice()).is_ok()).map(|_| ()),
    };
    if let Err(info) = outcome {
        return Err(Fail::new(panic_key(&info), format!("a {}-byte blob {:02x?} makes a decoder panic: {}", c.bytes.len(), &c.bytes[..c.bytes.len().min(24)], info.msg)));
    }
    Ok(())
}

fn delivery_body(case: &DeliveryCase, ctx: &mut CaseCtx) -> PropResult {
    let (kind, base) = match render_file(&case.file) {
        Ok(x) => x,
        Err(f) if f.key.starts_with("serialize-error") || f.key.starts_with("xml-encode-error") => {
            ctx.excluded("base file not serializable");
            return Ok(());
        }
        Err(f) => return Err(f),
    };
    let bytes = apply_mutations(kind, &base, &case.muts, ctx);
    // never decode in-process what the sandbox has not cleared
    match sandbox::sandboxed_decode(kind, &bytes) {
        Outcome::Ok(_) | Outcome::Err(_) => {}
        _ => {
            ctx.excluded("input is a C13.1 failure; not used for delivery");
            return Ok(());
        }
    }
    let oneshot = match decode_dom(kind, bytes.as_slice()) {
        Ok(r) => r,
        Err(info) => return Err(Fail::new(panic_key(&info), info.msg)),
    };
    let mut rd = Chopped {
        data: &bytes,
        pos: 0,
        plan: &case.partition,
        step: 0,
        interrupts: 0,
        just_interrupted: false,
    };
    let chopped = match decode_dom(kind, &mut rd) {
        Ok(r) => r,
        Err(info) => return Err(Fail::new(panic_key(&info), format!("with chopped delivery: {}", info.msg))),
    };
    ctx.label_if(rd.interrupts > 0, "interrupted_reads_injected");
    ctx.label_if(case.partition.iter().all(|k| *k <= 1), "one_byte_reads");
    ctx.label_if(oneshot.is_ok(), "valid_input");
    ctx.label_if(oneshot.is_err(), "rejected_input");
    ctx.nontrivial_if(rd.step > 3);
    match (&oneshot, &chopped) {
        (Ok(a), Ok(b)) => ensure!(a == b, format!("delivery:different-dom:{kind:?}"), "decoded DOM depends on how the reader delivered the bytes"),
        (Err(_), Err(_)) => {}
        (Ok(_), Err(e)) => fail!(
            format!("delivery:{}:{kind:?}", if rd.interrupts > 0 { "interrupted-read-not-retried" } else { "short-read" }),
            "one-shot decode succeeds, chopped delivery ({} interrupts) fails: {e}",
            rd.interrupts
        ),
        (Err(e), Ok(_)) => fail!(format!("delivery:accepts-when-chopped:{kind:?}"), "one-shot decode fails ({e}) but chopped delivery succeeds"),
    }
    Ok(())
}

// ---------------------------------------------------------------------------
// 4. sink failure at every byte

struct FailingSink {
    accepted: Vec<u8>,
    budget: usize,
    max_write: usize,
    failed: bool,
}

impl Write for FailingSink {
    fn write(&mut self, buf: &[u8]) -> io::Result<usize> {
        if buf.is_empty() {
            return Ok(0);
        }
        if self.budget == 0 {
            self.failed = true;
            return Err(io::Error::new(io::ErrorKind::Other, "injected sink failure"));
        }
        let n = buf.len().min(self.max_write).min(self.budget);
        self.accepted.extend_from_slice(&buf[..n]);
        self.budget -= n;
        Ok(n)
    }
    fn flush(&mut self) -> io::Result<()> {
        Ok(())
    }
}

#[derive(Clone, Debug, Serialize, Deserialize)]
pub struct SinkCase {
    pub file: FileCase,
    pub max_write: u8,
}

fn serialize_into(case: &FileCase, sink: &mut FailingSink) -> Result<Result<(), String>, crate::engine::PanicInfo> {
    let built = forest::build(&case.forest, BuildMode::Builder, None);
    let roots = built.root_refs(&case.forest);
    catch(|| {
        if case.format < 3 {
            rbx_binary::Serializer::new()
                .compression_type(COMPRESSIONS[case.format as usize].0)
                .serialize(sink, &built.dom, &roots)
                .map_err(|e| e.to_string())
        } else {
            rbx_xml::to_writer(sink, &built.dom, &roots, Pairing::Unknown.options().0).map_err(|e| e.to_string())
        }
    })
}

fn sink_body(case: &SinkCase, ctx: &mut CaseCtx) -> PropResult {
    let (_, full) = match render_file(&case.file) {
        Ok(x) => x,
        Err(f) if f.key.starts_with("serialize-error") || f.key.starts_with("xml-encode-error") => {
            ctx.excluded("base file not serializable");
            return Ok(());
        }
        Err(f) => return Err(f),
    };
    let fmt = if case.file.format < 3 { "binary" } else { "xml" };
    ctx.label(if case.file.format < 3 { "sink:binary" } else { "sink:xml" });
    ctx.nontrivial_if(full.len() > 64);
    // short-writing, never-failing sink: same bytes
    let mut sink = FailingSink {
        accepted: vec![],
        budget: usize::MAX,
        max_write: case.max_write.max(1) as usize,
        failed: false,
    };
    match serialize_into(&case.file, &mut sink) {
        Ok(Ok(())) => ensure!(sink.accepted == full, format!("sink:short-writes-change-output:{fmt}"), "output through a short-writing sink differs from the one-shot output"),
        Ok(Err(e)) => fail!(format!("sink:short-writes-fail:{fmt}"), "serializer failed on a short-writing sink: {e}"),
        Err(info) => return Err(Fail::new(panic_key(&info), info.msg)),
    }
    // failure injected after k bytes, for every k
    let step = if full.len() > 8192 { full.len() / 4096 } else { 1 };
    let mut k = 0;
    while k < full.len() {
        let mut sink = FailingSink {
            accepted: vec![],
            budget: k,
            max_write: usize::MAX,
            failed: false,
        };
        match serialize_into(&case.file, &mut sink) {
            Ok(Err(_)) => {}
            Ok(Ok(())) => fail!(
                format!("sink:failure-swallowed:{fmt}"),
                "sink failed after {k} of {} bytes but the serializer reported success",
                full.len()
            ),
            Err(info) => {
                return Err(Fail::new(panic_key(&info), format!("sink failing after {k} bytes: {}", info.msg)))
            }
        }
        ensure!(sink.accepted[..] == full[..k], format!("sink:prefix-differs:{fmt}"), "bytes accepted before the failure are not a prefix of the one-shot output");
        ctx.add_evals(1);
        k += step;
    }
    Ok(())
}

/// `rbxverif corpus <dir>`: seed files for the libFuzzer campaigns (valid inputs from
/// the generators; test-files/ is empty in this tree).
pub fn corpus_main(dir: &str) -> ! {
    use proptest::strategy::ValueTree;
    use proptest::test_runner::{Config, RngAlgorithm, TestRng, TestRunner};
    let rng = TestRng::from_seed(RngAlgorithm::ChaCha, &[7u8; 32]);
    let mut runner = TestRunner::new_with_rng(Config { failure_persistence: None, ..Config::default() }, rng);
    let strat = base_strategy(6);
    let mut counts = [0usize; 3];
    for sub in ["bin_decode", "xml_decode", "attr_decode"] {
        let _ = std::fs::create_dir_all(format!("{dir}/{sub}"));
    }
    let mut tries = 0;
    while counts.iter().any(|c| *c < 60) && tries < 5000 {
        tries += 1;
        let base = strat.new_tree(&mut runner).unwrap().current();
        let (sub, idx) = match base.kind() {
            Kind::Binary => ("bin_decode", 0),
            Kind::Xml | Kind::XmlReadUnknown => ("xml_decode", 1),
            Kind::Attributes => ("attr_decode", 2),
        };
        if counts[idx] >= 60 {
            continue;
        }
        if let Ok(bytes) = base.render() {
            if bytes.len() <= 65536 {
                let _ = std::fs::write(format!("{dir}/{sub}/seed-{:03}", counts[idx]), bytes);
                counts[idx] += 1;
            }
        }
    }
    println!("corpus: {counts:?} files in {dir}");
    std::process::exit(0)
}

#[derive(Clone, Debug, Serialize, Deserialize)]
pub struct Artifact {
    pub target: String,
    pub file: String,
    pub bytes: Vec<u8>,
}

/// Inputs saved by the libFuzzer campaigns (thorough tier): each is re-run through the
/// sandbox worker, which attributes it to a site / known finding like any mutant.
fn artifact_body(a: &Artifact, ctx: &mut CaseCtx) -> PropResult {
    let kind = match a.target.as_str() {
        "bin_decode" => Kind::Binary,
        "xml_decode" => Kind::XmlReadUnknown,
        _ => Kind::Attributes,
    };
    ctx.label("fuzzer_artifact");
    let outcome = sandbox::sandboxed_decode(kind, &a.bytes);
    match outcome_to_result(kind, &outcome, &a.bytes, ctx) {
        Ok(()) => {
            // the decoder itself is fine with it: the in-target oracle (re-save) fired
            fail!(
                format!("fuzz-oracle:{}", a.target),
                "libFuzzer saved {} ({} bytes): the decoder returns {:?}, so the target's own oracle (decode -> encode -> decode) failed; replay with `cargo +nightly fuzz run {} {}`",
                a.file,
                a.bytes.len(),
                outcome,
                a.target,
                a.file
            )
        }
        Err(f) => Err(f),
    }
}

fn load_artifacts() -> Vec<Artifact> {
    let mut out = Vec::new();
    for target in ["bin_decode", "xml_decode", "attr_decode"] {
        let dir = format!("{}/target/fuzz/artifacts/{target}", crate::engine::VERIF_ROOT);
        if let Ok(rd) = std::fs::read_dir(&dir) {
            let mut files: Vec<_> = rd.flatten().map(|e| e.path()).collect();
            files.sort();
            for p in files {
                if let Ok(bytes) = std::fs::read(&p) {
                    out.push(Artifact { target: target.to_string(), file: p.display().to_string(), bytes });
                }
            }
        }
    }
    out
}

pub fn run(ctx: &Ctx) -> PropertyReport {
    let mut rep = PropertyReport::new(
        "C13",
        "fault_enumeration",
        "(1) fuzzing with the oracle in the target: valid files from rbx_binary, the reference encoder, rbx_xml and the reference attribute encoder, plus raw bytes, \
         mutated by generated sequences of bit flips, byte substitutions, truncation, splices, length-field edits, chunk-header/payload edits, chunk \
         reorder/duplicate/drop and XML dictionary replacements / deep nesting; decoded in worker subprocesses whose allocator fails any single request larger than \
         max(64 MiB, 4096 x input); outcome must be Ok or Err. (2) every strict prefix of generated valid files must be rejected (exhaustive per file). \
         (3) generated read() partitions incl. 1-byte reads and injected Interrupted errors must not change the result. (4) a sink failing after k bytes, for every k, \
         must make the serializer return Err; a short-writing sink must receive identical bytes. Non-trivial = the input got past the header / first tag.",
    );
    rep.assume("the 20 s watchdog separates 'hang' from 'slow'; a time-out must reproduce to count");
    let sub = crate::engine::replay_subcheck_or_all(ctx);
    if sub.runs("mutants") {
        let cases = ctx.cfg.cases(120_000, 4_000_000);
        let mut r = ctx.run_prop("mutants", cases, || fuzz_case_strategy(5), fuzz_body);
        for l in [
            "mut:bitflip",
            "mut:length_field",
            "mut:chunk_header_field",
            "mut:chunk_payload_u32",
            "mut:chunk_truncate",
            "mut:xml_replace",
            "mut:xml_deep_nesting",
            "kind:binary",
            "kind:xml",
            "kind:attributes",
            "got_past_header",
        ] {
            r.floor(l, cases / 1000);
        }
        rep.push(r);
    }
    if sub.runs("prefixes") {
        let cases = ctx.cfg.cases(600, 8000);
        let nodes = ctx.cfg.tier.pick(5, 20);
        rep.push(ctx.run_prop("prefixes", cases, move || file_case_strategy(nodes), prefix_body));
    }
    if sub.runs("delivery") {
        let cases = ctx.cfg.cases(30_000, 600_000);
        let strat = || {
            (
                file_case_strategy(5),
                proptest::collection::vec(mutation_strategy(), 0..2),
                prop_oneof![
                    1 => Just(vec![1u8]),
                    1 => Just(vec![0u8, 1]),
                    3 => proptest::collection::vec(prop_oneof![1 => Just(0u8), 4 => 1u8..=255], 1..12),
                ],
            )
                .prop_map(|(file, muts, partition)| DeliveryCase { file, muts, partition })
        };
        let mut r = ctx.run_prop("delivery", cases, strat, delivery_body);
        r.floor("interrupted_reads_injected", cases / 20);
        r.floor("one_byte_reads", cases / 50);
        rep.push(r);
    }
    if sub.runs("delivery-big") {
        // fixed list: every format x sizes straddling 64 KiB x partitions with and without interrupts
        let mut cases: Vec<BigDelivery> = Vec::new();
        for format in 0u8..4 {
            for n in [70_000usize, 200_000] {
                for partition in [vec![255u8, 0, 255, 255], vec![0u8, 255], vec![97u8], vec![255u8, 255, 255, 255, 255, 255, 255, 0]] {
                    cases.push(BigDelivery::LargeFile { n, format, partition });
                }
            }
        }
        let mut r = ctx.run_list("delivery-big", cases, true, big_delivery_body);
        r.notes.push("files holding one incompressible value of 70 000 / 200 000 bytes, every format, read through short reads with Interrupted errors at positions beyond the first 64 KiB".into());
        rep.push(r);
    }
    if sub.runs("delivery-attributes") {
        let cases = ctx.cfg.cases(30_000, 600_000);
        let strat = || {
            (
                super::c14::attr_case(6),
                prop_oneof![
                    1 => Just(vec![1u8]),
                    1 => Just(vec![0u8, 1]),
                    1 => Just(vec![3u8]),
                    3 => proptest::collection::vec(prop_oneof![1 => Just(0u8), 4 => 1u8..=9], 1..8),
                ],
            )
                .prop_map(|(a, partition)| BigDelivery::Attributes { entries: a.entries, partition })
        };
        let mut r = ctx.run_prop("delivery-attributes", cases, strat, big_delivery_body);
        r.floor("interrupted_reads_injected", cases / 20);
        rep.push(r);
    }
    if sub.runs("blob-decoders") {
        let cases = ctx.cfg.cases(60_000, 2_000_000);
        let strat = || {
            (
                0u8..8,
                prop_oneof![
                    3 => proptest::collection::vec(any::<u8>(), 0..80),
                    2 => vals::text(TextMode::Any).prop_map(|t| t.into_bytes()),
                    2 => (proptest::collection::vec(proptest::sample::select(vec!['0', 'f', 'A', '9', '\u{e9}', '\u{20AC}', '\u{1F600}', ' ']), 8..32)).prop_map(|v| v.into_iter().collect::<String>().into_bytes()),
                    1 => (0usize..80).prop_map(|n| vec![0u8; n]),
                    1 => (60usize..80, any::<u8>()).prop_map(|(n, b)| vec![b; n]),
                ],
            )
                .prop_map(|(route, bytes)| BlobCase { route, bytes })
        };
        rep.push(ctx.run_prop("blob-decoders", cases, strat, blob_body));
    }
    if sub.runs("fuzz-artifacts") && (ctx.cfg.tier == crate::engine::Tier::Thorough || ctx.cfg.replay.is_some()) {
        let arts = if ctx.cfg.replay.is_some() { vec![] } else { load_artifacts() };
        let mut r = ctx.run_list("fuzz-artifacts", arts, false, artifact_body);
        let summary = std::fs::read_to_string(format!("{}/target/fuzz/summary.json", crate::engine::VERIF_ROOT)).ok().and_then(|t| serde_json::from_str::<serde_json::Value>(&t).ok());
        match summary {
            Some(v) => {
                if let Some(n) = v.get("total_execs").and_then(|x| x.as_u64()) {
                    r.evaluations += n;
                }
                r.samples.push(v);
                r.notes.push("coverage-guided libFuzzer campaigns (cargo-fuzz, ASan, debug assertions) over bin_decode / xml_decode / attr_decode, seeded from generated valid files; executions counted from the libFuzzer logs".into());
            }
            None => r.notes.push("no libFuzzer campaign summary found (run through ./check C13 thorough)".into()),
        }
        rep.push(r);
    }
    if sub.runs("sink-faults") {
        let cases = ctx.cfg.cases(600, 8000);
        let strat = || (file_case_strategy(5), 1u8..40).prop_map(|(file, max_write)| SinkCase { file, max_write });
        rep.push(ctx.run_prop("sink-faults", cases, strat, sink_body));
    }
    rep
}
