//! C01 — binary round trip preserves the instance forest and every value.

use proptest::prelude::*;
use rbx_binary::CompressionType;
use serde::{Deserialize, Serialize};

use crate::engine::{no_panic, normalise_msg, CaseCtx, Ctx, Fail, PropResult, PropertyReport};
use crate::gen::forest::{self, BuildMode, ForestProfile, GForest, GNode};
use crate::gen::vals::{self, GCf, GVal, TextMode, ValProfile};
use crate::oracle::{self, Format, Norm};
use crate::{ensure, fail};

pub const COMPRESSIONS: [(CompressionType, &str); 3] = [
    (CompressionType::Lz4, "lz4"),
    (CompressionType::None, "none"),
    (CompressionType::Zstd, "zstd"),
];

pub fn binary_profile(max_nodes: usize) -> ForestProfile {
    ForestProfile {
        vals: ValProfile::binary(),
        max_nodes,
        deep_weight: 1,
        types: vals::binary_types(),
        known_classes: true,
        all_db_classes: false,
        unknown_classes: true,
        alias_names: true,
        unknown_props: true,
        max_props: 6,
        ident_text: TextMode::Any,
        free_roots: true,
        exclude_unknown_color3uint8: false,
        // `Attributes` is not a README type; for a property unknown to the database
        // the binary writer returns a clean "unsupported type" error (it has no way
        // to know the blob is an attribute map). Outside C01's domain.
        exclude_unknown_types: vec![rbx_types::VariantType::Attributes],
        multi_spelling: false,
        non_serializing: true,
        narrow_numbers: true,
    }
}

pub fn write_binary(
    dom: &rbx_dom_weak::WeakDom,
    roots: &[rbx_types::Ref],
    comp: CompressionType,
) -> Result<Vec<u8>, Fail> {
    let mut out = Vec::new();
    let res = no_panic("rbx_binary serializer", || {
        // the same settings through every call chain the builder API allows (all mean the same)
        let db = rbx_reflection_database::get();
        let ser = match (roots.len() + dom.get_by_ref(dom.root_ref()).map(|r| r.children().len()).unwrap_or(0)) % 3 {
            0 => rbx_binary::Serializer::new().compression_type(comp),
            1 => rbx_binary::Serializer::new().compression_type(comp).reflection_database(db),
            _ => rbx_binary::Serializer::new().reflection_database(db).compression_type(comp),
        };
        ser.serialize(&mut out, dom, roots)
    })?;
    match res {
        Ok(()) => Ok(out),
        Err(e) => Err(Fail::new(
            format!("serialize-error: {}", normalise_msg(&strip_names(&e.to_string()))),
            format!("serializer rejected a DOM of supported values: {e}"),
        )),
    }
}

/// Remove instance / property names from an error message so the key is a class of error.
pub fn strip_names(msg: &str) -> String {
    let mut s = msg.to_string();
    // "line 5, column 64: ..." position prefixes of XML errors are not part of the signature
    if s.starts_with("line ") {
        if let Some(i) = s.find(": ") {
            s = s[i + 2..].to_string();
        }
    }
    for pool in [
        forest::UNKNOWN_PROP_POOL,
        forest::UNKNOWN_CLASS_POOL,
        forest::KNOWN_CLASS_POOL,
    ] {
        for n in pool {
            s = s.replace(n, "_");
        }
    }
    s.chars().take(80).collect()
}

pub fn read_binary(bytes: &[u8]) -> Result<rbx_dom_weak::WeakDom, Fail> {
    let res = no_panic("rbx_binary deserializer", || rbx_binary::from_reader(bytes))?;
    res.map_err(|e| {
        Fail::new(
            format!("decode-error: {}", normalise_msg(&strip_names(&e.to_string()))),
            format!("reader rejected a file rbx_binary wrote: {e}"),
        )
    })
}

pub fn classify_forest(f: &GForest, ctx: &mut CaseCtx) {
    let mut per_class: std::collections::HashMap<&str, Vec<Vec<&str>>> = Default::default();
    let written = f.written_preorder();
    let wset: std::collections::HashSet<usize> = written.iter().copied().collect();
    let mut nontrivial = false;
    for &n in &written {
        let node = &f.nodes[n];
        per_class
            .entry(node.class.as_str())
            .or_default()
            .push(node.props.iter().map(|p| p.0.as_str()).collect());
        if node.props.iter().any(|(name, _)| crate::dbview::resolve(&node.class, name).map(|v| v.ser.is_none() && v.migration.is_none()).unwrap_or(false)) {
            ctx.label("has_non_serializing_property");
        }
        for (_, v) in &node.props {
            if v.has_nonfinite() {
                ctx.label("has_nonfinite_float");
                nontrivial = true;
            }
            if v.has_nan() {
                ctx.label("has_nan");
            }
            match v {
                GVal::BinaryString(b) | GVal::SharedString(b) => {
                    if std::str::from_utf8(b).is_err() {
                        ctx.label("non_utf8_blob");
                        nontrivial = true;
                    }
                }
                GVal::CFrame(c) | GVal::OptionalCFrame(Some(c)) => {
                    if crate::spec::refattr::exact_rotation_id(&c.rot).is_none() {
                        ctx.label("non_basis_cframe");
                        nontrivial = true;
                        if vals::snap_target(&c.rot).is_some() {
                            ctx.label("near_basis_cframe");
                        }
                    } else {
                        ctx.label("basis_cframe");
                    }
                }
                _ => {}
            }
            v.visit_refs(&mut |r| match r {
                vals::GRef::Node(i) => {
                    if wset.contains(i) {
                        ctx.label("ref_inside_written_set");
                    } else {
                        ctx.label("ref_crossing_root_selection");
                        nontrivial = true;
                    }
                }
                vals::GRef::Dangling => {
                    ctx.label("ref_dangling");
                    nontrivial = true;
                }
                vals::GRef::None => {}
            });
        }
    }
    for (_, sets) in &per_class {
        if sets.len() >= 2 && sets.iter().any(|s| s != &sets[0]) {
            ctx.label("same_class_different_property_sets");
            nontrivial = true;
        }
    }
    if written.len() < f.nodes.len() {
        ctx.label("partial_root_selection");
    }
    if f.depth() >= 4 {
        ctx.label("depth>=4");
    }
    if f.nodes.iter().any(|n| crate::dbview::db().classes.get(n.class.as_str()).is_none()) {
        ctx.label("unknown_class");
    }
    ctx.nontrivial_if(nontrivial);
}

fn attr_blob(v: &GVal) -> Option<Vec<u8>> {
    match v {
        GVal::Attributes(e) => crate::spec::refattr::encode(e).ok(),
        _ => None,
    }
}

pub fn roundtrip_body(f: &GForest, ctx: &mut CaseCtx) -> PropResult {
    classify_forest(f, ctx);
    // one case in eight runs after failed saves on this thread (state surviving a failed call would corrupt this save)
    {
        let h = f.nodes.len() as u64 * 31 + f.nodes.iter().map(|n| n.props.len() as u64 * 7 + n.name.len() as u64).sum::<u64>();
        if h % 8 == 3 && super::c07::provoke_failed_saves(h.wrapping_mul(0x9E37_79B9_7F4A_7C15)) > 0 {
            ctx.label("after_failed_saves_on_this_thread");
        }
    }
    let built = forest::build(f, BuildMode::Builder, None);
    let roots = built.root_refs(f);
    let exp = oracle::expect_roundtrip(f, Format::Binary, &attr_blob);
    for (comp, cname) in COMPRESSIONS {
        let bytes = write_binary(&built.dom, &roots, comp)?;
        let decoded = read_binary(&bytes)?;
        ensure!(
            decoded.root().class == "DataModel" && decoded.root().parent().is_none(),
            "root-not-datamodel",
            "decoded root is {:?}",
            decoded.root().class
        );
        let act = forest::observe(&decoded);
        if let Err((key, msg)) = oracle::compare_dom(&exp, &act, &Norm::binary()) {
            fail!(format!("roundtrip:{key}"), "[{cname}] {msg}");
        }
        ctx.add_evals(1);
        if comp == CompressionType::default() {
            // the convenience entry points are the same codec as the configurable ones
            let mut out = Vec::new();
            no_panic("rbx_binary::to_writer", || rbx_binary::to_writer(&mut out, &built.dom, &roots))?
                .map_err(|e| Fail::new("entry-points:to_writer-rejects", e.to_string()))?;
            ensure!(out == bytes, "entry-points:to_writer-differs", "to_writer and Serializer::new() with the default compression write different files");
            let d = no_panic("rbx_binary::Deserializer", || rbx_binary::Deserializer::new().deserialize(bytes.as_slice()))?
                .map_err(|e| Fail::new("entry-points:deserializer-rejects", e.to_string()))?;
            // (judged by the same oracle, not by equality with the first decode: ids regenerated on a collision are random)
            if let Err((key, msg)) = oracle::compare_dom(&exp, &forest::observe(&d), &Norm::binary()) {
                fail!(format!("entry-points:deserializer:{key}"), "Deserializer::new().deserialize, unlike from_reader: {msg}");
            }
        }
    }
    Ok(())
}

/// One `Serializer` and one `Deserializer` value used for several files in a row: what they did for
/// an earlier file must not influence a later one.
#[derive(Clone, Debug, Serialize, Deserialize)]
pub struct ReuseCase {
    pub forests: Vec<GForest>,
}

fn reuse_body(case: &ReuseCase, ctx: &mut CaseCtx) -> PropResult {
    let ser = rbx_binary::Serializer::new();
    let de = rbx_binary::Deserializer::new();
    // the same (class, property) of an unknown class carrying two different types in two files
    let mut seen: std::collections::HashMap<(String, String), rbx_types::VariantType> = std::collections::HashMap::new();
    let mut conflict = false;
    for f in &case.forests {
        for n in &f.nodes {
            for (p, v) in &n.props {
                if let Some(t) = seen.insert((n.class.clone(), p.clone()), v.ty()) {
                    conflict |= t != v.ty();
                }
            }
        }
    }
    ctx.label_if(conflict, "one_property_name_with_two_types_across_files");
    ctx.nontrivial_if(conflict || case.forests.len() >= 3);
    for (i, f) in case.forests.iter().enumerate() {
        let built = forest::build(f, BuildMode::Builder, None);
        let roots = built.root_refs(f);
        let exp = oracle::expect_roundtrip(f, Format::Binary, &attr_blob);
        let fresh = write_binary(&built.dom, &roots, CompressionType::default())?;
        let mut bytes = Vec::new();
        no_panic("reused Serializer", || ser.serialize(&mut bytes, &built.dom, &roots))?
            .map_err(|e| Fail::new("reuse:serializer-rejects", format!("file #{i}: a reused Serializer rejects what a fresh one writes: {e}")))?;
        ensure!(bytes == fresh, "reuse:serializer-output-differs", "file #{i}: a Serializer used for earlier files writes other bytes than a fresh one ({} vs {})", bytes.len(), fresh.len());
        let d = no_panic("reused Deserializer", || de.deserialize(bytes.as_slice()))?
            .map_err(|e| Fail::new("reuse:deserializer-rejects", format!("file #{i}: a reused Deserializer rejects a file a fresh one reads: {e}")))?;
        if let Err((key, msg)) = oracle::compare_dom(&exp, &forest::observe(&d), &Norm::binary()) {
            fail!(format!("reuse:deserializer:{key}"), "file #{i}, read by a Deserializer that read {i} file(s) before: {msg}");
        }
        ctx.add_evals(1);
    }
    Ok(())
}

/// Sizes around and above the 64 Ki-item pre-allocation caps of the reader: one long value in a
/// column of two, very many instances of one class, very many classes.
#[derive(Clone, Debug, Serialize, Deserialize)]
pub enum LargeCase {
    LongValue { kind: String, n: usize },
    ManyInstances { n: usize },
    ManyClasses { n: usize },
    /// n instances of one class, each with its own shared string (SSTR table / XML SharedStrings of n entries)
    ManyShared { n: usize },
    /// one class whose first instance carries n differently named properties (n PROP chunks / n property elements)
    ManyProps { n: usize },
    /// a class name, property name or instance name of n characters
    LongName { what: String, n: usize },
    /// a Tags value of n tags / an Attributes value of n entries
    ManyEntries { what: String, n: usize },
    /// n instances of one class that all carry the smallest value of a variable-size type (empty
    /// text, empty table, absent option); with `one_big` the last one carries an ordinary value
    MinimalColumn { kind: String, n: usize, one_big: bool },
}

pub fn large_forest(c: &LargeCase) -> GForest {
    use crate::gen::forest::GNode;
    let node = |parent: Option<usize>, class: &str, name: String, props: Vec<(String, GVal)>| GNode { parent, class: class.to_string(), name, props };
    let nodes = match c {
        LargeCase::LongValue { kind, n } => {
            let (class, prop, long, short): (&str, &str, GVal, GVal) = match kind.as_str() {
                "String" => ("StringValue", "Value", super::c14::long_value("String", *n), GVal::String("short".into())),
                "SharedString" => ("ZzLarge", "Shared", GVal::SharedString((0..*n).map(|i| (i * 7 % 253) as u8).collect()), GVal::SharedString(vec![1, 2, 3])),
                "NumberSequence" => ("ZzLarge", "Seq", super::c14::long_value(kind, *n), GVal::NumberSequence(vec![[0, 0, 0], [1f32.to_bits(), 0, 0]])),
                "ColorSequence" => ("ZzLarge", "Colors", super::c14::long_value(kind, *n), GVal::ColorSequence(vec![(0, [0, 0, 0]), (1f32.to_bits(), [0, 0, 0])])),
                "AttributeName" => (
                    "Folder",
                    "Attributes",
                    GVal::Attributes(vec![((0..*n).map(|i| (b'a' + (i % 26) as u8) as char).collect(), GVal::Bool(true)), ("z".into(), GVal::Float64(2.5f64.to_bits()))]),
                    GVal::Attributes(vec![("short".into(), GVal::Bool(false))]),
                ),
                "ContentId" => ("ZzLarge", "Link", GVal::ContentId(format!("rbxasset://{}", "x".repeat(*n))), GVal::ContentId("rbxassetid://1".into())),
                "ContentUri" => (
                    "ZzLarge",
                    "Pic",
                    GVal::Content(vals::GContent::Uri(format!("rbxasset://{}", "y".repeat(*n)))),
                    GVal::Content(vals::GContent::Uri("rbxassetid://2".into())),
                ),
                "Incompressible" => {
                    // xorshift bytes: the compressed chunk stays as long as the data
                    let mut x = 0x2545_F491_4F6C_DD1Du64;
                    let bytes: Vec<u8> = (0..*n)
                        .map(|_| {
                            x ^= x << 13;
                            x ^= x >> 7;
                            x ^= x << 17;
                            (x >> 32) as u8
                        })
                        .collect();
                    ("ZzLarge", "Noise", GVal::BinaryString(bytes), GVal::BinaryString(vec![7]))
                }
                _ => ("ZzLarge", "Blob", super::c14::long_value("BinaryString", *n), GVal::BinaryString(vec![9])),
            };
            vec![
                node(None, class, "first".into(), vec![(prop.to_string(), short)]),
                node(None, class, "second".into(), vec![(prop.to_string(), long)]),
                node(None, class, "third".into(), vec![]),
            ]
        }
        LargeCase::ManyInstances { n } => {
            let mut v = vec![node(None, "Model", "holder".into(), vec![])];
            for i in 0..*n {
                v.push(node(Some(if i % 3 == 2 { i } else { 0 }), "ZzLeaf", format!("n{i}"), if i % 2 == 0 { vec![("Flag".to_string(), GVal::Bool(i % 4 == 0))] } else { vec![] }));
            }
            v
        }
        LargeCase::ManyClasses { n } => (0..*n).map(|i| node(None, &format!("ZzK{i}"), format!("k{i}"), vec![])).collect(),
        LargeCase::ManyShared { n } => (0..*n)
            .map(|i| {
                let own = GVal::SharedString(format!("shared string number {i}").into_bytes());
                // every 5th instance repeats the content of its predecessor: interning must still map both
                let v = if i % 5 == 4 { GVal::SharedString(format!("shared string number {}", i - 1).into_bytes()) } else { own };
                node(if i % 2 == 1 { Some(i - 1) } else { None }, "ZzLarge", format!("s{i}"), vec![("Shared".to_string(), v)])
            })
            .collect(),
        LargeCase::ManyProps { n } => {
            let props: Vec<(String, GVal)> = (0..*n)
                .map(|i| {
                    let v = match i % 4 {
                        0 => GVal::Bool(i % 8 == 0),
                        1 => GVal::Int32(i as i32 - 7),
                        2 => GVal::String(format!("v{i}")),
                        _ => GVal::Float64((i as f64 * 0.5).to_bits()),
                    };
                    (format!("ZzP{i}"), v)
                })
                .collect();
            vec![node(None, "ZzLarge", "all".into(), props), node(None, "ZzOther", "none".into(), vec![]), node(Some(0), "ZzOther", "child".into(), vec![])]
        }
        LargeCase::LongName { what, n } => {
            let long: String = (0..*n).map(|i| (b'A' + (i % 23) as u8) as char).collect();
            let (class, prop, name) = match what.as_str() {
                "class" => (format!("Zz{long}"), "Value".to_string(), "plain".to_string()),
                "property" => ("ZzLarge".to_string(), format!("Zz{long}"), "plain".to_string()),
                _ => ("ZzLarge".to_string(), "Value".to_string(), long),
            };
            vec![
                node(None, &class, name.clone(), vec![(prop.clone(), GVal::Int32(5))]),
                node(Some(0), &class, "second".into(), vec![(prop, GVal::Int32(-5))]),
                node(None, "Folder", name, vec![]),
            ]
        }
        LargeCase::MinimalColumn { kind, n, one_big } => {
            let (class, prop, small, big): (&str, &str, GVal, GVal) = match kind.as_str() {
                "String" => ("ZzMin", "Text", GVal::String(String::new()), GVal::String("text".into())),
                "BinaryString" => ("ZzMin", "Blob", GVal::BinaryString(vec![]), GVal::BinaryString(vec![0, 255])),
                "SharedString" => ("ZzMin", "Shared", GVal::SharedString(vec![]), GVal::SharedString(vec![1, 2, 3])),
                "ContentId" => ("ZzMin", "Link", GVal::ContentId(String::new()), GVal::ContentId("rbxassetid://1".into())),
                "ContentUri" => ("ZzMin", "Pic", GVal::Content(vals::GContent::Uri(String::new())), GVal::Content(vals::GContent::Uri("rbxassetid://2".into()))),
                "ContentNone" => ("ZzMin", "Pic", GVal::Content(vals::GContent::None), GVal::Content(vals::GContent::Uri("x".into()))),
                "Tags" => ("Folder", "Tags", GVal::Tags(vec![]), GVal::Tags(vec!["t".into()])),
                "Attributes" => ("Folder", "Attributes", GVal::Attributes(vec![]), GVal::Attributes(vec![("a".into(), GVal::Bool(true))])),
                "NumberSequence" => ("ZzMin", "Seq", GVal::NumberSequence(vec![]), GVal::NumberSequence(vec![[0, 0, 0], [1f32.to_bits(), 0, 0]])),
                "ColorSequence" => ("ZzMin", "Colors", GVal::ColorSequence(vec![]), GVal::ColorSequence(vec![(0, [0, 0, 0]), (1f32.to_bits(), [0, 0, 0])])),
                "Font" => (
                    "ZzMin",
                    "Face",
                    GVal::Font { family: String::new(), weight: 400, style: 0, cached: None },
                    GVal::Font { family: "rbxasset://fonts/families/Arial.json".into(), weight: 700, style: 1, cached: Some("rbxasset://fonts/arialbd.ttf".into()) },
                ),
                "MaterialColors" => ("ZzMin", "Mat", GVal::MaterialColors(vec![]), GVal::MaterialColors(vec![(0, [1, 2, 3])])),
                "OptionalCFrame" => ("ZzMin", "Pivot", GVal::OptionalCFrame(None), GVal::OptionalCFrame(Some(vals::GCf::identity_at([1f32.to_bits(), 0, 0])))),
                _ => ("ZzMin", "Phys", GVal::PhysicalProperties(None), GVal::PhysicalProperties(Some([1f32.to_bits(); 5]))),
            };
            (0..*n)
                .map(|i| {
                    let v = if *one_big && i + 1 == *n { big.clone() } else { small.clone() };
                    // empty names too: the Name column is a string column like any other
                    node(if i % 4 == 3 { Some(i - 1) } else { None }, class, if i % 2 == 0 { String::new() } else { format!("m{i}") }, vec![(prop.to_string(), v)])
                })
                .collect()
        }
        LargeCase::ManyEntries { what, n } => {
            let v = if what == "Tags" {
                ("Tags", GVal::Tags((0..*n).map(|i| format!("t{i}")).collect()))
            } else {
                ("Attributes", GVal::Attributes((0..*n).map(|i| (format!("a{i:06}"), if i % 2 == 0 { GVal::Bool(i % 4 == 0) } else { GVal::Float64((i as f64).to_bits()) })).collect()))
            };
            vec![node(None, "Folder", "many".into(), vec![(v.0.to_string(), v.1)]), node(None, "Folder", "few".into(), vec![])]
        }
    };
    let mut f = GForest { nodes, roots: vec![] };
    f.roots = f.child_table().0;
    f
}

/// Counts and name lengths around 2^8 and 2^16 for the tables the value-size cases do not stretch:
/// the shared-string table, the number of property columns of one class, the three kinds of names,
/// and the entry counts of Tags / Attributes.
pub fn more_large_cases(full: bool) -> Vec<LargeCase> {
    let mut cases = Vec::new();
    for n in if full { vec![255usize, 256, 257, 65_536, 65_537] } else { vec![257usize, 65_537] } {
        cases.push(LargeCase::ManyShared { n });
    }
    for n in if full { vec![255usize, 256, 257, 1_025, 20_001] } else { vec![257usize, 20_001] } {
        cases.push(LargeCase::ManyProps { n });
    }
    for what in ["class", "property", "instance"] {
        for n in if full { vec![253usize, 254, 255, 256, 65_534, 65_535, 70_000] } else { vec![254usize, 65_534, 70_000] } {
            cases.push(LargeCase::LongName { what: what.to_string(), n });
        }
    }
    for kind in [
        "String", "BinaryString", "SharedString", "ContentId", "ContentUri", "ContentNone", "Tags", "Attributes", "NumberSequence", "ColorSequence", "Font", "MaterialColors", "OptionalCFrame", "PhysicalProperties",
    ] {
        for n in if full { vec![1usize, 2, 3, 7, 8, 9, 10, 16, 17, 31, 33, 64, 100, 255, 256, 257, 1_000, 4_097] } else { vec![1usize, 9, 33, 257, 4_097] } {
            for one_big in [false, true] {
                cases.push(LargeCase::MinimalColumn { kind: kind.to_string(), n, one_big });
            }
        }
    }
    for what in ["Tags", "Attributes"] {
        for n in if full { vec![255usize, 256, 257, 65_536, 65_537] } else { vec![257usize, 65_537] } {
            cases.push(LargeCase::ManyEntries { what: what.to_string(), n });
        }
    }
    cases
}

fn large_body(c: &LargeCase, ctx: &mut CaseCtx) -> PropResult {
    ctx.label(match c {
        LargeCase::LongValue { .. } => "long_value",
        LargeCase::ManyInstances { .. } => "many_instances_of_one_class",
        LargeCase::ManyClasses { .. } => "many_classes",
        LargeCase::ManyShared { .. } => "many_shared_strings",
        LargeCase::ManyProps { .. } => "many_properties_on_one_class",
        LargeCase::LongName { .. } => "long_name",
        LargeCase::ManyEntries { .. } => "many_entries_in_one_value",
        LargeCase::MinimalColumn { .. } => "column_of_smallest_values",
    });
    let f = large_forest(c);
    roundtrip_body(&f, ctx)?;
    ctx.nontrivial();
    Ok(())
}

#[derive(Clone, Debug, Serialize, Deserialize)]
pub struct RotCase {
    pub rot: [i8; 9],
    pub optional: bool,
}

fn rotation_body(case: &RotCase, ctx: &mut CaseCtx) -> PropResult {
    let mut rot = [0u32; 9];
    for i in 0..9 {
        rot[i] = (case.rot[i] as f32).to_bits();
    }
    let cf = GCf {
        pos: [1.5f32.to_bits(), (-2.0f32).to_bits(), 0],
        rot,
    };
    let is_basis = crate::spec::refattr::exact_rotation_id(&rot).is_some();
    ctx.label_if(is_basis, "is_one_of_24_bases");
    ctx.nontrivial();
    let val = if case.optional {
        GVal::OptionalCFrame(Some(cf.clone()))
    } else {
        GVal::CFrame(cf.clone())
    };
    let (class, prop) = if case.optional {
        ("Model", "WorldPivotData")
    } else {
        ("CFrameValue", "Value")
    };
    let f = GForest {
        nodes: vec![GNode {
            parent: None,
            class: class.into(),
            name: "n".into(),
            props: vec![(prop.into(), val)],
        }],
        roots: vec![0],
    };
    roundtrip_body(&f, &mut CaseCtx::default())
}

#[derive(Clone, Debug, Serialize, Deserialize)]
pub struct SweepBlock {
    pub block: u32,
}

fn sweep_body(b: &SweepBlock, ctx: &mut CaseCtx) -> PropResult {
    use crate::spec::refbin;
    use rbx_binary::verif;
    ctx.nontrivial();
    let base = b.block << 16;
    let ints: Vec<i32> = (0..65536u32).map(|i| (base | i) as i32).collect();
    // scalar laws against the document's formulas
    for &x in &ints {
        let t = verif::transform_i32(x);
        ensure!(t as u32 == refbin::transform32(x), "sweep:transform_i32", "transform_i32({x}) = {t}, docs/binary.md gives {}", refbin::transform32(x));
        ensure!(verif::untransform_i32(t) == x, "sweep:untransform_i32", "untransform_i32(transform_i32({x})) = {}", verif::untransform_i32(t));
        ensure!(verif::untransform_i32(x) == refbin::untransform32(x as u32), "sweep:untransform_i32-doc", "untransform_i32({x})");
        // 64-bit: embed the pattern at both ends of the range
        for y in [x as i64, (x as i64) << 32 | 0x5a5a_5a5a, i64::MIN.wrapping_add(x as u32 as i64), i64::MAX - (x as u32 as i64)] {
            let t = verif::transform_i64(y);
            ensure!(t as u64 == refbin::transform64(y), "sweep:transform_i64", "transform_i64({y})");
            ensure!(verif::untransform_i64(t) == y, "sweep:untransform_i64", "untransform_i64(transform_i64({y}))");
        }
    }
    // arrays: real writer -> document-derived reader and real reader
    let bytes = verif::write_interleaved_i32(&ints);
    let model = refbin::parse_i32_column(&bytes, ints.len()).map_err(|e| Fail::new("sweep:i32-array-doc", e))?;
    ensure!(model == ints, "sweep:i32-array-doc", "interleaved Int32 array of block {} decodes differently with the document-derived reader", b.block);
    let back = verif::read_interleaved_i32(&bytes, ints.len()).map_err(|e| Fail::new("sweep:i32-array", e.to_string()))?;
    ensure!(back == ints, "sweep:i32-array", "interleaved Int32 array of block {} does not round-trip", b.block);
    let floats: Vec<f32> = ints.iter().map(|x| f32::from_bits(*x as u32)).collect();
    let bytes = verif::write_interleaved_f32(&floats);
    let model = refbin::parse_f32_column(&bytes, floats.len()).map_err(|e| Fail::new("sweep:f32-array-doc", e))?;
    ensure!(
        model.iter().zip(ints.iter()).all(|(a, b)| *a == *b as u32),
        "sweep:f32-array-doc",
        "interleaved Float32 array of block {} decodes differently with the document-derived reader",
        b.block
    );
    let back = verif::read_interleaved_f32(&bytes, floats.len()).map_err(|e| Fail::new("sweep:f32-array", e.to_string()))?;
    ensure!(
        back.iter().zip(ints.iter()).all(|(a, b)| a.to_bits() == *b as u32),
        "sweep:f32-array",
        "interleaved Float32 array of block {} does not round-trip bit-exactly",
        b.block
    );
    // referent arrays (delta coded) of a short ramp starting anywhere
    let ramp: Vec<i32> = (0..64).map(|i| ((base as i32) >> 1).wrapping_add(i * 3)).map(|v| v & i32::MAX).collect();
    let bytes = verif::write_referents(&ramp);
    let back = verif::read_referents(&bytes, ramp.len()).map_err(|e| Fail::new("sweep:referents", e.to_string()))?;
    ensure!(back == ramp, "sweep:referents", "referent array does not round-trip");
    let model = refbin::parse_referent_column(&bytes, ramp.len()).map_err(|e| Fail::new("sweep:referents-doc", e))?;
    ensure!(model == ramp, "sweep:referents-doc", "referent array decodes differently with the document-derived reader");
    ctx.add_evals(65535);
    Ok(())
}

pub fn run(ctx: &Ctx) -> PropertyReport {
    let mut rep = PropertyReport::new(
        "C01",
        "exploration",
        "random instance forests (known/unknown classes, heterogeneous property sets, all binary-supported value types with \
         bit-pattern floats, arbitrary non-overlapping root selections) written with each of the 3 compression modes and read back; \
         expectation computed from the spec through an independent database resolver. Non-trivial = two same-class instances with \
         different property sets, or a non-finite float, or a non-UTF-8 blob, or a Ref crossing the root selection / dangling, or a \
         non-basis CFrame; distinct = distinct spec (hash of its JSON).",
    );
    let sub = crate::engine::replay_subcheck_or_all(ctx);

    if sub.runs("roundtrip") {
        let cases = ctx.cfg.cases(40_000, 1_000_000);
        let max_nodes = ctx.cfg.tier.pick(16, 40);
        let mut r = ctx.run_prop(
            "roundtrip",
            cases,
            || forest::forest(binary_profile(max_nodes)),
            roundtrip_body,
        );
        for l in [
            "same_class_different_property_sets",
            "has_nonfinite_float",
            "non_utf8_blob",
            "ref_crossing_root_selection",
            "non_basis_cframe",
        ] {
            r.floor(l, cases / 200);
        }
        rep.push(r);
    }

    if sub.runs("rotations") {
        // every matrix over {-1,0,1}: contains the 24 bases and every sign/zero pattern
        let mut cases = Vec::new();
        for code in 0..19683u32 {
            let mut rot = [0i8; 9];
            let mut c = code;
            for r in rot.iter_mut() {
                *r = (c % 3) as i8 - 1;
                c /= 3;
            }
            cases.push(RotCase {
                rot,
                optional: code % 7 == 0,
            });
        }
        rep.push(ctx.run_list("rotations", cases, true, rotation_body));
    }

    if sub.runs("scalar-sweep") {
        // hook H2: the real zig-zag / float rotation / interleaving functions, swept against the
        // formulas of docs/binary.md. Quick: every 256th block; thorough: all 2^32 inputs.
        let blocks: Vec<SweepBlock> = if ctx.cfg.replay.is_some() {
            vec![]
        } else {
            let step = ctx.cfg.tier.pick(256u32, 1);
            (0..65536u32).step_by(step as usize).map(|b| SweepBlock { block: b }).collect()
        };
        let exhaustive = ctx.cfg.tier == crate::engine::Tier::Thorough;
        let mut r = ctx.run_list("scalar-sweep", blocks, exhaustive, sweep_body);
        r.notes.push("each block covers 65536 consecutive 32-bit patterns through transform/untransform (i32, i64 embedding), the f32 sign rotation and byte interleaving, compared with a decoder written from docs/binary.md".into());
        rep.push(r);
    }

    if sub.runs("reused-codecs") {
        let cases = ctx.cfg.cases(10_000, 300_000);
        let strat = || {
            let mut p = binary_profile(5);
            p.known_classes = false;
            proptest::collection::vec(prop_oneof![3 => forest::forest(p.clone()), 1 => forest::forest(binary_profile(5))], 2..5).prop_map(|forests| ReuseCase { forests })
        };
        let mut r = ctx.run_prop("reused-codecs", cases, strat, reuse_body);
        r.floor("one_property_name_with_two_types_across_files", cases / 20);
        rep.push(r);
    }

    if sub.runs("large") {
        let mut cases = Vec::new();
        for kind in ["String", "BinaryString", "SharedString", "NumberSequence", "ColorSequence", "ContentId", "ContentUri"] {
            for n in super::c14::LONG_LENGTHS {
                cases.push(LargeCase::LongValue { kind: kind.to_string(), n: *n });
            }
        }
        for n in [64usize, 100, 101, 128, 255, 256, 300, 4096, 70_000] {
            cases.push(LargeCase::LongValue { kind: "AttributeName".into(), n });
        }
        cases.push(LargeCase::LongValue { kind: "BinaryString".into(), n: 1_100_000 });
        // one chunk of more than 2^24 incompressible bytes (32-bit length arithmetic)
        cases.push(LargeCase::LongValue { kind: "Incompressible".into(), n: 70_000 });
        cases.push(LargeCase::LongValue { kind: "Incompressible".into(), n: (1 << 24) + 4099 });
        for n in [65_535usize, 65_536, 65_537, 70_001] {
            cases.push(LargeCase::ManyInstances { n });
        }
        cases.push(LargeCase::ManyClasses { n: 65_537 });
        cases.extend(more_large_cases(true));
        rep.push(ctx.run_list("large", cases, true, large_body));
    }

    if sub.runs("deep") {
        let cases = ctx.cfg.cases(40, 1000);
        let nodes = ctx.cfg.tier.pick(300, 2000);
        let mut p = binary_profile(nodes);
        p.deep_weight = 9;
        p.max_props = 2;
        rep.push(ctx.run_prop("deep", cases, move || forest::forest(p.clone()), roundtrip_body));
    }
    rep
}

#[allow(dead_code)]
fn _unused(_: BoxedStrategy<u8>) {}
