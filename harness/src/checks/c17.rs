//! C17 — value types survive serde / text encodings and match the Lua wire contract.

use std::str::FromStr;

use proptest::prelude::*;
use proptest::sample::select;
use rbx_types::{Axes, BrickColor, Faces, MaterialColors, Ref, Tags, UniqueId, Variant, VariantType};
use serde::{Deserialize, Serialize};

use crate::engine::{no_panic, CaseCtx, Ctx, Fail, PropResult, PropertyReport};
use crate::gen::vals::{self, FloatMode, GRef, GVal, TextMode, ValProfile};
use crate::{ensure, fail};

#[derive(Clone, Debug, Serialize, Deserialize)]
pub struct ValCase {
    pub val: GVal,
    /// true: floats are finite (JSON codecs apply)
    pub finite: bool,
}

fn ref_table() -> Vec<Ref> {
    // fixed, distinct, deterministic referents incl. boundary values
    vec![
        Ref::from_str("00000000000000000000000000000001").unwrap(),
        Ref::from_str("ffffffffffffffffffffffffffffffff").unwrap(),
        Ref::from_str("80000000000000000000000000000000").unwrap(),
        Ref::from_str("0123456789abcdef0123456789abcdef").unwrap(),
        Ref::from_str("7fffffffffffffffffffffffffffffff").unwrap(),
    ]
}

fn to_variant(v: &GVal) -> Variant {
    let t = ref_table();
    let t2 = t.clone();
    v.to_variant(&move |i| t2[i % t2.len()], t[3])
}

fn observe(v: &Variant) -> GVal {
    let t = ref_table();
    GVal::from_variant(v, &move |r| match t.iter().position(|x| *x == r) {
        Some(i) => GRef::Node(i),
        None => GRef::Dangling,
    })
}

pub fn any_value(finite: bool) -> BoxedStrategy<ValCase> {
    let p = ValProfile {
        floats: if finite { FloatMode::Finite } else { FloatMode::AllBits },
        text: TextMode::Any,
        min_keypoints: 0,
        max_blob: 200,
        content_object: true,
        uid_nonneg: false,
    };
    // weight the hand-written (non-derive) impls
    let mut types: Vec<VariantType> = vals::ALL_TYPES.to_vec();
    for t in [
        VariantType::Ref,
        VariantType::UniqueId,
        VariantType::Faces,
        VariantType::Axes,
        VariantType::PhysicalProperties,
        VariantType::BinaryString,
        VariantType::SharedString,
        VariantType::Content,
        VariantType::Font,
        VariantType::Attributes,
        VariantType::MaterialColors,
        VariantType::Tags,
    ] {
        types.push(t);
        types.push(t);
    }
    select(types)
        .prop_flat_map(move |t| vals::of_type(t, p))
        .prop_map(move |val| {
            // Refs: map raw selectors onto the 5-entry table; keep Dangling/None
            let val = val.map_refs(&|r| match r {
                GRef::Node(k) => GRef::Node(k % 5),
                GRef::Dangling => GRef::Node(3),
                GRef::None => GRef::None,
            });
            // for serde every value of the type is in the domain, including a cached face id that is
            // present but empty (the file formats cannot spell it, the serde encodings can)
            let val = match val {
                GVal::Font { family, weight, style, cached: None } if family.len() % 4 == 1 => GVal::Font { family, weight, style, cached: Some(String::new()) },
                other => other,
            };
            ValCase { val, finite }
        })
        .boxed()
}

fn same(a: &GVal, b: &GVal) -> bool {
    a == b
}

fn handwritten(v: &GVal) -> bool {
    matches!(
        v,
        GVal::Ref(_)
            | GVal::UniqueId(..)
            | GVal::Faces(_)
            | GVal::Axes(_)
            | GVal::PhysicalProperties(_)
            | GVal::BinaryString(_)
            | GVal::SharedString(_)
            | GVal::Content(_)
            | GVal::Font { .. }
            | GVal::BrickColor(_)
    )
}

fn codec_body(case: &ValCase, ctx: &mut CaseCtx) -> PropResult {
    let variant = to_variant(&case.val);
    // the expectation is the value itself as observed (MaterialColors observed in full form)
    let expected = observe(&variant);
    ctx.label(type_label(&case.val));
    ctx.nontrivial_if(handwritten(&case.val) && case.val != crate::spec::binbuild::neutral(case.val.ty()));
    let ty = format!("{:?}", case.val.ty());
    let check = |codec: &str, r: Result<Variant, String>| -> PropResult {
        match r {
            Ok(back) => {
                let got = observe(&back);
                ensure!(
                    same(&expected, &got) && back.ty() == variant.ty(),
                    format!("serde:{codec}:value:{ty}"),
                    "{codec}: {:?} came back as {:?}",
                    expected,
                    got
                );
                Ok(())
            }
            Err(e) => Err(Fail::new(format!("serde:{codec}:error:{ty}"), format!("{codec}: {:?} does not survive: {e}", expected))),
        }
    };
    if case.finite {
        ctx.label("json_codecs");
        let text = no_panic("serde_json::to_string", || serde_json::to_string(&variant))?.map_err(|e| Fail::new(format!("serde:json-ser:{ty}"), e.to_string()))?;
        check("json-str", no_panic("from_str", || serde_json::from_str::<Variant>(&text))?.map_err(|e| format!("{e} in {text}")))?;
        let bytes = serde_json::to_vec(&variant).map_err(|e| Fail::new(format!("serde:json-ser:{ty}"), e.to_string()))?;
        check("json-slice", no_panic("from_slice", || serde_json::from_slice::<Variant>(&bytes))?.map_err(|e| e.to_string()))?;
        check("json-reader", no_panic("from_reader", || serde_json::from_reader::<_, Variant>(bytes.as_slice()))?.map_err(|e| format!("{e} in {text}")))?;
        let value = serde_json::to_value(&variant).map_err(|e| Fail::new(format!("serde:json-ser:{ty}"), e.to_string()))?;
        // wire contract with rbx_dom_lua (allValues.json shapes): byte strings are one standard base64 string
        if let GVal::BinaryString(b) | GVal::SharedString(b) = &case.val {
            let want = serde_json::json!({ ty.as_str(): own_base64(b) });
            ensure!(
                value == want,
                format!("serde:json-wire:{ty}"),
                "{} bytes are written to JSON as {}, the wire form is {}",
                b.len(),
                value.to_string().chars().take(200).collect::<String>(),
                want.to_string().chars().take(200).collect::<String>()
            );
        }
        check("json-value", no_panic("from_value", || serde_json::from_value::<Variant>(value.clone()))?.map_err(|e| format!("{e} in {value}")))?;
        ctx.add_evals(4);
    }
    let b = no_panic("bincode::serialize", || bincode::serialize(&variant))?.map_err(|e| Fail::new(format!("serde:bincode-ser:{ty}"), e.to_string()))?;
    check("bincode", no_panic("bincode::deserialize", || bincode::deserialize::<Variant>(&b))?.map_err(|e| e.to_string()))?;
    let m = no_panic("rmp to_vec_named", || rmp_serde::to_vec_named(&variant))?.map_err(|e| Fail::new(format!("serde:msgpack-ser:{ty}"), e.to_string()))?;
    check("msgpack-named", no_panic("rmp from_slice", || rmp_serde::from_slice::<Variant>(&m))?.map_err(|e| e.to_string()))?;
    check("bincode-reader", no_panic("bincode::deserialize_from", || bincode::deserialize_from::<_, Variant>(b.as_slice()))?.map_err(|e| e.to_string()))?;
    check("msgpack-named-reader", no_panic("rmp from_read", || rmp_serde::from_read::<_, Variant>(m.as_slice()))?.map_err(|e| e.to_string()))?;
    let m = no_panic("rmp to_vec", || rmp_serde::to_vec(&variant))?.map_err(|e| Fail::new(format!("serde:msgpack-ser:{ty}"), e.to_string()))?;
    check("msgpack-compact", no_panic("rmp from_slice", || rmp_serde::from_slice::<Variant>(&m))?.map_err(|e| e.to_string()))?;
    check("msgpack-compact-reader", no_panic("rmp from_read", || rmp_serde::from_read::<_, Variant>(m.as_slice()))?.map_err(|e| e.to_string()))?;
    // a reader that hands out one byte per call (nothing can be borrowed from it)
    check("msgpack-compact-trickle", no_panic("rmp from_read", || rmp_serde::from_read::<_, Variant>(Trickle(m.as_slice())))?.map_err(|e| e.to_string()))?;
    ctx.add_evals(6);
    Ok(())
}

struct Trickle<'a>(&'a [u8]);

impl std::io::Read for Trickle<'_> {
    fn read(&mut self, buf: &mut [u8]) -> std::io::Result<usize> {
        if self.0.is_empty() || buf.is_empty() {
            return Ok(0);
        }
        buf[0] = self.0[0];
        self.0 = &self.0[1..];
        Ok(1)
    }
}

/// Decoding is a function of the document: the same documents decoded by 16 threads at once must give
/// what they give one after another (nested maps, so that a lot of decoding state is open at the same time).
fn concurrent_nested(ctx: &Ctx) -> crate::engine::SubReport {
    use rbx_types::Attributes;
    let mut r = crate::engine::SubReport::new("concurrent-nested");
    let start = std::time::Instant::now();
    if ctx.cfg.replay.is_some() {
        return r;
    }
    let nested = |depth: usize, salt: u64| -> Variant {
        let mut v = Variant::Float64(salt as f64 + 0.5);
        for d in 0..depth {
            let mut a = Attributes::new();
            a.insert(format!("level{d}"), v);
            a.insert("flag".into(), Variant::Bool(d % 2 == 0));
            v = Variant::Attributes(a);
        }
        v
    };
    let docs: Vec<(Variant, String, Vec<u8>, Vec<u8>)> = (0..8u64)
        .map(|k| {
            let v = nested(20 + k as usize, k);
            (v.clone(), serde_json::to_string(&v).unwrap(), rmp_serde::to_vec_named(&v).unwrap(), bincode::serialize(&v).unwrap())
        })
        .collect();
    let decode_all = |rounds: usize| -> Result<(), String> {
        for i in 0..rounds {
            let (want, json, mp, bc) = &docs[i % docs.len()];
            let want = observe(want);
            let got: Variant = serde_json::from_str(json).map_err(|e| format!("from_str: {e}"))?;
            if observe(&got) != want {
                return Err("from_str decoded another value".into());
            }
            let got: Variant = serde_json::from_reader(json.as_bytes()).map_err(|e| format!("from_reader: {e}"))?;
            if observe(&got) != want {
                return Err("from_reader decoded another value".into());
            }
            let got: Variant = rmp_serde::from_slice(mp).map_err(|e| format!("msgpack: {e}"))?;
            if observe(&got) != want {
                return Err("msgpack decoded another value".into());
            }
            let got: Variant = bincode::deserialize(bc).map_err(|e| format!("bincode: {e}"))?;
            if observe(&got) != want {
                return Err("bincode decoded another value".into());
            }
        }
        Ok(())
    };
    // one after another first: this is the reference behaviour
    if let Err(e) = decode_all(docs.len()) {
        r.inconclusive.push(format!("nested attribute maps do not decode even sequentially: {e}"));
        return r;
    }
    let rounds = ctx.cfg.tier.pick(400usize, 6000);
    let errors: std::sync::Mutex<Vec<String>> = std::sync::Mutex::new(Vec::new());
    std::thread::scope(|s| {
        for _ in 0..16 {
            s.spawn(|| match crate::engine::catch(|| decode_all(rounds)) {
                Ok(Ok(())) => {}
                Ok(Err(e)) => errors.lock().unwrap().push(e),
                Err(info) => errors.lock().unwrap().push(format!("panic: {}", info.msg)),
            });
        }
    });
    r.evaluations = (16 * rounds * 4) as u64;
    r.distinct_nontrivial = r.evaluations;
    r.notes.push("16 threads decode 8 documents of 20-27 nested attribute maps through 4 entry points at the same time; a stress sample of the interleavings".into());
    if let Some(e) = errors.into_inner().unwrap().first() {
        let msg = format!("a document that decodes on its own fails or changes when 16 threads decode at the same time: {e}");
        let replay = crate::engine::write_replay("C17", "concurrent-nested", &serde_json::json!({"rounds": rounds}), "serde:concurrent-decode", &msg);
        r.failures.push(crate::engine::Failure { key: "serde:concurrent-decode".into(), msg, replay: Some(replay) });
    }
    r.wall_s = start.elapsed().as_secs_f64();
    r
}

/// Decoders must not remember a failed call: a rejected document, then a valid one on the same thread.
#[derive(Clone, Debug, Serialize, Deserialize)]
pub struct AfterFailure {
    pub val: GVal,
    /// which malformed documents come first
    pub junk: Vec<u8>,
}

fn after_failure_body(c: &AfterFailure, ctx: &mut CaseCtx) -> PropResult {
    let mut rejected = 0;
    for j in &c.junk {
        let ty = ["BinaryString", "SharedString", "Faces", "Axes", "UniqueId", "Ref", "Tags", "Attributes"][*j as usize % 8];
        let docs = [
            format!("{{\"{ty}\": \"!!!not base64 \\u0000 ===\"}}"),
            format!("{{\"{ty}\": \"QUJD*RA==\"}}"),
            format!("{{\"{ty}\": [\"Nope\", 3]}}"),
            format!("{{\"{ty}\": \"{}\"}}", "Q".repeat(1 + *j as usize)),
        ];
        let d = &docs[(*j as usize / 8) % docs.len()];
        if let Ok(Err(_)) = crate::engine::catch(|| serde_json::from_str::<Variant>(d)) {
            rejected += 1;
        }
        let bytes: Vec<u8> = d.bytes().rev().collect();
        let _ = crate::engine::catch(|| rmp_serde::from_slice::<Variant>(&bytes).is_ok());
        let _ = crate::engine::catch(|| bincode::deserialize::<Variant>(&bytes[..bytes.len().min(24)]).is_ok());
    }
    // failed *writes* on this thread as well: a sink that gives an I/O error after a few bytes (or
    // panics), under every serde format; whatever the encoders stage per thread must not leak
    struct Failing {
        left: usize,
        panic: bool,
    }
    impl std::io::Write for Failing {
        fn write(&mut self, b: &[u8]) -> std::io::Result<usize> {
            if self.left == 0 {
                if self.panic {
                    crate::engine::quiet_panic("sink panics");
                }
                return Err(std::io::Error::new(std::io::ErrorKind::Other, "sink full"));
            }
            let n = b.len().min(self.left);
            self.left -= n;
            Ok(n)
        }
        fn flush(&mut self) -> std::io::Result<()> {
            Ok(())
        }
    }
    let mut write_failed = 0;
    for j in &c.junk {
        let blob: Vec<u8> = (0..(*j as usize * 3 + 5)).map(|i| (i * 11 % 251) as u8).collect();
        let victims = [
            Variant::BinaryString(blob.clone().into()),
            Variant::SharedString(rbx_types::SharedString::new(blob.clone())),
            Variant::Tags(vec!["first", "second"].into_iter().map(String::from).collect::<Vec<String>>().into()),
            c.val.to_variant(&|_| rbx_types::Ref::none(), rbx_types::Ref::none()),
        ];
        let v = &victims[*j as usize % victims.len()];
        let left = *j as usize % 23;
        let panic = *j >= 200;
        for fmt in 0..4 {
            let r = crate::engine::catch(|| -> bool {
                let mut sink = Failing { left, panic };
                match fmt {
                    0 => serde_json::to_writer(&mut sink, v).is_err(),
                    1 => serde_json::to_writer_pretty(&mut sink, v).is_err(),
                    2 => rmp_serde::encode::write(&mut sink, v).is_err(),
                    _ => bincode::serialize_into(&mut sink, v).is_err(),
                }
            });
            if !matches!(r, Ok(false)) {
                write_failed += 1;
            }
        }
    }
    ctx.label_if(rejected > 0, "decode_rejected_before");
    ctx.label_if(write_failed > 0, "encode_failed_before");
    ctx.nontrivial_if(rejected > 0 || write_failed > 0);
    codec_body(&ValCase { val: c.val.clone(), finite: true }, ctx)
}

/// RFC 4648 base64 with padding, written here so the expectation does not come from the crate under test.
fn own_base64(bytes: &[u8]) -> String {
    const A: &[u8; 64] = b"ABCDEFGHIJKLMNOPQRSTUVWXYZabcdefghijklmnopqrstuvwxyz0123456789+/";
    let mut out = String::with_capacity(bytes.len().div_ceil(3) * 4);
    for c in bytes.chunks(3) {
        let n = (c[0] as u32) << 16 | (*c.get(1).unwrap_or(&0) as u32) << 8 | *c.get(2).unwrap_or(&0) as u32;
        out.push(A[(n >> 18) as usize & 63] as char);
        out.push(A[(n >> 12) as usize & 63] as char);
        out.push(if c.len() > 1 { A[(n >> 6) as usize & 63] as char } else { '=' });
        out.push(if c.len() > 2 { A[n as usize & 63] as char } else { '=' });
    }
    out
}

#[derive(Clone, Debug, Serialize, Deserialize)]
pub struct LongVal {
    pub kind: String,
    pub n: usize,
}

fn long_val_body(c: &LongVal, ctx: &mut CaseCtx) -> PropResult {
    let bytes = |n: usize| (0..n).map(|i| (i * 37 % 253) as u8).collect::<Vec<u8>>();
    let val = match c.kind.as_str() {
        "BinaryString" => GVal::BinaryString(bytes(c.n)),
        "SharedString" => GVal::SharedString(bytes(c.n)),
        "Tags" => GVal::Tags((0..c.n / 8).map(|i| format!("tag{i:05}")).collect()),
        "Attributes" => GVal::Attributes(vec![("blob".into(), GVal::BinaryString(bytes(c.n))), ("z".into(), GVal::Bool(true))]),
        "NumberSequence" => super::c14::long_value("NumberSequence", c.n / 12),
        _ => super::c14::long_value("String", c.n),
    };
    ctx.nontrivial();
    codec_body(&ValCase { val: val.clone(), finite: true }, ctx)?;
    codec_body(&ValCase { val, finite: false }, ctx)
}

fn type_label(v: &GVal) -> &'static str {
    match v.ty() {
        VariantType::Ref => "ty:Ref",
        VariantType::UniqueId => "ty:UniqueId",
        VariantType::Faces => "ty:Faces",
        VariantType::Axes => "ty:Axes",
        VariantType::PhysicalProperties => "ty:PhysicalProperties",
        VariantType::BinaryString => "ty:BinaryString",
        VariantType::SharedString => "ty:SharedString",
        VariantType::Content => "ty:Content",
        VariantType::Font => "ty:Font",
        VariantType::Attributes => "ty:Attributes",
        VariantType::MaterialColors => "ty:MaterialColors",
        VariantType::Tags => "ty:Tags",
        VariantType::Region3 => "ty:Region3",
        VariantType::EnumItem => "ty:EnumItem",
        _ => "ty:derived",
    }
}

// ---------------------------------------------------------------------------
// text forms

#[derive(Clone, Debug, Serialize, Deserialize)]
pub enum TextCase {
    Ref(u128),
    Uid(u32, u32, i64),
    /// any text: the parsers answer Ok or Err, never by panicking (text of the right byte length
    /// with multi-byte characters at arbitrary offsets is the interesting part)
    Garbage(String),
}

fn text_body(case: &TextCase, ctx: &mut CaseCtx) -> PropResult {
    ctx.nontrivial();
    match case {
        TextCase::Ref(v) => {
            let s = format!("{v:032x}");
            let r = Ref::from_str(&s).map_err(|e| Fail::new("text:ref-parse", format!("{s}: {e}")))?;
            ensure!(r.to_string() == s, "text:ref-display", "Ref parsed from {s} prints as {r}");
            ensure!((*v == 0) == r.is_none(), "text:ref-none", "{s}: is_none = {}", r.is_none());
            let back = Ref::from_str(&r.to_string()).map_err(|e| Fail::new("text:ref-parse", e.to_string()))?;
            ensure!(back == r, "text:ref-roundtrip", "{s}");
            ctx.label_if(*v == 0, "null_ref");
        }
        TextCase::Uid(i, t, rnd) => {
            let u = UniqueId::new(*i, *t, *rnd);
            let s = u.to_string();
            ensure!(s.len() == 32, "text:uid-length", "{u:?} prints as {s:?}");
            match UniqueId::from_str(&s) {
                Ok(back) => ensure!(back == u, "text:uid-roundtrip", "{u:?} -> {s} -> {back:?}"),
                Err(e) => fail!("text:uid-parse", "{u:?} prints as {s}, which does not parse: {e}"),
            }
            ctx.label_if(*rnd < 0, "negative_random");
        }
        TextCase::Garbage(t) => {
            ctx.label_if(t.len() == 32 && !t.is_ascii(), "non_ascii_text_of_32_bytes");
            let r = no_panic("UniqueId::from_str", || UniqueId::from_str(t).is_ok())?;
            ensure!(!r || t.len() == 32, "text:uid-accepts-garbage", "UniqueId::from_str accepts {t:?}");
            no_panic("Ref::from_str", || Ref::from_str(t).is_ok())?;
        }
    }
    Ok(())
}

// ---------------------------------------------------------------------------
// exhaustive conversions

#[derive(Clone, Debug, Serialize, Deserialize)]
pub enum ConvCase {
    Brick(u16),
    FacesByte(u8),
    AxesByte(u8),
}

fn conv_body(case: &ConvCase, ctx: &mut CaseCtx) -> PropResult {
    match case {
        ConvCase::Brick(n) => {
            if let Some(b) = BrickColor::from_number(*n) {
                ctx.nontrivial();
                ctx.label("valid_brickcolor_number");
                ensure!(b as u16 == *n, "conv:brickcolor-number", "from_number({n}) as u16 = {}", b as u16);
                let name = b.to_string();
                match BrickColor::from_name(&name) {
                    Some(c) => ensure!(c.to_string() == name, "conv:brickcolor-name", "from_name({name:?}) prints as {:?}", c.to_string()),
                    None => fail!("conv:brickcolor-name-unknown", "BrickColor {n} prints as {name:?}, which from_name does not know"),
                }
                let v = Variant::BrickColor(b);
                let json = serde_json::to_string(&v).unwrap();
                let back: Variant = serde_json::from_str(&json).map_err(|e| Fail::new("conv:brickcolor-json", e.to_string()))?;
                ensure!(back == v, "conv:brickcolor-json", "{json}");
                let bin = bincode::serialize(&v).unwrap();
                let back: Variant = bincode::deserialize(&bin).map_err(|e| Fail::new("conv:brickcolor-bincode", e.to_string()))?;
                ensure!(back == v, "conv:brickcolor-bincode", "{n}");
            } else {
                // an unknown number must be rejected, not mapped to something else
                let json = format!("{{\"BrickColor\":{n}}}");
                ensure!(serde_json::from_str::<Variant>(&json).is_err(), "conv:brickcolor-unknown-accepted", "{json} accepted");
            }
        }
        ConvCase::FacesByte(b) => match Faces::from_bits(*b) {
            Some(f) => {
                ctx.nontrivial();
                ensure!(f.bits() == *b && *b < 64, "conv:faces-bits", "{b}");
                let names = [(Faces::RIGHT, 1u8), (Faces::TOP, 2), (Faces::BACK, 4), (Faces::LEFT, 8), (Faces::BOTTOM, 16), (Faces::FRONT, 32)];
                for (face, bit) in names {
                    ensure!(f.contains(face) == (b & bit != 0), "conv:faces-contains", "{b}: bit {bit}");
                }
                for v in roundtrips(&Variant::Faces(f))? {
                    ensure!(v == Variant::Faces(f), "conv:faces-serde", "{b} came back as {v:?}");
                }
            }
            None => ensure!(*b >= 64, "conv:faces-rejected", "valid bit set {b} rejected"),
        },
        ConvCase::AxesByte(b) => match Axes::from_bits(*b) {
            Some(a) => {
                ctx.nontrivial();
                ensure!(a.bits() == *b && *b < 8, "conv:axes-bits", "{b}");
                for v in roundtrips(&Variant::Axes(a))? {
                    ensure!(v == Variant::Axes(a), "conv:axes-serde", "{b} came back as {v:?}");
                }
            }
            None => ensure!(*b >= 8, "conv:axes-rejected", "valid bit set {b} rejected"),
        },
    }
    Ok(())
}

fn roundtrips(v: &Variant) -> Result<Vec<Variant>, Fail> {
    let e = |c: &str, e: String| Fail::new(format!("conv:{c}"), e);
    let json = serde_json::to_string(v).map_err(|x| e("json-ser", x.to_string()))?;
    let value = serde_json::to_value(v).map_err(|x| e("json-ser", x.to_string()))?;
    Ok(vec![
        serde_json::from_str(&json).map_err(|x| e("json-str", format!("{x} in {json}")))?,
        serde_json::from_reader(json.as_bytes()).map_err(|x| e("json-reader", format!("{x} in {json}")))?,
        serde_json::from_value(value).map_err(|x| e("json-value", format!("{x} in {json}")))?,
        bincode::deserialize(&bincode::serialize(v).map_err(|x| e("bincode-ser", x.to_string()))?).map_err(|x| e("bincode", x.to_string()))?,
        rmp_serde::from_slice(&rmp_serde::to_vec(v).map_err(|x| e("msgpack-ser", x.to_string()))?).map_err(|x| e("msgpack", x.to_string()))?,
    ])
}

// ---------------------------------------------------------------------------
// blobs

#[derive(Clone, Debug, Serialize, Deserialize)]
pub enum BlobCase {
    Tags(Vec<String>),
    TagBytes(Vec<u8>),
    Materials(Vec<(u8, [u8; 3])>),
    MaterialBytes(Vec<u8>),
}

fn blob_body(case: &BlobCase, ctx: &mut CaseCtx) -> PropResult {
    match case {
        BlobCase::Tags(members) => {
            let t = Tags::from(members.clone());
            let blob = t.encode();
            ensure!(blob == crate::oracle::tags_blob(members), "blob:tags-layout", "{members:?} encoded as {:02x?}", blob);
            let back = Tags::decode(&blob).map_err(|e| Fail::new("blob:tags-decode", e.to_string()))?;
            ensure!(back == t, "blob:tags-roundtrip", "{members:?} came back as {:?}", back.iter().collect::<Vec<_>>());
            ctx.nontrivial_if(members.len() >= 2);
        }
        BlobCase::TagBytes(bytes) => {
            // canonical blobs (no empty members, valid UTF-8) re-encode to themselves
            if let Ok(t) = Tags::decode(bytes) {
                let canonical = !bytes.is_empty()
                    && bytes.split(|b| *b == 0).all(|m| !m.is_empty());
                if canonical || bytes.is_empty() {
                    ensure!(&t.encode() == bytes, "blob:tags-reencode", "{:02x?} re-encodes as {:02x?}", bytes, t.encode());
                    ctx.nontrivial_if(bytes.contains(&0));
                }
                let n = bytes.split(|b| *b == 0).filter(|m| !m.is_empty()).count();
                ensure!(t.len() == n, "blob:tags-count", "{n} non-empty members, decoded {}", t.len());
            }
        }
        BlobCase::Materials(list) => {
            let v = GVal::MaterialColors(list.clone());
            let Variant::MaterialColors(mc) = v.to_variant(&|_| Ref::none(), Ref::none()) else { unreachable!() };
            let blob = mc.encode();
            ensure!(blob == crate::oracle::material_colors_blob(&v), "blob:materials-layout", "{list:?} encoded as {:02x?}", blob);
            let back = MaterialColors::decode(&blob).map_err(|e| Fail::new("blob:materials-decode", e.to_string()))?;
            for (i, m) in vals::MATERIALS.iter().enumerate() {
                ensure!(back.get_color(*m) == mc.get_color(*m), "blob:materials-roundtrip", "material #{i} changed");
            }
            ensure!(back.encode() == blob, "blob:materials-reencode", "re-encoding differs");
            ctx.nontrivial_if(!list.is_empty());
        }
        BlobCase::MaterialBytes(bytes) => match MaterialColors::decode(bytes) {
            Ok(mc) => {
                ensure!(bytes.len() == 69, "blob:materials-length", "{}-byte blob accepted", bytes.len());
                let mut canonical = bytes.clone();
                for b in canonical.iter_mut().take(6) {
                    *b = 0;
                }
                ensure!(mc.encode() == canonical, "blob:materials-reencode", "blob does not re-encode to itself");
                ctx.nontrivial();
            }
            Err(_) => ensure!(bytes.len() != 69, "blob:materials-rejected", "69-byte blob rejected"),
        },
    }
    Ok(())
}

// ---------------------------------------------------------------------------
// fixture: rbx_dom_lua/src/allValues.json

#[derive(Clone, Debug, Serialize, Deserialize)]
pub struct FixtureCase {
    pub name: String,
    pub ty: String,
    pub value: serde_json::Value,
}

fn fixture_cases() -> Result<Vec<FixtureCase>, String> {
    let text = std::fs::read_to_string("/repo/rbx_dom_lua/src/allValues.json").map_err(|e| e.to_string())?;
    let v: serde_json::Value = serde_json::from_str(&text).map_err(|e| e.to_string())?;
    let mut out = Vec::new();
    for (name, entry) in v.as_object().ok_or("not an object")? {
        out.push(FixtureCase {
            name: name.clone(),
            ty: entry.get("ty").and_then(|t| t.as_str()).unwrap_or("").to_string(),
            value: entry.get("value").cloned().unwrap_or(serde_json::Value::Null),
        });
    }
    Ok(out)
}

fn fixture_body(case: &FixtureCase, ctx: &mut CaseCtx) -> PropResult {
    ctx.nontrivial();
    let v: Variant = match no_panic("from_value", || serde_json::from_value(case.value.clone()))? {
        Ok(v) => v,
        Err(e) => fail!(format!("fixture:decode:{}", case.ty), "allValues.json entry {:?} does not decode: {e}", case.name),
    };
    ensure!(
        format!("{:?}", v.ty()) == case.ty,
        "fixture:type",
        "entry {:?} says ty {:?}, decoded a {:?}",
        case.name,
        case.ty,
        v.ty()
    );
    let again = serde_json::to_value(&v).map_err(|e| Fail::new("fixture:encode", e.to_string()))?;
    ensure!(again == case.value, format!("fixture:reencode:{}", case.ty), "entry {:?}: {} re-encodes as {}", case.name, case.value, again);
    // and through text
    let text = serde_json::to_string(&case.value).unwrap();
    let v2: Variant = serde_json::from_str(&text).map_err(|e| Fail::new(format!("fixture:decode:{}", case.ty), e.to_string()))?;
    ensure!(v2 == v, "fixture:text-vs-value", "entry {:?} decodes differently from text and from Value", case.name);
    Ok(())
}

pub fn run(ctx: &Ctx) -> PropertyReport {
    let mut rep = PropertyReport::new(
        "C17",
        "exploration",
        "values of all 40 Variant variants (finite floats for JSON, all bit patterns for bincode / MessagePack) through serde_json str / slice / reader / Value, bincode, \
         rmp_serde named and compact, compared bitwise; Ref and UniqueId through Display/FromStr incl. boundary values; exhaustive sweeps of all u16 BrickColor numbers and \
         all 256 Faces / Axes bytes; Tags / MaterialColors blobs both ways; every entry of rbx_dom_lua/src/allValues.json decodes to its stated type and re-encodes to the same JSON. \
         Non-trivial = a non-default value of a type with a hand-written (non-derive) serde impl.",
    );
    rep.assume("serde_json is built with float_roundtrip so that a parser shortcut of the JSON library cannot masquerade as an rbx_types defect");
    let sub = crate::engine::replay_subcheck_or_all(ctx);
    if sub.runs("codecs") {
        let cases = ctx.cfg.cases(300_000, 30_000_000);
        let mut r = ctx.run_prop(
            "codecs",
            cases,
            || prop_oneof![any_value(true), any_value(false)],
            codec_body,
        );
        for l in ["ty:Ref", "ty:UniqueId", "ty:Faces", "ty:Axes", "ty:PhysicalProperties", "ty:BinaryString", "ty:SharedString", "ty:Content", "ty:Font", "ty:Attributes", "ty:MaterialColors", "ty:Tags", "ty:Region3", "ty:EnumItem", "json_codecs"] {
            r.floor(l, cases / 500);
        }
        rep.push(r);
    }
    if sub.runs("concurrent-nested") {
        rep.push(concurrent_nested(ctx));
    }
    if sub.runs("after-failure") {
        let cases = ctx.cfg.cases(60_000, 6_000_000);
        let strat = || (any_value(true), proptest::collection::vec(any::<u8>(), 1..4)).prop_map(|(v, junk)| AfterFailure { val: v.val, junk });
        let mut r = ctx.run_prop("after-failure", cases, strat, after_failure_body);
        r.floor("decode_rejected_before", cases / 4);
        r.floor("encode_failed_before", cases / 4);
        rep.push(r);
    }
    if sub.runs("long-values") {
        // lengths around every block size a codec could plausibly chunk at
        let mut lens: Vec<usize> = Vec::new();
        for centre in [1024usize, 2048, 3072, 4096, 8192, 16384, 32768, 65536, 131072] {
            for d in 0..7 {
                lens.push(centre + d - 3);
            }
        }
        lens.extend([255, 256, 257, 511, 512, 513, 1000, 1500, 5000, 100_001, 1_000_003]);
        // around and above 1 MiB / 2 MiB / 4 MiB (block sizes of streaming encoders), for the byte-string kinds only
        let huge: Vec<usize> = vec![(1 << 20) - 1, 1 << 20, (1 << 20) + 1, (1 << 20) + 2, (1 << 21) + 1, 3_000_001, (1 << 22) + 5];
        let mut cases = Vec::new();
        for kind in ["BinaryString", "SharedString", "String", "Tags", "Attributes", "NumberSequence"] {
            for n in &lens {
                cases.push(LongVal { kind: kind.to_string(), n: *n });
            }
        }
        for kind in ["BinaryString", "SharedString"] {
            for n in &huge {
                cases.push(LongVal { kind: kind.to_string(), n: *n });
            }
        }
        rep.push(ctx.run_list("long-values", cases, true, long_val_body));
    }
    if sub.runs("text") {
        let cases = ctx.cfg.cases(200_000, 15_000_000);
        let strat = || {
            prop_oneof![
                2 => any::<u128>().prop_map(TextCase::Ref),
                1 => select(vec![0u128, 1, u128::MAX, 1 << 127, (1 << 127) - 1, u64::MAX as u128, 1 << 64]).prop_map(TextCase::Ref),
                2 => (any::<u32>(), any::<u32>(), any::<i64>()).prop_map(|(i, t, r)| TextCase::Uid(i, t, r)),
                1 => (select(vec![0u32, 1, u32::MAX]), select(vec![0u32, 1, u32::MAX]), select(vec![0i64, 1, -1, -5, i64::MAX, i64::MIN, i64::MIN + 1, 1 << 62])).prop_map(|(i, t, r)| TextCase::Uid(i, t, r)),
                2 => proptest::collection::vec(select(vec!['0', 'f', 'A', '9', 'g', '-', ' ', '\u{e9}', '\u{20AC}', '\u{1F600}']), 0..40).prop_map(|v| {
                    // fitted to 32 bytes most of the time
                    let mut t = String::new();
                    for c in v {
                        if t.len() + c.len_utf8() > 32 {
                            break;
                        }
                        t.push(c);
                    }
                    if t.len() % 3 != 0 {
                        while t.len() < 32 {
                            t.push('0');
                        }
                    }
                    TextCase::Garbage(t)
                }),
            ]
        };
        let mut r = ctx.run_prop("text", cases, strat, text_body);
        r.floor("negative_random", cases / 20);
        r.floor("null_ref", cases / 2000);
        r.floor("non_ascii_text_of_32_bytes", cases / 20);
        rep.push(r);
    }
    if sub.runs("conversions") {
        let mut cases: Vec<ConvCase> = (0..=u16::MAX).map(ConvCase::Brick).collect();
        cases.extend((0..=255u8).map(ConvCase::FacesByte));
        cases.extend((0..=255u8).map(ConvCase::AxesByte));
        rep.push(ctx.run_list("conversions", cases, true, conv_body));
    }
    if sub.runs("blobs") {
        let cases = ctx.cfg.cases(40_000, 1_000_000);
        let strat = || {
            prop_oneof![
                3 => proptest::collection::vec(vals::text(TextMode::Any), 0..6)
                    .prop_map(|v| BlobCase::Tags(v.into_iter().map(|s| s.replace('\u{0}', "0")).filter(|s| !s.is_empty()).collect())),
                2 => vals::bytes(40).prop_map(BlobCase::TagBytes),
                2 => proptest::collection::vec(prop_oneof![3 => proptest::char::range('a', 'e').prop_map(|c| c as u8), 1 => Just(0u8)], 0..12).prop_map(BlobCase::TagBytes),
                3 => proptest::collection::vec((0u8..21, any::<[u8; 3]>()), 0..22).prop_map(|mut v| { v.sort_by_key(|x| x.0); v.dedup_by_key(|x| x.0); BlobCase::Materials(v) }),
                2 => proptest::collection::vec(any::<u8>(), 69..=69).prop_map(BlobCase::MaterialBytes),
                1 => vals::bytes(100).prop_map(BlobCase::MaterialBytes),
            ]
        };
        rep.push(ctx.run_prop("blobs", cases, strat, blob_body));
    }
    if sub.runs("fixture") {
        match fixture_cases() {
            Ok(cases) => rep.push(ctx.run_list("fixture", cases, true, fixture_body)),
            Err(e) => {
                let mut r = crate::engine::SubReport::new("fixture");
                r.inconclusive.push(format!("cannot read allValues.json: {e}"));
                rep.push(r);
            }
        }
    }
    rep
}
