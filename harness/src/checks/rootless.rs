//! C10 / C11 — histories over a DOM that has no root (`WeakDom::default()`): such a DOM still holds
//! instances (parentless trees inserted under `Ref::none()`, subtrees transferred under them, earlier
//! copies), and every operation must mean on it what it means on a rooted DOM. Own small reference
//! model (ordered trees keyed by referent, Ref properties only), independent of `model.rs`.

use std::collections::{BTreeMap, HashMap, HashSet};

use proptest::prelude::*;
use rbx_dom_weak::{InstanceBuilder, WeakDom};
use rbx_types::{Ref, Variant};
use serde::{Deserialize, Serialize};

use crate::engine::{CaseCtx, Fail, PropResult};

#[derive(Clone, Debug, Serialize, Deserialize)]
pub enum ROp {
    /// a new parentless tree in the rootless DOM: one instance with `kids` children
    InsertTop { name: u8, kids: u8 },
    InsertUnder { at: u16, name: u8 },
    /// move a non-root instance of the rooted DOM under an instance of the rootless one
    TransferIn { node: u16, under: u16 },
    /// move an instance of the rootless DOM under an instance of the rooted one
    TransferOut { node: u16, under: u16 },
    /// point a Ref property of an instance (of the rooted DOM if `on_src`) at an instance of either DOM
    SetRef { on_src: bool, node: u16, slot: u8, to_dest: bool, target: u16 },
    CloneInto { node: u16 },
    CloneMulti { nodes: Vec<u16> },
    /// `clone_within` on the rootless DOM
    CloneWithinDest { node: u16 },
    /// clone from the rootless DOM into the rooted one
    CloneBack { node: u16 },
    DestroyInDest { node: u16 },
}

#[derive(Clone, Debug, Serialize, Deserialize)]
pub struct RootlessCase {
    /// children counts of the rooted DOM's first two levels
    pub src_shape: Vec<u8>,
    pub ops: Vec<ROp>,
}

#[derive(Clone, Debug, PartialEq)]
struct MN {
    parent: Ref,
    children: Vec<Ref>,
    name: String,
    class: String,
    refs: BTreeMap<String, Ref>,
}

#[derive(Default)]
struct M {
    nodes: HashMap<Ref, MN>,
    order: Vec<Ref>,
}

impl M {
    fn live(&self) -> Vec<Ref> {
        self.order.iter().copied().filter(|r| self.nodes.contains_key(r)).collect()
    }
    fn subtree(&self, r: Ref) -> Vec<Ref> {
        let mut out = vec![];
        let mut stack = vec![r];
        while let Some(n) = stack.pop() {
            out.push(n);
            for c in self.nodes[&n].children.iter().rev() {
                stack.push(*c);
            }
        }
        out
    }
    fn add(&mut self, r: Ref, n: MN) {
        self.order.push(r);
        self.nodes.insert(r, n);
    }
    fn take_subtree(&mut self, r: Ref) -> Vec<(Ref, MN)> {
        let p = self.nodes[&r].parent;
        if p.is_some() {
            self.nodes.get_mut(&p).unwrap().children.retain(|c| *c != r);
        }
        self.subtree(r).into_iter().map(|x| (x, self.nodes.remove(&x).unwrap())).collect()
    }
}

const SLOTS: [&str; 3] = ["RefA", "RefB", "Target"];
const NAMES: [&str; 4] = ["a", "b", "c", "d"];

fn pick(sel: u16, len: usize) -> Option<usize> {
    if len == 0 {
        None
    } else {
        Some((sel as usize * len) >> 16)
    }
}

fn fail(prop: &str, what: &str, msg: String) -> Fail {
    Fail::new(format!("{prop}:rootless:{what}"), msg)
}

/// Compare one real DOM with its model through the public API.
fn diff(real: &WeakDom, m: &M, which: &str) -> Result<(), Fail> {
    for (r, n) in &m.nodes {
        let Some(inst) = real.get_by_ref(*r) else {
            return Err(fail("c10", "instance-missing", format!("{which} DOM: instance {r} ({}) cannot be resolved", n.name)));
        };
        if inst.parent() != n.parent {
            return Err(fail("c10", "parent", format!("{which} DOM: instance {r} ({}) has parent {} instead of {}", n.name, inst.parent(), n.parent)));
        }
        if inst.children() != n.children.as_slice() {
            return Err(fail("c10", "children", format!("{which} DOM: instance {r} ({}) lists children {:?} instead of {:?}", n.name, inst.children(), n.children)));
        }
        if inst.name != n.name || inst.class.as_str() != n.class {
            return Err(fail("c10", "name-or-class", format!("{which} DOM: instance {r} is {} / {} instead of {} / {}", inst.name, inst.class, n.name, n.class)));
        }
        let got: BTreeMap<String, Ref> = inst.properties.iter().filter_map(|(k, v)| if let Variant::Ref(x) = v { Some((k.to_string(), *x)) } else { None }).collect();
        if got != n.refs || inst.properties.len() != n.refs.len() {
            return Err(fail("c11", "ref-values", format!("{which} DOM: instance {r} ({}) has Ref properties {got:?} instead of {:?}", n.name, n.refs)));
        }
    }
    Ok(())
}

pub fn body(case: &RootlessCase, ctx: &mut CaseCtx) -> PropResult {
    let res = crate::engine::catch(|| run(case)).map_err(|info| fail("c10", "panic", format!("an operation within its documented preconditions panicked: {}", info.msg)))?;
    let stats = res?;
    ctx.label_if(stats.kept > 0, "outside_ref_kept_in_rootless_destination");
    ctx.label_if(stats.nulled > 0, "outside_ref_nulled");
    ctx.label_if(stats.inside > 0, "inside_ref_rewritten");
    ctx.label_if(stats.transfers > 0, "transfer_into_rootless");
    ctx.label_if(stats.multi > 0, "clone_multiple_into_rootless");
    ctx.nontrivial_if(stats.kept > 0 && stats.inside + stats.nulled > 0);
    Ok(())
}

#[derive(Default)]
struct Stats {
    kept: u32,
    nulled: u32,
    inside: u32,
    transfers: u32,
    multi: u32,
}

fn run(case: &RootlessCase) -> Result<Stats, Fail> {
    let mut stats = Stats::default();
    // rooted source DOM
    let root_ref = Ref::new();
    let mut sm = M::default();
    let mut rb = InstanceBuilder::new("DataModel").with_referent(root_ref).with_name("root");
    sm.add(root_ref, MN { parent: Ref::none(), children: vec![], name: "root".into(), class: "DataModel".into(), refs: BTreeMap::new() });
    for (i, kids) in case.src_shape.iter().enumerate() {
        let r = Ref::new();
        let name = NAMES[i % 4].to_string();
        let mut b = InstanceBuilder::new("Folder").with_referent(r).with_name(name.clone());
        let mut mn = MN { parent: root_ref, children: vec![], name, class: "Folder".into(), refs: BTreeMap::new() };
        let mut grand = vec![];
        for k in 0..*kids {
            let g = Ref::new();
            let gname = NAMES[(k as usize + 1) % 4].to_string();
            b = b.with_child(InstanceBuilder::new("Part").with_referent(g).with_name(gname.clone()));
            mn.children.push(g);
            grand.push((g, MN { parent: r, children: vec![], name: gname, class: "Part".into(), refs: BTreeMap::new() }));
        }
        rb = rb.with_child(b);
        sm.nodes.get_mut(&root_ref).unwrap().children.push(r);
        sm.add(r, mn);
        for (g, n) in grand {
            sm.add(g, n);
        }
    }
    let mut src = WeakDom::new(rb);
    let mut dest = WeakDom::default();
    let mut dm = M::default();
    let mut ever: HashSet<Ref> = sm.nodes.keys().copied().collect();

    // bind a fresh copy to its source by parallel pre-order walk, apply the documented Ref rule
    fn bind_clone(
        from_real: &WeakDom,
        from: &M,
        to_real: &WeakDom,
        to: &mut M,
        sources: &[Ref],
        copies: &[Ref],
        ever: &mut HashSet<Ref>,
        stats: &mut Stats,
        into_same: bool,
    ) -> Result<(), Fail> {
        let _ = from_real;
        if copies.len() != sources.len() {
            return Err(fail("c11", "copy-count", format!("{} subtrees cloned, {} referents returned", sources.len(), copies.len())));
        }
        let mut map: HashMap<Ref, Ref> = HashMap::new();
        let mut pairs: Vec<(Ref, Ref)> = vec![];
        for (s, c) in sources.iter().zip(copies) {
            let mut stack = vec![(*s, *c)];
            while let Some((a, b)) = stack.pop() {
                let Some(inst) = to_real.get_by_ref(b) else {
                    return Err(fail("c11", "copy-missing", format!("the copy {b} of {a} is not in the destination")));
                };
                if !ever.insert(b) {
                    return Err(fail("c11", "referent-not-fresh", format!("the copy of {a} got referent {b}, which was in use before")));
                }
                let an = &from.nodes[&a];
                if inst.children().len() != an.children.len() {
                    return Err(fail("c11", "shape", format!("the copy of {a} ({}) has {} children, the original {}", an.name, inst.children().len(), an.children.len())));
                }
                map.insert(a, b);
                pairs.push((a, b));
                for (x, y) in an.children.iter().zip(inst.children()).rev() {
                    stack.push((*x, *y));
                }
            }
        }
        let snapshot: HashSet<Ref> = to.nodes.keys().copied().collect();
        let roots: HashSet<Ref> = sources.iter().copied().collect();
        for (a, b) in &pairs {
            let an = from.nodes[a].clone();
            let mut refs = BTreeMap::new();
            for (k, t) in &an.refs {
                let v = if let Some(c) = map.get(t) {
                    stats.inside += 1;
                    *c
                } else if t.is_some() && (snapshot.contains(t) || (into_same && from.nodes.contains_key(t))) {
                    stats.kept += 1;
                    *t
                } else {
                    if t.is_some() {
                        stats.nulled += 1;
                    }
                    Ref::none()
                };
                refs.insert(k.clone(), v);
            }
            to.add(
                *b,
                MN {
                    parent: if roots.contains(a) { Ref::none() } else { map[&an.parent] },
                    children: an.children.iter().map(|c| map[c]).collect(),
                    name: an.name,
                    class: an.class,
                    refs,
                },
            );
        }
        Ok(())
    }

    for op in &case.ops {
        match op {
            ROp::InsertTop { name, kids } => {
                let r = Ref::new();
                let nm = NAMES[*name as usize % 4].to_string();
                let mut b = InstanceBuilder::new("Model").with_referent(r).with_name(nm.clone());
                let mut mn = MN { parent: Ref::none(), children: vec![], name: nm, class: "Model".into(), refs: BTreeMap::new() };
                let mut ks = vec![];
                for k in 0..(*kids % 3) {
                    let c = Ref::new();
                    let cn = NAMES[k as usize % 4].to_string();
                    b = b.with_child(InstanceBuilder::new("Part").with_referent(c).with_name(cn.clone()));
                    mn.children.push(c);
                    ks.push((c, MN { parent: r, children: vec![], name: cn, class: "Part".into(), refs: BTreeMap::new() }));
                }
                let got = dest.insert(Ref::none(), b);
                if got != r {
                    return Err(fail("c10", "insert-referent", format!("insert returned {got} for a builder with referent {r}")));
                }
                ever.insert(r);
                dm.add(r, mn);
                for (c, n) in ks {
                    ever.insert(c);
                    dm.add(c, n);
                }
            }
            ROp::InsertUnder { at, name } => {
                let live = dm.live();
                let Some(i) = pick(*at, live.len()) else { continue };
                let r = Ref::new();
                let nm = NAMES[*name as usize % 4].to_string();
                dest.insert(live[i], InstanceBuilder::new("Folder").with_referent(r).with_name(nm.clone()));
                ever.insert(r);
                dm.nodes.get_mut(&live[i]).unwrap().children.push(r);
                dm.add(r, MN { parent: live[i], children: vec![], name: nm, class: "Folder".into(), refs: BTreeMap::new() });
            }
            ROp::TransferIn { node, under } => {
                let movable: Vec<Ref> = sm.live().into_iter().filter(|r| *r != root_ref).collect();
                let targets = dm.live();
                let (Some(i), Some(j)) = (pick(*node, movable.len()), pick(*under, targets.len())) else { continue };
                src.transfer(movable[i], &mut dest, targets[j]);
                let moved = sm.take_subtree(movable[i]);
                for (k, (r, mut n)) in moved.into_iter().enumerate() {
                    if k == 0 {
                        n.parent = targets[j];
                    }
                    dm.add(r, n);
                }
                dm.nodes.get_mut(&targets[j]).unwrap().children.push(movable[i]);
                stats.transfers += 1;
            }
            ROp::TransferOut { node, under } => {
                let movable = dm.live();
                let targets = sm.live();
                let (Some(i), Some(j)) = (pick(*node, movable.len()), pick(*under, targets.len())) else { continue };
                dest.transfer(movable[i], &mut src, targets[j]);
                let moved = dm.take_subtree(movable[i]);
                for (k, (r, mut n)) in moved.into_iter().enumerate() {
                    if k == 0 {
                        n.parent = targets[j];
                    }
                    sm.add(r, n);
                }
                sm.nodes.get_mut(&targets[j]).unwrap().children.push(movable[i]);
            }
            ROp::SetRef { on_src, node, slot, to_dest, target } => {
                let holders = if *on_src { sm.live() } else { dm.live() };
                let targets = if *to_dest { dm.live() } else { sm.live() };
                let (Some(i), Some(j)) = (pick(*node, holders.len()), pick(*target, targets.len())) else { continue };
                let key = SLOTS[*slot as usize % 3];
                let (real, model) = if *on_src { (&mut src, &mut sm) } else { (&mut dest, &mut dm) };
                real.get_by_ref_mut(holders[i]).unwrap().properties.insert(key.into(), Variant::Ref(targets[j]));
                model.nodes.get_mut(&holders[i]).unwrap().refs.insert(key.to_string(), targets[j]);
            }
            ROp::CloneInto { node } => {
                let live = sm.live();
                let Some(i) = pick(*node, live.len()) else { continue };
                let c = src.clone_into_external(live[i], &mut dest);
                bind_clone(&src, &sm, &dest, &mut dm, &[live[i]], &[c], &mut ever, &mut stats, false)?;
            }
            ROp::CloneMulti { nodes } => {
                let live = sm.live();
                // disjoint subtrees: drop a candidate that is inside, or contains, one already taken
                let mut taken: Vec<Ref> = vec![];
                for n in nodes {
                    let Some(i) = pick(*n, live.len()) else { continue };
                    let cand = live[i];
                    let sub: HashSet<Ref> = sm.subtree(cand).into_iter().collect();
                    if taken.iter().any(|t| sub.contains(t) || sm.subtree(*t).contains(&cand)) {
                        continue;
                    }
                    taken.push(cand);
                }
                if taken.is_empty() {
                    continue;
                }
                let copies = src.clone_multiple_into_external(&taken, &mut dest);
                bind_clone(&src, &sm, &dest, &mut dm, &taken, &copies, &mut ever, &mut stats, false)?;
                if taken.len() >= 2 {
                    stats.multi += 1;
                }
            }
            ROp::CloneWithinDest { node } => {
                let live = dm.live();
                let Some(i) = pick(*node, live.len()) else { continue };
                let c = dest.clone_within(live[i]);
                let before = M { nodes: dm.nodes.clone(), order: dm.order.clone() };
                bind_clone(&dest, &before, &dest, &mut dm, &[live[i]], &[c], &mut ever, &mut stats, true)?;
            }
            ROp::CloneBack { node } => {
                let live = dm.live();
                let Some(i) = pick(*node, live.len()) else { continue };
                let c = dest.clone_into_external(live[i], &mut src);
                bind_clone(&dest, &dm, &src, &mut sm, &[live[i]], &[c], &mut ever, &mut stats, false)?;
            }
            ROp::DestroyInDest { node } => {
                let live = dm.live();
                let Some(i) = pick(*node, live.len()) else { continue };
                dest.destroy(live[i]);
                let gone = dm.take_subtree(live[i]);
                for (r, _) in &gone {
                    if dest.get_by_ref(*r).is_some() {
                        return Err(fail("c10", "destroyed-still-resolvable", format!("instance {r} of a destroyed subtree can still be resolved")));
                    }
                }
            }
        }
        if dest.root_ref().is_some() {
            return Err(fail("c10", "root-appeared", format!("the rootless DOM reports root {} after {op:?}", dest.root_ref())));
        }
        diff(&src, &sm, "rooted").map_err(|mut f| {
            f.msg = format!("{} (after {op:?})", f.msg);
            f
        })?;
        diff(&dest, &dm, "rootless").map_err(|mut f| {
            f.msg = format!("{} (after {op:?})", f.msg);
            f
        })?;
    }
    // exact instance sets
    let (_, raw) = dest.into_raw();
    if raw.len() != dm.nodes.len() {
        return Err(fail("c10", "instance-set", format!("the rootless DOM holds {} instances, the model {}", raw.len(), dm.nodes.len())));
    }
    let (_, raw) = src.into_raw();
    if raw.len() != sm.nodes.len() {
        return Err(fail("c10", "instance-set", format!("the rooted DOM holds {} instances, the model {}", raw.len(), sm.nodes.len())));
    }
    Ok(stats)
}

pub fn strategy(max_ops: usize) -> BoxedStrategy<RootlessCase> {
    let op = prop_oneof![
        3 => (any::<u8>(), any::<u8>()).prop_map(|(name, kids)| ROp::InsertTop { name, kids }),
        1 => (any::<u16>(), any::<u8>()).prop_map(|(at, name)| ROp::InsertUnder { at, name }),
        2 => (any::<u16>(), any::<u16>()).prop_map(|(node, under)| ROp::TransferIn { node, under }),
        1 => (any::<u16>(), any::<u16>()).prop_map(|(node, under)| ROp::TransferOut { node, under }),
        5 => (any::<bool>(), any::<u16>(), 0u8..3, any::<bool>(), any::<u16>()).prop_map(|(on_src, node, slot, to_dest, target)| ROp::SetRef { on_src, node, slot, to_dest, target }),
        3 => any::<u16>().prop_map(|node| ROp::CloneInto { node }),
        2 => proptest::collection::vec(any::<u16>(), 1..4).prop_map(|nodes| ROp::CloneMulti { nodes }),
        2 => any::<u16>().prop_map(|node| ROp::CloneWithinDest { node }),
        1 => any::<u16>().prop_map(|node| ROp::CloneBack { node }),
        1 => any::<u16>().prop_map(|node| ROp::DestroyInDest { node }),
    ];
    (proptest::collection::vec(0u8..3, 1..4), proptest::collection::vec(op, 1..max_ops)).prop_map(|(src_shape, ops)| RootlessCase { src_shape, ops }).boxed()
}

// ---------------------------------------------------------------------------
// Fans of Refs: one clone call whose cloned set points at k distinct outside instances, half of them
// present in the destination; counts around every power of two (a set that changes representation
// at some size must keep what it held).

#[derive(Clone, Debug, Serialize, Deserialize)]
pub struct FanCase {
    pub k: usize,
    /// 0 clone_within, 1 clone_into_external, 2 clone_multiple_into_external (every pointer a root of
    /// its own), 3 clone_into_external into a DOM without a root
    pub mode: u8,
}

pub fn fan_cases(thorough: bool) -> Vec<FanCase> {
    let mut ks: Vec<usize> = vec![0, 1, 2, 3, 5, 1_000];
    for p in 3..=(if thorough { 16 } else { 12 }) {
        for d in [-1i64, 0, 1, 2] {
            ks.push(((1i64 << p) + d) as usize);
        }
    }
    ks.sort();
    ks.dedup();
    let mut out = Vec::new();
    for k in ks {
        for mode in 0..4u8 {
            out.push(FanCase { k, mode });
        }
    }
    out
}

pub fn fan_body(c: &FanCase, ctx: &mut CaseCtx) -> PropResult {
    ctx.nontrivial_if(c.k >= 2);
    ctx.label(["fan:clone_within", "fan:clone_into_external", "fan:clone_multiple_into_external", "fan:into_rootless_destination"][c.mode as usize % 4]);
    let r = crate::engine::catch(|| fan(c)).map_err(|info| fail("c11", "fan:panic", format!("a clone within its documented preconditions panicked: {}", info.msg)))?;
    r
}

fn fan(c: &FanCase) -> Result<(), Fail> {
    let k = c.k;
    let mode = c.mode % 4;
    let mut src = WeakDom::new(InstanceBuilder::new("DataModel"));
    let sroot = src.root_ref();
    let mut dest = if mode == 3 { WeakDom::default() } else { WeakDom::new(InstanceBuilder::new("DataModel")) };
    let dparent = dest.root_ref(); // null for the rootless destination: parentless targets
    let local_targets = src.insert(sroot, InstanceBuilder::new("Folder").with_name("targets"));
    // target i lives in the source DOM when i is even, in the other DOM when odd
    let targets: Vec<Ref> = (0..k)
        .map(|i| {
            let b = InstanceBuilder::new("Part").with_name(format!("Target{i}"));
            if i % 2 == 0 {
                src.insert(local_targets, b)
            } else {
                dest.insert(dparent, b)
            }
        })
        .collect();
    let holder = src.insert(sroot, InstanceBuilder::new("Model").with_name("holder"));
    let pointer_refs: Vec<Ref> = (0..k).map(|_| Ref::new()).collect();
    for i in 0..k {
        let b = InstanceBuilder::new("ObjectValue")
            .with_referent(pointer_refs[i])
            .with_name(format!("Pointer{i}"))
            .with_property("Value", Variant::Ref(targets[i]))
            .with_property("Peer", Variant::Ref(pointer_refs[(i + 1) % k]))
            .with_property("Up", Variant::Ref(holder))
            .with_property("Nothing", Variant::Ref(Ref::none()));
        src.insert(holder, b);
    }
    let copies: Vec<Ref> = match mode {
        0 => {
            let h = src.clone_within(holder);
            src.get_by_ref(h).map(|h| h.children().to_vec()).unwrap_or_default()
        }
        2 => src.clone_multiple_into_external(&pointer_refs, &mut dest),
        _ => {
            let h = src.clone_into_external(holder, &mut dest);
            dest.get_by_ref(h).map(|h| h.children().to_vec()).unwrap_or_default()
        }
    };
    if copies.len() != k {
        return Err(fail("c11", "fan:shape", format!("{k} pointers cloned, {} copies found", copies.len())));
    }
    let within = mode == 0;
    let holder_cloned = mode != 2;
    let home: &WeakDom = if within { &src } else { &dest };
    for i in 0..k {
        let Some(inst) = home.get_by_ref(copies[i]) else {
            return Err(fail("c11", "fan:copy-missing", format!("copy #{i} of {k} is not in the destination")));
        };
        if inst.name != format!("Pointer{i}") {
            return Err(fail("c11", "fan:order", format!("copy #{i} of {k} is named {}", inst.name)));
        }
        let get = |name: &str| match inst.properties.get(&rbx_dom_weak::ustr(name)) {
            Some(Variant::Ref(r)) => Ok(*r),
            other => Err(fail("c11", "fan:property-lost", format!("copy #{i} of {k}: {name} is {other:?}"))),
        };
        // outside the cloned set: kept iff the destination holds the target
        let target_in_dest = if within { i % 2 == 0 } else { i % 2 == 1 };
        let want = if target_in_dest { targets[i] } else { Ref::none() };
        let got = get("Value")?;
        if got != want {
            let what = if target_in_dest { "fan:outside-ref-not-kept" } else { "fan:outside-ref-not-nulled" };
            return Err(fail("c11", what, format!("clone mode {mode}, {k} distinct outside targets: copy #{i} points at {got} instead of {want} (its target is {} the destination)", if target_in_dest { "in" } else { "absent from" })));
        }
        // inside the cloned set: the peer's copy
        let got = get("Peer")?;
        if got != copies[(i + 1) % k] {
            return Err(fail("c11", "fan:inside-ref", format!("clone mode {mode}, {k} pointers: Peer of copy #{i} is {got} instead of the copy of its peer {}", copies[(i + 1) % k])));
        }
        let got = get("Up")?;
        let want = if holder_cloned { inst.parent() } else { Ref::none() };
        // clone_multiple: the holder is outside the set and lives in the source only
        if got != want {
            return Err(fail("c11", "fan:ref-to-holder", format!("clone mode {mode}, {k} pointers: Up of copy #{i} is {got} instead of {want}")));
        }
        if get("Nothing")?.is_some() {
            return Err(fail("c11", "fan:null-ref", format!("a null Ref of copy #{i} became {}", get("Nothing")?)));
        }
    }
    // the source is untouched
    for i in 0..k {
        match src.get_by_ref(pointer_refs[i]).and_then(|p| p.properties.get(&rbx_dom_weak::ustr("Value"))) {
            Some(Variant::Ref(r)) if *r == targets[i] => {}
            other => return Err(fail("c11", "fan:source-changed", format!("pointer #{i} of the source now has Value {other:?}"))),
        }
    }
    Ok(())
}
