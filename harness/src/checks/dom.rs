//! C09 / C10 / C11 / C12 — WeakDom histories: one engine (model.rs), four oracles.

use std::collections::HashSet;

use crate::engine::{CaseCtx, Ctx, Fail, PropResult, PropertyReport, SubReport};
use crate::model::{self, BNode, History, Op, RefSel};

/// Run a history, keeping only failures that belong to `property` (a failure
/// of another oracle class is reported by the property that owns it).
fn body_for(property: &'static str) -> impl Fn(&History, &mut CaseCtx) -> PropResult + Sync {
    move |h: &History, ctx: &mut CaseCtx| match model::run_history(h, ctx) {
        Ok(()) => Ok(()),
        Err(f) => {
            let owner = model::owner_of(&f.key);
            if owner == property || owner == "*" || model::also_owned_by(&f.key, property) {
                Err(f)
            } else {
                ctx.label("ended_early_by_other_oracle");
                Ok(())
            }
        }
    }
}

fn sel_for(k: usize, len: usize) -> u16 {
    // smallest selector s with (s*len)>>16 == k
    (((k as u64) << 16).div_ceil(len as u64)) as u16
}

fn small_trees(max_nodes: usize) -> Vec<BNode> {
    // all ordered rooted trees with <= max_nodes nodes; uid pattern: root none, others uid 0
    fn forests(n: usize) -> Vec<Vec<BNode>> {
        // ordered forests with exactly n nodes
        if n == 0 {
            return vec![vec![]];
        }
        let mut out = Vec::new();
        for first in 1..=n {
            for t in trees(first) {
                for rest in forests(n - first) {
                    let mut f = vec![t.clone()];
                    f.extend(rest);
                    out.push(f);
                }
            }
        }
        out
    }
    fn trees(n: usize) -> Vec<BNode> {
        forests(n - 1)
            .into_iter()
            .map(|children| BNode {
                class: 0,
                name: (n % 5) as u8,
                uid: Some(0),
                refs: vec![],
                children,
                extras: if n % 2 == 0 { 1 } else { 0 },
            })
            .collect()
    }
    let mut out = Vec::new();
    for n in 1..=max_nodes {
        out.extend(trees(n));
    }
    out
}

/// Candidate builder trees for exhaustive inserts.
fn insert_trees() -> Vec<BNode> {
    let leaf = |uid: Option<u8>, refs: Vec<(u8, RefSel)>| BNode {
        class: 1,
        name: 4,
        uid,
        refs,
        children: vec![],
        extras: 0,
    };
    vec![
        leaf(None, vec![]),
        leaf(Some(0), vec![(0, RefSel::Live(0, 0))]),
        BNode {
            class: 2,
            name: 3,
            uid: Some(1),
            refs: vec![(0, RefSel::InTree(40000))],
            children: vec![leaf(Some(1), vec![(1, RefSel::InTree(0))]), leaf(None, vec![(0, RefSel::Live(1, 65535))])],
            extras: 1,
        },
    ]
}

/// All operations applicable to the current state, with every valid argument.
fn all_ops(w: &model::World) -> Vec<Op> {
    let nd = w.model.len();
    let mut ops = Vec::new();
    let live: Vec<usize> = (0..nd).map(|d| w.model[d].nodes.len()).collect();
    for d in 0..nd {
        let n = live[d];
        for t in insert_trees() {
            ops.push(Op::Insert { dom: d as u8, parent: None, tree: t.clone() });
            for k in 0..n {
                ops.push(Op::Insert { dom: d as u8, parent: Some(sel_for(k, n)), tree: t.clone() });
            }
        }
        // non-root nodes: n - 1
        for k in 0..n.saturating_sub(1) {
            ops.push(Op::Destroy { dom: d as u8, node: sel_for(k, n - 1) });
            // destinations depend on the node; enumerate a superset of selectors: the
            // interpreter maps monotonically onto the valid ones
            for j in 0..n {
                ops.push(Op::TransferWithin { dom: d as u8, node: sel_for(k, n - 1), dest: sel_for(j, n) });
            }
            for t in 0..nd {
                if t != d {
                    for j in 0..live[t] {
                        ops.push(Op::Transfer { src: d as u8, node: sel_for(k, n - 1), dst: t as u8, dest: sel_for(j, live[t]) });
                    }
                }
            }
        }
        for k in 0..n {
            ops.push(Op::CloneWithin { dom: d as u8, node: sel_for(k, n) });
            ops.push(Op::PartialWalk { dom: d as u8, node: sel_for(k, n), steps: 2 });
            for t in 0..nd {
                if t != d {
                    ops.push(Op::CloneIntoExternal { src: d as u8, node: sel_for(k, n), dst: t as u8 });
                    ops.push(Op::CloneMulti { src: d as u8, nodes: vec![sel_for(k, n), sel_for(k, n)], dst: t as u8, overlap: true });
                    for k2 in (k + 1)..n {
                        ops.push(Op::CloneMulti { src: d as u8, nodes: vec![sel_for(k, n), sel_for(k2, n)], dst: t as u8, overlap: false });
                        ops.push(Op::CloneMulti { src: d as u8, nodes: vec![sel_for(k, n), sel_for(k2, n)], dst: t as u8, overlap: true });
                    }
                }
            }
        }
    }
    ops
}

/// Every history of length <= `len` over every start configuration.
pub fn enumerate_histories(len: usize, max_start_nodes: usize) -> Vec<History> {
    let mut out = Vec::new();
    let starts = small_trees(max_start_nodes);
    let second = BNode { class: 0, name: 0, uid: Some(0), refs: vec![], children: vec![BNode { class: 3, name: 1, uid: None, refs: vec![], children: vec![], extras: 1 }], extras: 0 };
    for s in &starts {
        let doms = vec![s.clone(), second.clone()];
        let mut frontier: Vec<Vec<Op>> = vec![vec![]];
        out.push(History { doms: doms.clone(), ops: vec![] });
        for _ in 0..len {
            let mut next = Vec::new();
            for prefix in &frontier {
                let h = History { doms: doms.clone(), ops: prefix.clone() };
                let mut w = model::World::new(&h);
                let mut ok = true;
                for op in prefix {
                    // a panic of the code under test while a prefix is replayed: the prefix itself is in
                    // the list and is judged (and reported) when the list is run; it is not extended
                    let applied = crate::engine::catch(|| w.apply(op, &mut CaseCtx::default()).is_err());
                    if !matches!(applied, Ok(false)) {
                        ok = false;
                        break;
                    }
                }
                if !ok {
                    continue;
                }
                for op in all_ops(&w) {
                    let mut ops = prefix.clone();
                    ops.push(op);
                    next.push(ops);
                }
            }
            for ops in &next {
                out.push(History { doms: doms.clone(), ops: ops.clone() });
            }
            frontier = next;
        }
    }
    out
}

/// Start trees far larger than any buffer or batch size an implementation could use internally.
fn big_tree(shape: u8, n: usize) -> BNode {
    let node = |i: usize, children: Vec<BNode>| BNode {
        class: (i % 4) as u8,
        name: (i % 5) as u8,
        uid: if i % 97 == 3 { Some((i % 4) as u8) } else { None },
        refs: if i % 41 == 7 { vec![((i % 3) as u8, RefSel::InTree((i * 13 % 65536) as u16))] } else { vec![] },
        children,
        extras: if i % 29 == 5 { (i % 64) as u8 } else { 0 },
    };
    match shape {
        // star
        0 => node(0, (1..n).map(|i| node(i, vec![])).collect()),
        // chain
        1 => {
            let mut cur = node(n - 1, vec![]);
            for i in (0..n - 1).rev() {
                cur = node(i, vec![cur]);
            }
            cur
        }
        // comb: a spine of 40, the rest spread as leaves
        2 => {
            let spine = 40.min(n - 1);
            let per = (n - 1 - spine) / spine.max(1);
            let mut i = 1;
            let mut kids = Vec::new();
            for s in 0..spine {
                let extra = if s + 1 == spine { n - 1 - spine - per * (spine - 1) } else { per };
                let leaves: Vec<BNode> = (0..extra).map(|k| node(i + 1 + k, vec![])).collect();
                kids.push(node(i, leaves));
                i += 1 + extra;
            }
            node(0, kids)
        }
        // bushy: parent(i) chosen by a fixed hash among earlier nodes
        _ => {
            let mut children: Vec<Vec<usize>> = vec![vec![]; n];
            for i in 1..n {
                let p = ((i as u64).wrapping_mul(0x9E37_79B9_7F4A_7C15) >> 20) as usize % i;
                // keep depth moderate: attach near the front
                children[p % (1 + i / 8)].push(i);
            }
            fn rec(i: usize, children: &Vec<Vec<usize>>, node: &dyn Fn(usize, Vec<BNode>) -> BNode) -> BNode {
                let kids = children[i].iter().map(|c| rec(*c, children, node)).collect();
                node(i, kids)
            }
            rec(0, &children, &node)
        }
    }
}

pub fn large_histories(thorough: bool) -> Vec<History> {
    let mut sizes: Vec<usize> = vec![1023, 1024, 1025, 1026, 1027, 2049, 2050, 4097, 4098];
    if thorough {
        sizes.extend([8193, 16385, 32769, 65537, 70_001]);
    } else {
        sizes.push(12_001);
    }
    let second = BNode { class: 0, name: 0, uid: Some(0), refs: vec![], children: vec![BNode { class: 3, name: 1, uid: None, refs: vec![], children: vec![], extras: 1 }], extras: 0 };
    let mut out = Vec::new();
    for n in sizes {
        for shape in 0..4u8 {
            if shape == 1 && n > 2100 {
                continue; // the harness builds builders recursively; deep chains are C01/C02 "deep"
            }
            let ops = vec![
                Op::CloneWithin { dom: 0, node: 0 },
                Op::CloneWithin { dom: 0, node: 40_000 },
                Op::TransferWithin { dom: 0, node: 20_000, dest: 50_000 },
                Op::Transfer { src: 0, node: 10_000, dst: 1, dest: 0 },
                Op::CloneIntoExternal { src: 0, node: 30_000, dst: 1 },
                Op::CloneMulti { src: 0, nodes: vec![5_000, 60_000], dst: 1, overlap: false },
                Op::PartialWalk { dom: 0, node: 9_000, steps: 5 },
                Op::Transfer { src: 1, node: 30_000, dst: 0, dest: 65_535 },
                Op::Destroy { dom: 0, node: 100 },
                Op::Insert { dom: 0, parent: Some(33_000), tree: big_tree(0, 1500) },
                Op::RawRoundTrip { dom: 0 },
                Op::Destroy { dom: 0, node: 45_000 },
                Op::CloneIntoExternal { src: 0, node: 0, dst: 1 },
            ];
            out.push(History { doms: vec![big_tree(shape, n), second.clone()], ops });
        }
    }
    out
}

// ---------------------------------------------------------------------------
// very deep trees, in a child process (a stack overflow cannot be caught in-process)

#[derive(Clone, Debug, Serialize, Deserialize)]
pub struct DeepCase {
    pub depth: usize,
    /// clone_within | clone_into_external | clone_multiple | transfer | transfer_within | destroy | descendants | raw
    pub op: String,
}

fn deep_owner(op: &str) -> &'static str {
    match op {
        "clone_within" | "clone_into_external" | "clone_multiple" => "c11",
        "transfer" | "transfer_within" => "c10",
        _ => "c09",
    }
}

/// Child side: a chain of `depth` instances (each with a Ref to its parent), one operation, an
/// iterative check of the outcome. Prints `OK` or `FAIL <key> <message>`.
pub fn deepdom_main(args: &[String]) -> ! {
    use rbx_dom_weak::{InstanceBuilder, WeakDom};
    use rbx_types::{Ref, Variant};
    let depth: usize = args.first().and_then(|s| s.parse().ok()).unwrap_or(1000);
    let op = args.get(1).cloned().unwrap_or_default();
    let owner = deep_owner(&op);
    let verdict = (|| -> Result<(), String> {
        let mut dom = WeakDom::new(InstanceBuilder::new("DataModel"));
        let mut chain: Vec<Ref> = Vec::with_capacity(depth);
        let mut parent = dom.root_ref();
        for i in 0..depth {
            let r = dom.insert(parent, InstanceBuilder::new("Folder").with_name(format!("n{i}")).with_property("Up", Variant::Ref(parent)));
            chain.push(r);
            parent = r;
        }
        let top = chain[0];
        // walk a chain downwards from `start` in `d`: names n0.., each node's Up = its parent in the copy
        let walk = |d: &WeakDom, start: Ref, expect_up_of_first: Option<Ref>| -> Result<usize, String> {
            let mut cur = start;
            let mut prev: Option<Ref> = None;
            let mut n = 0usize;
            loop {
                let inst = d.get_by_ref(cur).ok_or_else(|| format!("instance #{n} of the chain cannot be looked up"))?;
                if inst.name != format!("n{n}") {
                    return Err(format!("instance #{n} of the chain is named {}", inst.name));
                }
                let up = match inst.properties.get(&rbx_dom_weak::ustr("Up")) {
                    Some(Variant::Ref(r)) => *r,
                    other => return Err(format!("instance #{n}: Up is {other:?}")),
                };
                match (prev, expect_up_of_first) {
                    (Some(p), _) if up != p => return Err(format!("instance #{n}: Up does not point at its parent in the same chain")),
                    (None, Some(e)) if up != e => return Err(format!("the first instance's Up is {up}, expected {e}")),
                    _ => {}
                }
                n += 1;
                match inst.children() {
                    [] => return Ok(n),
                    [c] => {
                        prev = Some(cur);
                        cur = *c;
                    }
                    more => return Err(format!("instance #{} has {} children", n - 1, more.len())),
                }
            }
        };
        match op.as_str() {
            "clone_within" => {
                let c = dom.clone_within(top);
                let n = walk(&dom, c, Some(dom.root_ref()))?;
                if n != depth {
                    return Err(format!("clone has {n} of {depth} instances"));
                }
                if walk(&dom, top, Some(dom.root_ref()))? != depth {
                    return Err("source changed".into());
                }
            }
            "clone_into_external" => {
                let mut other = WeakDom::new(InstanceBuilder::new("DataModel"));
                let c = dom.clone_into_external(top, &mut other);
                // the root of the source is not in the destination: the first Up becomes null
                let n = walk(&other, c, Some(Ref::none()))?;
                if n != depth {
                    return Err(format!("clone has {n} of {depth} instances"));
                }
            }
            "clone_multiple" => {
                let mut other = WeakDom::new(InstanceBuilder::new("DataModel"));
                let mid = chain[depth / 2];
                // two disjoint subtrees are needed: detach the lower half first
                dom.transfer_within(mid, dom.root_ref());
                let out = dom.clone_multiple_into_external(&[top, mid], &mut other);
                if out.len() != 2 {
                    return Err(format!("{} roots returned", out.len()));
                }
                let total: usize = out.iter().map(|r| other.descendants_of(*r).count()).sum();
                if total != depth {
                    return Err(format!("clones have {total} of {depth} instances"));
                }
            }
            "transfer" => {
                let mut other = WeakDom::new(InstanceBuilder::new("DataModel"));
                let dest = other.root_ref();
                dom.transfer(top, &mut other, dest);
                if walk(&other, top, Some(dom.root_ref()))? != depth {
                    return Err("transferred chain is incomplete".into());
                }
                if dom.descendants().count() != 1 || chain.iter().step_by(997).any(|r| dom.get_by_ref(*r).is_some()) {
                    return Err("source still holds transferred instances".into());
                }
            }
            "transfer_within" => {
                let mid = chain[depth / 2];
                dom.transfer_within(mid, dom.root_ref());
                let n = dom.descendants().count();
                if n != depth + 1 {
                    return Err(format!("{n} instances reachable, expected {}", depth + 1));
                }
            }
            "destroy" => {
                dom.destroy(chain[1.min(depth - 1)]);
                if chain.iter().skip(1).step_by(991).any(|r| dom.get_by_ref(*r).is_some()) || dom.get_by_ref(chain[depth - 1]).is_some() {
                    return Err("a descendant of the destroyed instance can still be looked up".into());
                }
            }
            "descendants" => {
                let n = dom.descendants().count();
                let m = dom.descendants_of(chain[depth / 2]).count();
                if n != depth + 1 || m != depth - depth / 2 {
                    return Err(format!("descendants() yields {n} of {}, descendants_of(middle) {m} of {}", depth + 1, depth - depth / 2));
                }
            }
            _ => {
                let (root, map) = dom.into_raw();
                let dom2 = WeakDom::from_raw(root, map);
                if walk(&dom2, top, Some(root))? != depth {
                    return Err("chain changed through into_raw / from_raw".into());
                }
                drop(dom2);
            }
        }
        Ok(())
    })();
    match verdict {
        Ok(()) => println!("OK"),
        Err(e) => println!("FAIL {owner}:deep:{op} {e}"),
    }
    std::process::exit(0);
}

fn deep_body(c: &DeepCase, ctx: &mut CaseCtx) -> PropResult {
    ctx.nontrivial();
    let out = std::process::Command::new(crate::engine::own_exe())
        .args(["deepdom", &c.depth.to_string(), &c.op])
        .stderr(std::process::Stdio::piped())
        .output()
        .map_err(|e| Fail::new("harness:deepdom", e.to_string()))?;
    let text = String::from_utf8_lossy(&out.stdout).to_string();
    let owner = deep_owner(&c.op);
    if let Some(rest) = text.trim().strip_prefix("FAIL ") {
        let (key, msg) = rest.split_once(' ').unwrap_or((rest, ""));
        return Err(Fail::new(key, format!("chain of {} instances, {}: {msg}", c.depth, c.op)));
    }
    if text.trim() == "OK" && out.status.success() {
        return Ok(());
    }
    let err = String::from_utf8_lossy(&out.stderr);
    let class = if err.contains("overflowed its stack") { "stack-overflow" } else if err.contains("panicked") { "panic" } else { "died" };
    Err(Fail::new(
        format!("{owner}:deep:{class}:{}", c.op),
        format!("{} on a chain of {} instances ended the process ({:?}): {}", c.op, c.depth, out.status, err.lines().rev().take(3).collect::<Vec<_>>().join(" | ")),
    ))
}

fn common(ctx: &Ctx, property: &'static str, rule: &str, floors: &[(&str, u64)], with_loads: u8) -> PropertyReport {
    let mut rep = PropertyReport::new(property, "exploration", rule);
    rep.assume("operations are called within their documented preconditions: never on the root, parents/destinations exist, transfer_within never moves a node under its own descendant, builders use fresh referents, clone_multiple takes disjoint subtrees");
    rep.assume("reference model executes the documented meaning (docs comments of rbx_dom_weak::WeakDom) and learns fresh referents / regenerated ids from the real DOM by structural correspondence");
    let sub = crate::engine::replay_subcheck_or_all(ctx);
    if sub.runs("histories") {
        let cases = ctx.cfg.cases(50_000, 300_000);
        let max_ops = ctx.cfg.tier.pick(25, 60);
        let mut r = ctx.run_prop(
            "histories",
            cases,
            move || model::history(max_ops, with_loads),
            body_for(property),
        );
        for (l, div) in floors {
            r.floor(l, cases / div);
        }
        rep.push(r);
    }
    if sub.runs("exhaustive") {
        let len = ctx.cfg.tier.pick(2, 3);
        let nodes = ctx.cfg.tier.pick(4, 3);
        let cases = if ctx.cfg.replay.is_some() { vec![] } else { enumerate_histories(len, nodes) };
        let mut r: SubReport = ctx.run_list("exhaustive", cases, true, body_for(property));
        r.notes.push(format!(
            "all histories of length <= {len} over every ordered start tree with <= {nodes} nodes (plus a second 2-node DOM), every applicable operation with every valid argument and 3 builder shapes"
        ));
        rep.push(r);
    }
    if sub.runs("deep") {
        let depth = ctx.cfg.tier.pick(100_000usize, 400_000);
        let cases: Vec<DeepCase> = ["clone_within", "clone_into_external", "clone_multiple", "transfer", "transfer_within", "destroy", "descendants", "raw"]
            .iter()
            .filter(|op| deep_owner(op) == property.to_lowercase())
            .map(|op| DeepCase { depth, op: op.to_string() })
            .collect();
        if !cases.is_empty() {
            let mut r: SubReport = ctx.run_list("deep", cases, true, deep_body);
            r.notes.push(format!("each operation on a chain of {depth} nested instances, in a child process (the crate builds and walks such trees iteratively; a recursive implementation overflows the stack)"));
            rep.push(r);
        }
    }
    if sub.runs("rootless") && (property == "C10" || property == "C11") {
        let cases = ctx.cfg.cases(30_000, 600_000);
        let max_ops = ctx.cfg.tier.pick(14, 30);
        let prefix = if property == "C10" { "c10:" } else { "c11:" };
        let mut r = ctx.run_prop("rootless", cases, move || super::rootless::strategy(max_ops), move |c: &super::rootless::RootlessCase, ctx: &mut CaseCtx| match super::rootless::body(c, ctx) {
            Err(f) if !f.key.starts_with(prefix) => {
                ctx.label("ended_early_by_other_oracle");
                Ok(())
            }
            other => other,
        });
        r.notes.push("histories over a rooted DOM and a DOM without a root (WeakDom::default()): parentless inserts, transfers in and out, Ref properties set across both, clone_into_external / clone_multiple_into_external into the rootless DOM, clone_within on it, clones back, destroy; own reference model".into());
        for l in ["outside_ref_kept_in_rootless_destination", "outside_ref_nulled", "inside_ref_rewritten", "transfer_into_rootless", "clone_multiple_into_rootless"] {
            r.floor(l, cases / 50);
        }
        rep.push(r);
    }
    if sub.runs("ref-fans") && property == "C11" {
        let cases = if ctx.cfg.replay.is_some() { vec![] } else { super::rootless::fan_cases(ctx.cfg.tier == crate::engine::Tier::Thorough) };
        let mut r: SubReport = ctx.run_list("ref-fans", cases, true, super::rootless::fan_body);
        r.notes.push("one clone call (clone_within / clone_into_external / clone_multiple_into_external / into a rootless DOM) over k pointers with k distinct outside targets, half of them in the destination, k around every power of two up to 4 097 (thorough 65 537); every Ref of every copy is checked against the three-way rule".into());
        rep.push(r);
    }
    if sub.runs("large") {
        let cases = if ctx.cfg.replay.is_some() { vec![] } else { large_histories(ctx.cfg.tier == crate::engine::Tier::Thorough) };
        let mut r: SubReport = ctx.run_list("large", cases, true, body_for(property));
        r.notes.push("start trees of 1023..12001 (thorough: ..70001) instances shaped as star / chain / comb / bushy, then a fixed 12-step history touching every operation".into());
        rep.push(r);
    }
    rep
}

pub fn run_c09(ctx: &Ctx) -> PropertyReport {
    common(
        ctx,
        "C09",
        "random histories (<= 25 / 60 ops) of insert / destroy / transfer_within / transfer / clone_within / clone_into_external / \
         clone_multiple_into_external / into_raw+from_raw over 1-3 DOMs, arguments drawn from the live node lists; after every step the \
         forest invariants are checked on every DOM through the public API (parent/children agreement both ways, listed exactly once, \
         acyclic, root parentless, removed subtrees unresolvable, descendants()/descendants_of() = reachable set once each, parents first). \
         Plus bounded-exhaustive enumeration of all short histories. Non-trivial = a move with >= 2 siblings on both sides, a Ref-rewriting \
         clone, or a UniqueId collision.",
        &[("move_with_siblings_on_both_sides", 50), ("destroy_subtree", 50), ("transfer_subtree", 100)],
        0,
    )
}

pub fn run_c10(ctx: &Ctx) -> PropertyReport {
    common(
        ctx,
        "C10",
        "same histories as C09; after every step every DOM is diffed against a reference model (plain ordered trees keyed by referent) that \
         executes the documented meaning of the step: referent, parent, child order, name, class and properties of every instance, and the \
         exact instance set (into_raw). Non-trivial as in C09.",
        &[("move_with_siblings_on_both_sides", 50), ("insert_subtree", 50), ("move_to_same_parent", 200)],
        0,
    )
}

pub fn run_c11(ctx: &Ctx) -> PropertyReport {
    common(
        ctx,
        "C11",
        "same histories as C09 with Ref properties placed on self / nodes of the inserted tree / live nodes of any DOM / absent / null; every clone \
         is bound to its source by parallel walk and checked: fresh referents, parentless roots, same shape / order / names / classes, Refs rewritten \
         by the three-way rule (inside -> copy, outside and present in the destination -> kept, otherwise null), source unchanged. \
         Non-trivial = a clone whose subtree has a Ref inside the cloned set and a Ref outside it.",
        &[("clone_ref_inside", 50), ("clone_ref_outside_kept", 50), ("clone_ref_outside_nulled", 50), ("clone_multiple_subtrees", 100)],
        0,
    )
}

// ---------------------------------------------------------------------------
// C12 extras

use serde::{Deserialize, Serialize};

#[derive(Clone, Debug, Serialize, Deserialize)]
pub struct DupFile {
    /// parent index (None = top level) and id pool index (None = no UniqueId) per instance
    pub nodes: Vec<(Option<usize>, Option<u8>)>,
    pub xml: bool,
}

fn dupfile_strategy() -> proptest::strategy::BoxedStrategy<DupFile> {
    use proptest::prelude::*;
    (
        proptest::collection::vec((any::<u16>(), proptest::option::weighted(0.8, 0u8..3)), 1..9),
        any::<bool>(),
    )
        .prop_map(|(raw, xml)| {
            let mut nodes = Vec::new();
            for (i, (psel, uid)) in raw.into_iter().enumerate() {
                let k = (psel as usize * (i + 1)) >> 16;
                nodes.push((if k == 0 { None } else { Some(k - 1) }, uid));
            }
            DupFile { nodes, xml }
        })
        .boxed()
}

fn hex_uid(u: &rbx_types::UniqueId) -> String {
    // docs/xml.md: bytes 0-7 Random, 8-11 Time, 12-15 Index, hexadecimal
    format!("{:016x}{:08x}{:08x}", u.random() as u64, u.time(), u.index())
}

fn dupfile_body(case: &DupFile, ctx: &mut CaseCtx) -> PropResult {
    use crate::gen::forest::{GForest, GNode};
    use crate::gen::vals::GVal;
    let n = case.nodes.len();
    let ids: Vec<Option<rbx_types::UniqueId>> = case.nodes.iter().map(|(_, u)| u.map(model::uid_pool)).collect();
    let dup = {
        let mut seen = HashSet::new();
        ids.iter().flatten().any(|u| !seen.insert(*u))
    };
    ctx.label_if(dup, "file_with_duplicate_ids");
    ctx.label(if case.xml { "xml_file" } else { "binary_file" });
    ctx.nontrivial_if(dup);
    let dom = if case.xml {
        // a spec-conformant document (docs/xml.md) written without rbx_xml
        let mut kids: Vec<Vec<usize>> = vec![vec![]; n];
        let mut top = vec![];
        for (i, (p, _)) in case.nodes.iter().enumerate() {
            match p {
                Some(p) => kids[*p].push(i),
                None => top.push(i),
            }
        }
        fn item(i: usize, kids: &Vec<Vec<usize>>, ids: &Vec<Option<rbx_types::UniqueId>>, out: &mut String) {
            out.push_str(&format!("<Item class=\"Folder\" referent=\"RBX{i:032X}\"><Properties><string name=\"Name\">n{i}</string>"));
            if let Some(u) = &ids[i] {
                out.push_str(&format!("<UniqueId name=\"UniqueId\">{}</UniqueId>", hex_uid(u)));
            }
            out.push_str("</Properties>");
            for c in &kids[i] {
                item(*c, kids, ids, out);
            }
            out.push_str("</Item>");
        }
        let mut doc = String::from("<roblox version=\"4\">");
        for t in &top {
            item(*t, &kids, &ids, &mut doc);
        }
        doc.push_str("</roblox>");
        match crate::engine::no_panic("rbx_xml reader", || rbx_xml::from_str_default(&doc))? {
            Ok(d) => d,
            Err(e) => return Err(Fail::new("c12:file-rejected", format!("XML reader rejected the document: {e}"))),
        }
    } else {
        let forest = GForest {
            nodes: case
                .nodes
                .iter()
                .enumerate()
                .map(|(i, (p, _))| GNode {
                    parent: *p,
                    class: "Folder".into(),
                    name: format!("n{i}"),
                    props: match &ids[i] {
                        Some(u) => vec![("UniqueId".into(), GVal::UniqueId(u.index(), u.time(), u.random()))],
                        // the binary format stores whole columns: give the rest distinct ids
                        None => vec![("UniqueId".into(), GVal::UniqueId(5000 + i as u32, 1, 1))],
                    },
                })
                .collect(),
            roots: vec![],
        };
        let built = crate::spec::binbuild::encode(
            &crate::spec::binbuild::complete_columns(&forest),
            &crate::spec::binbuild::Plan::plain(),
            crate::spec::refbin::Dialect::implementation(),
        )
        .map_err(|e| Fail::new("harness-encode", e))?;
        match crate::engine::no_panic("rbx_binary reader", || rbx_binary::from_reader(built.bytes.as_slice()))? {
            Ok(d) => d,
            Err(e) => return Err(Fail::new("c12:file-rejected", format!("binary reader rejected the file: {e}"))),
        }
    };
    // observe: ids per instance in document order
    let mut got: Vec<Option<rbx_types::UniqueId>> = Vec::new();
    for inst in dom.descendants().skip(1) {
        got.push(dom.get_unique_id(inst.referent()));
    }
    if got.len() != n {
        return Err(Fail::new("harness:load-shape", format!("{} instances decoded, {} written", got.len(), n)));
    }
    let held: Vec<rbx_types::UniqueId> = got.iter().flatten().copied().collect();
    let distinct: HashSet<model::Uk> = held.iter().copied().map(model::Uk).collect();
    let key = |k: &str| if case.xml { "c12:xml-reader-bypasses-id-set".to_string() } else { k.to_string() };
    if distinct.len() != held.len() {
        return Err(Fail::new(
            key("c12:duplicate-in-loaded-dom"),
            format!("a DOM decoded from a file holds the same UniqueId twice: {:?}", held.iter().map(|u| u.to_string()).collect::<Vec<_>>()),
        ));
    }
    // every id of the file that is not nil is kept by exactly one instance
    for want in ids.iter().flatten().map(|u| model::Uk(*u)).collect::<HashSet<_>>() {
        let kept = held.iter().filter(|h| model::Uk(**h) == want).count();
        let want = &want.0;
        if kept != 1 {
            return Err(Fail::new(
                key("c12:file-id-not-kept-once"),
                format!("id {want} of the file is held by {kept} decoded instances"),
            ));
        }
    }
    Ok(())
}

fn now_concurrent(ctx: &Ctx) -> SubReport {
    let mut r = SubReport::new("now-concurrent");
    let start = std::time::Instant::now();
    if ctx.cfg.replay.is_some() {
        return r;
    }
    let per = ctx.cfg.tier.pick(100_000usize, 400_000);
    let threads = 16usize;
    let barrier = std::sync::Barrier::new(threads);
    let results: Vec<Vec<rbx_types::UniqueId>> = std::thread::scope(|s| {
        let hs: Vec<_> = (0..threads)
            .map(|_| {
                let barrier = &barrier;
                s.spawn(move || {
                    barrier.wait();
                    (0..per).map(|_| rbx_types::UniqueId::now().unwrap()).collect::<Vec<_>>()
                })
            })
            .collect();
        hs.into_iter().map(|h| h.join().unwrap()).collect()
    });
    let mut seen: HashSet<model::Uk> = HashSet::with_capacity(per * threads);
    let mut dup = None;
    for v in &results {
        for u in v {
            if !seen.insert(model::Uk(*u)) {
                dup = Some(*u);
            }
        }
    }
    r.evaluations = (per * threads) as u64;
    r.distinct_nontrivial = seen.len() as u64;
    r.samples.push(serde_json::json!({"threads": threads, "calls_per_thread": per, "first": results[0][0].to_string(), "last": results[threads - 1][per - 1].to_string()}));
    r.notes.push("stress sample (the generator is one atomic fetch_add; there is no finer interleaving to control)".into());
    if let Some(u) = dup {
        let replay = crate::engine::write_replay("C12", "now-concurrent", &serde_json::json!({"threads": threads, "per": per}), "c12:now-repeated", &format!("UniqueId::now() returned {u} twice"));
        r.failures.push(crate::engine::Failure { key: "c12:now-repeated".into(), msg: format!("UniqueId::now() returned {u} twice"), replay: Some(replay) });
    }
    r.wall_s = start.elapsed().as_secs_f64();
    r
}

pub fn run_c12(ctx: &Ctx) -> PropertyReport {
    let mut rep = common(
        ctx,
        "C12",
        "same histories as C09 over instances carrying UniqueIds from a pool of 4 values (collisions are frequent) plus load-from-binary steps; after every \
         step: ids pairwise distinct per DOM; an incoming instance keeps its id unless it had to change (a group of incomers sharing X: all change if the \
         destination already held X, otherwise exactly one keeps it); changed ids are fresh; untouched instances keep theirs; ids freed by destroy/transfer \
         are reusable. Extra sub-checks: DOMs decoded from files that contain duplicate ids (binary via the reference encoder, XML via a hand-written \
         spec-conformant document), histories with XML loads, and a 16-thread stress of UniqueId::now(). Non-trivial = a collision.",
        &[("uid_collision_on_insert", 20), ("uid_collision_on_transfer", 100), ("uid_collision_on_clone", 20), ("load_binary", 50)],
        1,
    );
    let sub = crate::engine::replay_subcheck_or_all(ctx);
    if sub.runs("histories-xml-loads") {
        let cases = ctx.cfg.cases(6_000, 200_000);
        rep.push(ctx.run_prop("histories-xml-loads", cases, || model::history(20, 2), body_for("C12")));
    }
    if sub.runs("file-duplicates") {
        let cases = ctx.cfg.cases(10_000, 300_000);
        let mut r = ctx.run_prop("file-duplicates", cases, dupfile_strategy, dupfile_body);
        r.floor("file_with_duplicate_ids", cases / 10);
        rep.push(r);
    }
    if sub.runs("now-concurrent") {
        rep.push(now_concurrent(ctx));
    }
    rep
}
