//! C14 — attribute blobs round-trip and follow the documented layout.

use proptest::prelude::*;
use rbx_types::{Attributes, Ref, Variant};
use serde::{Deserialize, Serialize};

use crate::engine::{no_panic, CaseCtx, Ctx, Fail, PropResult, PropertyReport};
use crate::gen::forest::{self, BuildMode, GForest, GNode};
use crate::gen::vals::{self, GCf, GRef, GVal, TextMode, ValProfile};
use crate::oracle::{self, Norm};
use crate::spec::{refattr, refbin};
use crate::{ensure, fail};

#[derive(Clone, Debug, Serialize, Deserialize)]
pub struct AttrCase {
    pub entries: Vec<(String, GVal)>,
    /// permutation keys for the foreign-encoder direction
    pub shuffle: Vec<u32>,
}

pub fn attr_case(max: usize) -> BoxedStrategy<AttrCase> {
    (
        proptest::collection::vec(
            (
                vals::text(TextMode::Any),
                vals::attribute_value(ValProfile::binary(), true),
            ),
            0..=max,
        ),
        proptest::collection::vec(any::<u32>(), 0..14),
    )
        .prop_map(|(mut v, shuffle)| {
            v.sort_by(|a, b| a.0.cmp(&b.0));
            v.dedup_by(|a, b| a.0 == b.0);
            AttrCase { entries: v, shuffle }
        })
        .boxed()
}

fn build_attrs(entries: &[(String, GVal)]) -> Attributes {
    let mut a = Attributes::new();
    for (k, v) in entries {
        a.insert(k.clone(), v.to_variant(&|_| Ref::none(), Ref::none()));
    }
    a
}

pub fn observe_attrs(a: &Attributes) -> Vec<(String, GVal)> {
    a.iter()
        .map(|(k, v)| (k.clone(), GVal::from_variant(v, &|_| GRef::Dangling)))
        .collect()
}

pub fn crate_encode(entries: &[(String, GVal)]) -> Result<Vec<u8>, Fail> {
    let attrs = build_attrs(entries);
    let mut out = Vec::new();
    match no_panic("Attributes::to_writer", || attrs.to_writer(&mut out))? {
        Ok(()) => Ok(out),
        Err(e) => Err(Fail::new("attr:encode-error", format!("to_writer failed on supported types: {e}"))),
    }
}

pub fn crate_decode(bytes: &[u8]) -> Result<Result<Vec<(String, GVal)>, String>, Fail> {
    let r = no_panic("Attributes::from_reader", || Attributes::from_reader(bytes))?;
    Ok(r.map(|a| observe_attrs(&a)).map_err(|e| e.to_string()))
}

fn classify(entries: &[(String, GVal)], ctx: &mut CaseCtx) {
    let mut types = std::collections::HashSet::new();
    let mut nontrivial = false;
    for (k, v) in entries {
        types.insert(v.ty());
        ctx.label_if(k.is_empty(), "empty_name");
        if v.has_nonfinite() {
            ctx.label("nonfinite_float");
            nontrivial = true;
        }
        match v {
            GVal::CFrame(c) => {
                if refattr::exact_rotation_id(&c.rot).is_some() {
                    ctx.label("basis_rotation");
                } else {
                    ctx.label("general_matrix");
                    nontrivial = true;
                    ctx.label_if(vals::snap_target(&c.rot).is_some(), "near_basis_matrix");
                }
            }
            GVal::NumberSequence(k) if k.is_empty() => ctx.label("empty_sequence"),
            GVal::ColorSequence(k) if k.is_empty() => ctx.label("empty_sequence"),
            GVal::BinaryString(b) if std::str::from_utf8(b).is_err() => ctx.label("non_utf8_bytes"),
            GVal::Font { cached, .. } => ctx.label(if cached.is_some() { "font_with_cached_face" } else { "font_without_cached_face" }),
            GVal::String(_) => ctx.label("string_attribute"),
            GVal::EnumItem(..) => ctx.label("enum_item"),
            _ => {}
        }
    }
    ctx.label_if(entries.is_empty(), "empty_map");
    ctx.nontrivial_if(nontrivial || types.len() >= 3);
}

fn has_near_but_inexact(entries: &[(String, GVal)]) -> bool {
    entries.iter().any(|(_, v)| match v {
        GVal::CFrame(c) => refattr::exact_rotation_id(&c.rot).is_none() && vals::snap_target(&c.rot).is_some(),
        _ => false,
    })
}

fn body(case: &AttrCase, ctx: &mut CaseCtx) -> PropResult {
    classify(&case.entries, ctx);
    let expected = match oracle::normalise_attributes(&GVal::Attributes(case.entries.clone())) {
        GVal::Attributes(e) => e,
        _ => unreachable!(),
    };
    let norm = Norm::binary();
    let same = |a: &Vec<(String, GVal)>, b: &Vec<(String, GVal)>| {
        oracle::val_matches(&GVal::Attributes(a.clone()), &GVal::Attributes(b.clone()), &norm)
    };

    // (1) round trip through the crate
    let bytes = crate_encode(&case.entries)?;
    ensure!(
        case.entries.is_empty() == bytes.is_empty(),
        "attr:empty-map-bytes",
        "map with {} entries encoded to {} bytes",
        case.entries.len(),
        bytes.len()
    );
    match crate_decode(&bytes)? {
        Ok(back) => ensure!(same(&expected, &back), "attr:roundtrip", "wrote {:?}\nread  {:?}", expected, back),
        Err(e) => fail!("attr:own-blob-rejected", "from_reader rejects what to_writer wrote: {e}"),
    }
    // (2) layout: the document-derived decoder reads the crate's bytes
    match refattr::decode_map(&bytes) {
        Ok(back) => ensure!(
            same(&expected, &back),
            "attr:layout",
            "decoder written from docs/attributes.md reads the blob as {:?}, the map was {:?}",
            back,
            expected
        ),
        Err(e) => fail!("attr:layout-undecodable", "decoder written from docs/attributes.md rejects the blob: {}", e.0),
    }
    if !has_near_but_inexact(&case.entries) {
        // byte-exact against the document-derived encoding, entries taken in the order the crate chose
        // (docs/attributes.md fixes no entry order)
        let blob_order: Vec<String> = refattr::decode_map(&bytes).map(|m| m.into_iter().map(|(k, _)| k).collect()).unwrap_or_default();
        let mut in_blob_order: Vec<(String, GVal)> = blob_order.iter().filter_map(|k| case.entries.iter().find(|(n, _)| n == k).cloned()).collect();
        if in_blob_order.len() != case.entries.len() {
            in_blob_order = case.entries.clone();
        }
        let reference = refattr::encode(&in_blob_order).map_err(|e| Fail::new("harness-encode", e.0))?;
        ensure!(reference == bytes, "attr:bytes-differ-from-document", "blob differs from the document-derived encoding\ncrate {:02x?}\ndoc   {:02x?}", bytes, reference);
    }
    // (3) foreign blobs (entries in any order) decode to the described values
    let mut order: Vec<usize> = (0..case.entries.len()).collect();
    if !case.shuffle.is_empty() {
        order.sort_by_key(|i| case.shuffle[*i % case.shuffle.len()].wrapping_mul(2654435761).wrapping_add(*i as u32));
    }
    let shuffled: Vec<(String, GVal)> = order.iter().map(|i| case.entries[*i].clone()).collect();
    ctx.label_if(order.iter().enumerate().any(|(a, b)| a != *b), "foreign_order_shuffled");
    let foreign = refattr::encode(&shuffled).map_err(|e| Fail::new("harness-encode", e.0))?;
    match crate_decode(&foreign)? {
        Ok(back) => ensure!(same(&expected, &back), "attr:foreign", "document-derived blob {:02x?} decoded to {:?}, describes {:?}", foreign, back, expected),
        Err(e) => fail!("attr:foreign-rejected", "from_reader rejects a blob built from docs/attributes.md: {e}"),
    }
    ctx.add_evals(3);
    Ok(())
}

/// (4) the blob both file formats store for Instance.Attributes equals Attributes::to_writer
fn file_blob_body(case: &AttrCase, ctx: &mut CaseCtx) -> PropResult {
    classify(&case.entries, ctx);
    // XML text cannot carry every name; names are inside the blob (base64) so any name is fine
    let blob = crate_encode(&case.entries)?;
    let f = GForest {
        nodes: vec![GNode {
            parent: None,
            class: "Folder".into(),
            name: "holder".into(),
            props: vec![("Attributes".into(), GVal::Attributes(case.entries.clone()))],
        }],
        roots: vec![0],
    };
    let built = forest::build(&f, BuildMode::Builder, None);
    let roots = built.root_refs(&f);
    // binary
    let bin = super::c01::write_binary(&built.dom, &roots, rbx_binary::CompressionType::None)?;
    let raw = refbin::parse_container(&bin).map_err(|e| Fail::new("container", e))?;
    let model = refbin::decode_model(&raw, refbin::Dialect::implementation()).map_err(|e| Fail::new("decode", e))?;
    let col = model.props.iter().find(|p| p.name == "AttributesSerialize");
    match col.and_then(|p| p.column.as_ref()) {
        Some(refbin::Column::String(v)) => ensure!(
            v[0] == blob,
            "attr:binary-file-blob",
            "binary file stores {:02x?}, to_writer gives {:02x?}",
            v[0],
            blob
        ),
        other => fail!("attr:binary-file-column", "no String column AttributesSerialize in the file: {:?}", other.map(|c| c.type_id())),
    }
    // XML
    let xml = super::c02::write_xml(&built.dom, &roots, rbx_xml::EncodeOptions::default())?;
    let text = String::from_utf8_lossy(&xml).to_string();
    let marker = "name=\"AttributesSerialize\">";
    let Some(start) = text.find(marker) else {
        fail!("attr:xml-file-element", "no AttributesSerialize element in {text}")
    };
    let rest = &text[start + marker.len()..];
    let end = rest.find("</BinaryString>").unwrap_or(rest.len());
    let mut inner = rest[..end].trim().to_string();
    if let Some(s) = inner.strip_prefix("<![CDATA[") {
        inner = s.strip_suffix("]]>").unwrap_or(s).to_string();
    }
    let b64: String = inner.chars().filter(|c| !c.is_whitespace()).collect();
    let stored = base64::decode(&b64).map_err(|e| Fail::new("attr:xml-file-base64", format!("{e}: {b64}")))?;
    ensure!(stored == blob, "attr:xml-file-blob", "XML file stores {:02x?}, to_writer gives {:02x?}", stored, blob);
    Ok(())
}

#[derive(Clone, Debug, Serialize, Deserialize)]
pub enum Exh {
    RotationId(u8),
    BrickColor(u16),
    TypeId(u8),
}

fn sample_payload(id: u8) -> Option<GVal> {
    let one = 1.0f32.to_bits();
    Some(match id {
        0x02 => GVal::BinaryString(b"x".to_vec()),
        0x03 => GVal::Bool(true),
        0x04 => GVal::Int32(-7),
        0x05 => GVal::Float32(one),
        0x06 => GVal::Float64(1.5f64.to_bits()),
        0x09 => GVal::UDim(one, 3),
        0x0A => GVal::UDim2(one, 1, one, 2),
        0x0E => GVal::BrickColor(194),
        0x0F => GVal::Color3([one, 0, one]),
        0x10 => GVal::Vector2([one, 0]),
        0x11 => GVal::Vector3([one, 0, one]),
        0x14 => GVal::CFrame(GCf::identity_at([0, one, 0])),
        0x15 => GVal::EnumItem("Material".into(), 256),
        0x17 => GVal::NumberSequence(vec![[0, one, 0], [one, 0, 0]]),
        0x19 => GVal::ColorSequence(vec![(0, [one, 0, 0]), (one, [0, 0, one])]),
        0x1B => GVal::NumberRange(0, one),
        0x1C => GVal::Rect([0, 0, one, one]),
        0x21 => GVal::Font {
            family: "f".into(),
            weight: 700,
            style: 1,
            cached: None,
        },
        _ => return None,
    })
}

fn exhaustive_body(case: &Exh, ctx: &mut CaseCtx) -> PropResult {
    ctx.nontrivial();
    match case {
        Exh::RotationId(id) => {
            // blob: one CFrame attribute with this rotation id
            let mut blob = vec![1, 0, 0, 0, 1, 0, 0, 0, b'c', 0x14];
            blob.extend_from_slice(&[0u8; 12]);
            blob.push(*id);
            if *id == 0 {
                for i in 0..9 {
                    blob.extend_from_slice(&(i as f32).to_le_bytes());
                }
            }
            let got = crate_decode(&blob)?;
            match (vals::rotation_from_doc(*id), *id) {
                (_, 0) => ensure!(got.is_ok(), "attr:rotation-id-zero", "id 0 with a full matrix rejected: {got:?}"),
                (Some(m), _) => {
                    ctx.label("documented_rotation_id");
                    let want: Vec<u32> = m.iter().map(|x| (*x as f32).to_bits()).collect();
                    match got {
                        Ok(e) => match &e[0].1 {
                            GVal::CFrame(c) => ensure!(
                                c.rot.to_vec() == want,
                                "attr:rotation-table",
                                "rotation id {id:#04x}: crate gives {:?}, the document's Euler angles give {:?}",
                                c.rot_f32(),
                                m
                            ),
                            other => fail!("attr:rotation-table", "decoded {other:?}"),
                        },
                        Err(e) => fail!("attr:rotation-id-rejected", "documented rotation id {id:#04x} rejected: {e}"),
                    }
                    // and writing that matrix uses the id again
                    let mut rot = [0u32; 9];
                    rot.copy_from_slice(&want);
                    let bytes = crate_encode(&[("c".into(), GVal::CFrame(GCf { pos: [0; 3], rot }))])?;
                    ensure!(bytes.len() == blob.len() && bytes[bytes.len() - 1] == *id, "attr:rotation-id-not-used", "basis matrix of id {id:#04x} written as {:02x?}", bytes);
                }
                (None, _) => ensure!(got.is_err(), "attr:undocumented-rotation-id-accepted", "rotation id {id:#04x} is not in the document's table but decodes to {got:?}"),
            }
        }
        Exh::BrickColor(n) => {
            let e = vec![("b".to_string(), GVal::BrickColor(*n))];
            let bytes = crate_encode(&e)?;
            let reference = refattr::encode(&e).map_err(|e| Fail::new("harness-encode", e.0))?;
            ensure!(bytes == reference, "attr:brickcolor-bytes", "BrickColor {n}: {:02x?} vs document {:02x?}", bytes, reference);
            match crate_decode(&bytes)? {
                Ok(back) => ensure!(back == e, "attr:brickcolor-roundtrip", "BrickColor {n} came back as {back:?}"),
                Err(err) => fail!("attr:brickcolor-rejected", "BrickColor {n}: {err}"),
            }
        }
        Exh::TypeId(id) => {
            match sample_payload(*id) {
                Some(v) => {
                    ctx.label("documented_type_id");
                    let e = vec![("k".to_string(), v)];
                    let blob = refattr::encode(&e).map_err(|e| Fail::new("harness-encode", e.0))?;
                    ensure!(blob[9] == *id, "harness", "type id position");
                    match crate_decode(&blob)? {
                        Ok(back) => ensure!(
                            oracle::val_matches(&GVal::Attributes(e.clone()), &GVal::Attributes(back.clone()), &Norm::binary()),
                            "attr:type-id-table",
                            "type id {id:#04x}: document-derived blob decoded to {back:?}, describes {e:?}"
                        ),
                        Err(err) => fail!("attr:documented-type-rejected", "type id {id:#04x} rejected: {err}"),
                    }
                }
                None => {
                    // unknown id followed by plenty of zero bytes must be an error, not a guess
                    let mut blob = vec![1, 0, 0, 0, 1, 0, 0, 0, b'k', *id];
                    blob.extend_from_slice(&[0u8; 64]);
                    let got = crate_decode(&blob)?;
                    ensure!(got.is_err(), "attr:unknown-type-id-accepted", "type id {id:#04x} is not documented but decodes to {got:?}");
                }
            }
        }
    }
    Ok(())
}

// ---------------------------------------------------------------------------
// sinks: short writes must not change the blob, a failing sink must surface as Err

#[derive(Clone, Debug, Serialize, Deserialize)]
pub struct SinkCase {
    pub attrs: AttrCase,
    /// bytes accepted per write() call
    pub max_write: u8,
    /// fail after this many bytes (selector over the blob length)
    pub fail_at: u16,
}

struct Dribble {
    got: Vec<u8>,
    max: usize,
    budget: Option<usize>,
}

impl std::io::Write for Dribble {
    fn write(&mut self, buf: &[u8]) -> std::io::Result<usize> {
        if buf.is_empty() {
            return Ok(0);
        }
        if self.budget == Some(0) {
            return Err(std::io::Error::new(std::io::ErrorKind::Other, "injected sink failure"));
        }
        let mut n = buf.len().min(self.max.max(1));
        if let Some(b) = self.budget.as_mut() {
            n = n.min(*b);
            *b -= n;
        }
        self.got.extend_from_slice(&buf[..n]);
        Ok(n)
    }
    fn flush(&mut self) -> std::io::Result<()> {
        Ok(())
    }
}

fn sink_body(c: &SinkCase, ctx: &mut CaseCtx) -> PropResult {
    let attrs = build_attrs(&c.attrs.entries);
    let oneshot = crate_encode(&c.attrs.entries)?;
    ctx.nontrivial_if(oneshot.len() > c.max_write as usize && !oneshot.is_empty());
    let mut short = Dribble { got: Vec::new(), max: c.max_write as usize, budget: None };
    let r = no_panic("Attributes::to_writer (short writes)", || attrs.to_writer(&mut short))?;
    ensure!(r.is_ok(), "attr:sink:short-writes-error", "a sink that takes {} byte(s) per call makes to_writer fail: {:?}", c.max_write.max(1), r.err().map(|e| e.to_string()));
    ensure!(short.got == oneshot, "attr:sink:short-writes-change-output", "through a sink taking {} byte(s) per call {} of {} bytes arrive (or other bytes)", c.max_write.max(1), short.got.len(), oneshot.len());
    if !oneshot.is_empty() {
        let cut = (c.fail_at as usize * oneshot.len()) >> 16;
        let mut failing = Dribble { got: Vec::new(), max: c.max_write as usize, budget: Some(cut) };
        let r = no_panic("Attributes::to_writer (failing sink)", || attrs.to_writer(&mut failing))?;
        ensure!(r.is_err(), "attr:sink:failure-swallowed", "the sink failed after {cut} of {} bytes and to_writer returned Ok", oneshot.len());
        ctx.label("sink_failure_injected");
    }
    Ok(())
}

// ---------------------------------------------------------------------------
// the map API as a history: the blob always describes the map as it is now

#[derive(Clone, Debug, Serialize, Deserialize)]
pub enum MapOp {
    Insert(u8, GVal),
    With(u8, GVal),
    Remove(u8),
    Extend(Vec<(u8, GVal)>),
    Clear,
    Drain,
    /// encode now and compare with the document-derived encoding of the model
    Encode,
    /// replace the map by a clone of itself
    CloneSelf,
    /// rebuild through IntoIterator / FromIterator
    Recollect,
    /// decode(encode(map)) replaces the map
    Reload,
    /// an encode that fails (a value type the format has no encoding for, into a sink that has
    /// already taken a few bytes); the map itself is not changed
    FailedEncode(u8),
}

#[derive(Clone, Debug, Serialize, Deserialize)]
pub struct MapHistory {
    pub ops: Vec<MapOp>,
}

fn map_history_body(h: &MapHistory, ctx: &mut CaseCtx) -> PropResult {
    let name = |k: u8| format!("k{}", k % 6);
    let to_v = |v: &GVal| v.to_variant(&|_| Ref::none(), Ref::none());
    let mut real = Attributes::new();
    let mut model: std::collections::BTreeMap<String, GVal> = Default::default();
    let mut encodes = 0;
    let mut edits_after_encode = false;
    let norm = Norm::binary();
    for (step, op) in h.ops.iter().enumerate() {
        match op {
            MapOp::Insert(k, v) => {
                let old = real.insert(name(*k), to_v(v));
                let want = model.insert(name(*k), v.clone());
                ensure!(old.is_some() == want.is_some(), "attr:map:insert-return", "step {step}: insert returned {:?}, the map {} the key", old.is_some(), if want.is_some() { "had" } else { "did not have" });
                edits_after_encode |= encodes > 0;
            }
            MapOp::With(k, v) => {
                real = std::mem::take(&mut real).with(name(*k), to_v(v));
                model.insert(name(*k), v.clone());
                edits_after_encode |= encodes > 0;
            }
            MapOp::Remove(k) => {
                let old = real.remove(name(*k).as_str());
                let want = model.remove(&name(*k));
                ensure!(old.is_some() == want.is_some(), "attr:map:remove-return", "step {step}: remove returned {:?}", old.is_some());
                edits_after_encode |= encodes > 0;
            }
            MapOp::Extend(items) => {
                real.extend(items.iter().map(|(k, v)| (name(*k), to_v(v))));
                for (k, v) in items {
                    model.insert(name(*k), v.clone());
                }
                edits_after_encode |= encodes > 0 && !items.is_empty();
            }
            MapOp::Clear => {
                real.clear();
                model.clear();
                edits_after_encode |= encodes > 0;
            }
            MapOp::Drain => {
                let n = real.drain().count();
                ensure!(n == model.len(), "attr:map:drain-count", "step {step}: drain yielded {n} of {} entries", model.len());
                model.clear();
                edits_after_encode |= encodes > 0;
            }
            MapOp::FailedEncode(k) => {
                let mut bad = real.clone();
                bad.insert(format!("zz_unencodable{k}"), Variant::Int64(7));
                let mut sink = Dribble { got: Vec::new(), max: 3, budget: Some(*k as usize % 40) };
                let _ = crate::engine::catch(|| bad.to_writer(&mut sink).is_ok());
                let mut sink2 = Vec::new();
                let _ = crate::engine::catch(|| bad.to_writer(&mut sink2).is_ok());
                ctx.label("failed_encode_between");
            }
            MapOp::CloneSelf => real = real.clone(),
            MapOp::Recollect => real = real.into_iter().collect(),
            MapOp::Reload | MapOp::Encode => {
                let mut bytes = Vec::new();
                no_panic("Attributes::to_writer", || real.to_writer(&mut bytes))?.map_err(|e| Fail::new("attr:encode-error", e.to_string()))?;
                encodes += 1;
                let entries: Vec<(String, GVal)> = model.iter().map(|(k, v)| (k.clone(), v.clone())).collect();
                let expected = match oracle::normalise_attributes(&GVal::Attributes(entries.clone())) {
                    GVal::Attributes(e) => e,
                    _ => unreachable!(),
                };
                let described = refattr::decode_map(&bytes).map_err(|e| Fail::new("attr:layout-undecodable", e.0))?;
                ensure!(
                    oracle::val_matches(&GVal::Attributes(expected.clone()), &GVal::Attributes(described.clone()), &norm),
                    "attr:map:stale-or-wrong-blob",
                    "step {step}: after {:?} the blob describes {:?}, the map holds {:?}",
                    h.ops.iter().take(step).collect::<Vec<_>>(),
                    described,
                    expected
                );
                if matches!(op, MapOp::Reload) {
                    real = no_panic("Attributes::from_reader", || Attributes::from_reader(bytes.as_slice()))?.map_err(|e| Fail::new("attr:own-blob-rejected", e.to_string()))?;
                    model = expected.into_iter().collect();
                }
            }
        }
        ensure!(real.len() == model.len() && real.is_empty() == model.is_empty(), "attr:map:len", "step {step}: len() = {}, the map holds {} entries", real.len(), model.len());
        let seen: Vec<(String, GVal)> = observe_attrs(&real);
        let want: Vec<(String, GVal)> = model.iter().map(|(k, v)| (k.clone(), v.clone())).collect();
        ensure!(
            oracle::val_matches(&GVal::Attributes(want.clone()), &GVal::Attributes(seen.clone()), &Norm { snap_in_attributes: true, ..norm }) || seen == want,
            "attr:map:contents",
            "step {step}: iter() shows {:?}, expected {:?}",
            seen,
            want
        );
        for (k, v) in &model {
            let got = real.get(k.as_str()).map(|x| GVal::from_variant(x, &|_| GRef::Dangling));
            ensure!(got.as_ref().map(|g| oracle::val_matches(v, g, &Norm { snap_in_attributes: true, ..norm }) || g == v).unwrap_or(false), "attr:map:get", "step {step}: get({k}) = {:?}, expected {:?}", got, v);
        }
    }
    ctx.label_if(encodes >= 2, "encoded_twice");
    ctx.label_if(edits_after_encode, "edited_after_an_encode");
    ctx.nontrivial_if(edits_after_encode && encodes >= 2);
    Ok(())
}

fn map_history_strategy() -> BoxedStrategy<MapHistory> {
    let val = || vals::attribute_value(ValProfile::binary(), false);
    let op = prop_oneof![
        3 => (any::<u8>(), val()).prop_map(|(k, v)| MapOp::Insert(k, v)),
        1 => (any::<u8>(), val()).prop_map(|(k, v)| MapOp::With(k, v)),
        2 => any::<u8>().prop_map(MapOp::Remove),
        2 => proptest::collection::vec((any::<u8>(), val()), 0..3).prop_map(MapOp::Extend),
        1 => Just(MapOp::Clear),
        1 => Just(MapOp::Drain),
        4 => Just(MapOp::Encode),
        1 => Just(MapOp::CloneSelf),
        1 => Just(MapOp::Recollect),
        1 => Just(MapOp::Reload),
        2 => any::<u8>().prop_map(MapOp::FailedEncode),
    ];
    proptest::collection::vec(op, 1..12).prop_map(|ops| MapHistory { ops }).boxed()
}

/// Values longer than any buffer the codecs pre-size (64 Ki items): lengths around and above the cap.
#[derive(Clone, Debug, Serialize, Deserialize)]
pub struct LongCase {
    pub kind: String,
    pub n: usize,
    /// another entry follows the long one in the blob
    pub followed: bool,
}

pub fn long_value(kind: &str, n: usize) -> GVal {
    let f = |x: f32| x.to_bits();
    match kind {
        "NumberSequence" => GVal::NumberSequence((0..n).map(|i| [f(i as f32 / n as f32), f((i % 97) as f32), f((i % 7) as f32)]).collect()),
        "ColorSequence" => GVal::ColorSequence((0..n).map(|i| (f(i as f32 / n as f32), [f((i % 3) as f32), f((i % 5) as f32 * 0.25), f((i % 11) as f32 * 0.0625)])).collect()),
        "BinaryString" => GVal::BinaryString((0..n).map(|i| (i * 31 % 251) as u8).collect()),
        _ => GVal::String((0..n).map(|i| (b'a' + (i % 23) as u8) as char).collect()),
    }
}

fn long_body(c: &LongCase, ctx: &mut CaseCtx) -> PropResult {
    ctx.nontrivial_if(c.n > 65536 || c.kind.starts_with("Name"));
    ctx.label_if(c.followed, "long_value_followed_by_another_entry");
    let mut entries = if c.kind == "Name" || c.kind == "NameMultibyte" {
        // a long attribute *name* (ASCII, or 3-byte characters): names have no documented limit
        let name: String = if c.kind == "Name" { (0..c.n).map(|i| (b'a' + (i % 26) as u8) as char).collect() } else { "\u{20AC}".repeat(c.n / 3) };
        vec![(name, GVal::Float64(1.25f64.to_bits()))]
    } else {
        vec![("a_long".to_string(), long_value(&c.kind, c.n))]
    };
    if c.followed {
        entries.push(("b_after".to_string(), GVal::Bool(true)));
        entries.push(("c_after".to_string(), GVal::Float64(2.5f64.to_bits())));
    }
    entries.sort_by(|a, b| a.0.cmp(&b.0));
    body(&AttrCase { entries, shuffle: vec![] }, ctx)
}

pub const LONG_LENGTHS: &[usize] = &[65_535, 65_536, 65_537, 65_538, 100_000, 131_072, 131_073, 200_001];

pub fn run(ctx: &Ctx) -> PropertyReport {
    let mut rep = PropertyReport::new(
        "C14",
        "exploration",
        "attribute maps with 0-12 entries, any UTF-8 names (incl. empty), all supported value types with bit-pattern floats, general / near-basis / basis matrices, \
         empty and long sequences, non-UTF-8 byte strings, every BrickColor number, fonts with and without cached face. Oracles: crate round trip; an independent codec \
         written from docs/attributes.md decodes the crate's bytes and its own bytes (entry order shuffled) are decoded by the crate; byte equality with the document-derived \
         encoding; the blob stored by both file formats equals Attributes::to_writer. Exhaustive: all 256 rotation-id bytes, all BrickColor numbers, all 256 type-id bytes. \
         Non-trivial = a map with >= 3 distinct types, a non-finite float or a general matrix.",
    );
    rep.assume("a rotation within f32::EPSILON of a basis may be stored as that basis' id (same mechanism as the binary file format)");
    rep.assume("docs/attributes.md fixes no entry order; the empty map is zero bytes (stated by the property, the document is silent)");
    let sub = crate::engine::replay_subcheck_or_all(ctx);
    if sub.runs("blobs") {
        let cases = ctx.cfg.cases(200_000, 15_000_000);
        let mut r = ctx.run_prop("blobs", cases, || attr_case(12), body);
        for l in ["empty_map", "empty_name", "nonfinite_float", "general_matrix", "near_basis_matrix", "basis_rotation", "empty_sequence", "non_utf8_bytes", "font_with_cached_face", "string_attribute", "enum_item", "foreign_order_shuffled"] {
            r.floor(l, cases / 500);
        }
        rep.push(r);
    }
    if sub.runs("file-blobs") {
        let cases = ctx.cfg.cases(20_000, 2_000_000);
        rep.push(ctx.run_prop("file-blobs", cases, || attr_case(8), file_blob_body));
    }
    if sub.runs("sinks") {
        let cases = ctx.cfg.cases(40_000, 4_000_000);
        let strat = || (attr_case(8), prop_oneof![2 => 1u8..4, 1 => 4u8..=255], any::<u16>()).prop_map(|(attrs, max_write, fail_at)| SinkCase { attrs, max_write, fail_at });
        let mut r = ctx.run_prop("sinks", cases, strat, sink_body);
        r.floor("sink_failure_injected", cases / 4);
        rep.push(r);
    }
    if sub.runs("map-history") {
        let cases = ctx.cfg.cases(60_000, 8_000_000);
        let mut r = ctx.run_prop("map-history", cases, map_history_strategy, map_history_body);
        r.floor("edited_after_an_encode", cases / 10);
        r.floor("encoded_twice", cases / 10);
        rep.push(r);
    }
    if sub.runs("long-values") {
        let mut cases = Vec::new();
        for kind in ["NumberSequence", "ColorSequence", "BinaryString", "String"] {
            for n in LONG_LENGTHS {
                for followed in [false, true] {
                    cases.push(LongCase { kind: kind.to_string(), n: *n, followed });
                }
            }
        }
        for kind in ["Name", "NameMultibyte"] {
            for n in [63usize, 64, 65, 99, 100, 101, 102, 120, 127, 128, 129, 255, 256, 257, 300, 1000, 65_537] {
                for followed in [false, true] {
                    cases.push(LongCase { kind: kind.to_string(), n, followed });
                }
            }
        }
        rep.push(ctx.run_list("long-values", cases, true, long_body));
    }
    if sub.runs("exhaustive") {
        let mut cases: Vec<Exh> = (0..=255u8).map(Exh::RotationId).collect();
        cases.extend(vals::brick_color_numbers().into_iter().map(Exh::BrickColor));
        cases.extend((0..=255u8).map(Exh::TypeId));
        rep.push(ctx.run_list("exhaustive", cases, true, exhaustive_body));
    }
    rep
}
