//! C06 — binary and XML encodings of the same DOM decode to equivalent DOMs.

use proptest::prelude::*;
use serde::{Deserialize, Serialize};

use crate::dbview;
use crate::engine::{CaseCtx, Ctx, Fail, PropResult, PropertyReport};
use crate::gen::forest::{self, BuildMode, CanonDom, CanonInst, ForestProfile, GForest, GNode};
use crate::gen::vals::{self, GVal, TextMode, ValProfile};
use crate::oracle::{self, Expectation, Format, Norm};
use crate::{ensure, fail};

use super::c01::{classify_forest, read_binary, write_binary};
use super::c02::{read_xml, write_xml};

pub fn db_profile(max_nodes: usize) -> ForestProfile {
    let mut vp = ValProfile::xml();
    vp.text = TextMode::Xml;
    ForestProfile {
        vals: vp,
        max_nodes,
        deep_weight: 1,
        types: vals::xml_types().into_iter().filter(|t| vals::binary_types().contains(t)).collect(),
        known_classes: true,
        all_db_classes: true,
        unknown_classes: false,
        alias_names: true,
        unknown_props: false,
        max_props: 7,
        ident_text: TextMode::Xml,
        free_roots: false,
        exclude_unknown_color3uint8: false,
        exclude_unknown_types: vec![],
        multi_spelling: false,
        non_serializing: true,
        narrow_numbers: true,
    }
}

fn both_norm() -> Norm {
    Norm {
        snap_rotation: true,
        nan_class: true,
        snap_in_attributes: true,
        extra_names_allowed: true,
    }
}

fn no_blob(_: &GVal) -> Option<Vec<u8>> {
    None
}

/// a ⊆ b: same shape; every property of `a` is in `b` with an equal value
fn subset(a: &CanonDom, b: &CanonDom, what: &str) -> Result<(), (String, String)> {
    if a.roots.len() != b.roots.len() {
        return Err((format!("{what}:shape"), "different number of roots".into()));
    }
    let mut stack: Vec<(&CanonInst, &CanonInst)> = a.roots.iter().zip(b.roots.iter()).collect();
    while let Some((x, y)) = stack.pop() {
        if x.class != y.class || x.name != y.name || x.children.len() != y.children.len() {
            return Err((format!("{what}:shape"), format!("{} {:?} vs {} {:?}", x.class, x.name, y.class, y.name)));
        }
        for (k, v) in &x.props {
            match y.props.get(k) {
                Some(w) if oracle::val_matches(v, w, &both_norm()) || oracle::val_matches(w, v, &both_norm()) => {}
                other => {
                    return Err((
                        format!("{what}:value:{:?}", v.ty()),
                        format!("{}.{k}: {:?} became {:?}", x.class, v, other),
                    ))
                }
            }
        }
        for (c, d) in x.children.iter().zip(y.children.iter()) {
            stack.push((c, d));
        }
    }
    Ok(())
}

pub fn equivalence(f: &GForest, ctx: &mut CaseCtx) -> PropResult {
    let built = forest::build(f, BuildMode::Builder, None);
    let roots = built.root_refs(f);
    let bin = match write_binary(&built.dom, &roots, rbx_binary::CompressionType::Lz4) {
        Ok(b) => b,
        Err(e) if e.key.starts_with("serialize-error") => {
            ctx.excluded("binary writer rejects the DOM");
            return Ok(());
        }
        Err(e) => return Err(e),
    };
    let xml = match write_xml(&built.dom, &roots, rbx_xml::EncodeOptions::default()) {
        Ok(b) => b,
        Err(e) if e.key.starts_with("xml-encode-error") => {
            ctx.excluded("XML writer rejects the DOM");
            return Ok(());
        }
        Err(e) => return Err(e),
    };
    let d_bin = read_binary(&bin)?;
    let d_xml = read_xml(&xml, rbx_xml::DecodeOptions::default())?;
    let db = forest::observe(&d_bin);
    let dx = forest::observe(&d_xml);
    // every explicitly set property is in both, under the same canonical name, equal
    let exp_b: Expectation = oracle::expect_roundtrip(f, Format::Binary, &no_blob);
    let exp_x: Expectation = oracle::expect_roundtrip(f, Format::Xml, &no_blob);
    if let Err((k, m)) = oracle::compare_dom(&exp_b, &db, &both_norm()) {
        fail!(format!("equiv:binary-side:{k}"), "{m}");
    }
    let xn = Norm { extra_names_allowed: false, ..both_norm() };
    if let Err((k, m)) = oracle::compare_dom(&exp_x, &dx, &xn) {
        fail!(format!("equiv:xml-side:{k}"), "{m}");
    }
    // direct comparison: Dx ⊆ Db (names only in Db are binary-filled defaults)
    if let Err((k, m)) = subset(&dx, &db, "equiv:xml-vs-binary") {
        fail!(k, "XML-decoded vs binary-decoded: {m}");
    }
    // conversion chains
    let x2 = {
        let bytes = write_xml(&d_bin, d_bin.root().children(), rbx_xml::EncodeOptions::default())?;
        forest::observe(&read_xml(&bytes, rbx_xml::DecodeOptions::default())?)
    };
    if let Err((k, m)) = subset(&db, &x2, "equiv:binary-to-xml") {
        fail!(k, "binary -> XML conversion lost something the first read produced: {m}");
    }
    if let Err((k, m)) = subset(&x2, &db, "equiv:binary-to-xml-extra") {
        fail!(k, "binary -> XML conversion invented something: {m}");
    }
    let b2 = {
        let bytes = write_binary(&d_xml, d_xml.root().children(), rbx_binary::CompressionType::Lz4)?;
        forest::observe(&read_binary(&bytes)?)
    };
    if let Err((k, m)) = subset(&dx, &b2, "equiv:xml-to-binary") {
        fail!(k, "XML -> binary conversion lost something the first read produced: {m}");
    }
    ctx.add_evals(3);
    Ok(())
}

fn body(f: &GForest, ctx: &mut CaseCtx) -> PropResult {
    classify_forest(f, ctx);
    // one case in eight runs after failed saves on this thread (state surviving a failed call would corrupt this save)
    {
        let h = f.nodes.len() as u64 * 31 + f.nodes.iter().map(|n| n.props.len() as u64 * 7 + n.name.len() as u64).sum::<u64>();
        if h % 8 == 3 && super::c07::provoke_failed_saves(h.wrapping_mul(0x9E37_79B9_7F4A_7C15)) > 0 {
            ctx.label("after_failed_saves_on_this_thread");
        }
    }
    let mut nontrivial = false;
    for n in &f.nodes {
        let types: std::collections::HashSet<_> = n.props.iter().map(|p| p.1.ty()).collect();
        if n.props.len() >= 3 && types.len() >= 2 {
            nontrivial = true;
            ctx.label("instance_with_3_props_of_2_types");
        }
        for (name, _) in &n.props {
            if let Some(v) = dbview::resolve(&n.class, name) {
                if v.is_alias {
                    ctx.label("alias_spelling");
                    nontrivial = true;
                }
                if v.ser.as_ref().map(|s| s.name != v.canonical).unwrap_or(false) {
                    ctx.label("serializes_as_property");
                    nontrivial = true;
                }
            }
        }
    }
    ctx.nontrivial_if(nontrivial);
    equivalence(f, ctx)
}

#[derive(Clone, Debug, Serialize, Deserialize)]
pub struct WalkCase {
    pub class: String,
    pub prop: String,
    pub seeds: Vec<u64>,
}

fn walk_body(c: &WalkCase, ctx: &mut CaseCtx) -> PropResult {
    let Some(view) = dbview::resolve(&c.class, &c.prop) else { return Ok(()) };
    ctx.nontrivial();
    ctx.label_if(view.is_alias, "alias_spelling");
    ctx.label_if(view.ser.as_ref().map(|s| s.name != view.canonical).unwrap_or(false), "serializes_as_property");
    let vp = db_profile(4).vals;
    for seed in &c.seeds {
        let val = |s: u64| -> GVal {
            let v = match &view.canonical_ty {
                dbview::Ty::Enum(e) => {
                    let items = dbview::enum_items(e);
                    if items.is_empty() || s % 3 == 0 {
                        forest::value_from_seed(rbx_types::VariantType::Enum, vp, s)
                    } else {
                        GVal::Enum(items[(s >> 4) as usize % items.len()])
                    }
                }
                dbview::Ty::Value(t) => forest::value_from_seed(*t, vp, s),
            };
            // Refs: first -> the sibling, second -> null
            v.map_refs(&|r| match r {
                vals::GRef::Node(k) => vals::GRef::Node(k % 2),
                other => other.clone(),
            })
        };
        let mut uid = 0u32;
        let mut mk = |s: u64| {
            let mut v = val(s);
            if view.canonical == "UniqueId" {
                uid += 1;
                v = GVal::UniqueId(uid, *seed as u32, *seed as i64);
            }
            v
        };
        let f = GForest {
            nodes: vec![
                GNode { parent: None, class: c.class.clone(), name: "a".into(), props: vec![(c.prop.clone(), mk(*seed))] },
                GNode { parent: Some(0), class: c.class.clone(), name: "b".into(), props: vec![(c.prop.clone(), mk(seed.wrapping_mul(31).wrapping_add(7)))] },
            ],
            roots: vec![0],
        };
        if let Err(mut e) = equivalence(&f, ctx) {
            e.msg = format!("{}.{} (seed {seed}): {}", c.class, c.prop, e.msg);
            return Err(e);
        }
        ctx.add_evals(1);
    }
    Ok(())
}

pub fn run(ctx: &Ctx) -> PropertyReport {
    let mut rep = PropertyReport::new(
        "C06",
        "exploration",
        "database-driven forests: class drawn uniformly from all 797 database classes, a subset of its (inherited) serializable non-migrating properties through canonical or alias names, \
         values of the declared type, Ref / SharedString topology. Db = read_bin(write_bin(D)), Dx = read_xml(write_xml(D)): both must match the expectation computed from the spec, Dx must be \
         contained in Db (extra names in Db only as binary-filled defaults), NaNs as a class; then the conversion chains read_xml(write_xml(Db)) = Db and read_bin(write_bin(Dx)) ⊇ Dx. \
         A second sub-check walks every (class, property spelling) pair of the database. Non-trivial = an instance with >= 3 set properties of >= 2 types, an alias spelling, or a serializes-as property.",
    );
    let sub = crate::engine::replay_subcheck_or_all(ctx);
    if sub.runs("equivalence") {
        let cases = ctx.cfg.cases(40_000, 5_000_000);
        let mut r = ctx.run_prop("equivalence", cases, || forest::forest(db_profile(8)), body);
        r.floor("instance_with_3_props_of_2_types", cases / 20);
        r.floor("alias_spelling", cases / 200);
        r.floor("serializes_as_property", cases / 100);
        rep.push(r);
    }
    if sub.runs("descriptor-walk") {
        let per = ctx.cfg.tier.pick(2usize, 20);
        let supported: Vec<_> = db_profile(4).types;
        let mut cases = Vec::new();
        if ctx.cfg.replay.is_none() {
            for class in dbview::all_class_names() {
                let conflicts = dbview::ser_conflicts(&class);
                for sp in dbview::class_props(&class).plain {
                    let ser = sp.view.ser.as_ref().unwrap();
                    if !supported.contains(&sp.view.canonical_ty.variant_type()) || !supported.contains(&ser.ty.variant_type()) {
                        continue;
                    }
                    if sp.view.canonical == "Name" || conflicts.iter().any(|(n, _)| *n == ser.name) {
                        continue;
                    }
                    let h = crate::engine::fxhash(format!("{class}.{}", sp.name).as_bytes()) ^ ctx.cfg.seed;
                    cases.push(WalkCase {
                        class: class.clone(),
                        prop: sp.name.clone(),
                        seeds: (0..per as u64).map(|i| h.wrapping_mul(i * 2 + 1).wrapping_add(i)).collect(),
                    });
                }
            }
        }
        let mut r = ctx.run_list("descriptor-walk", cases, true, walk_body);
        r.notes.push(format!("every (class, inherited serializable non-migrating property spelling) pair of the database, {per} value pairs each; the enumeration of pairs is exhaustive, the values are sampled"));
        rep.push(r);
    }
    rep
}
