//! C05 — XML written is spec-conformant; spec-conformant foreign XML is read correctly.

use std::cell::RefCell;
use std::collections::HashMap;
use std::io::{BufRead, BufReader, Write};
use std::process::{Child, ChildStdin, ChildStdout, Command, Stdio};

use proptest::prelude::*;
use serde::{Deserialize, Serialize};

use crate::dbview;
use crate::engine::{CaseCtx, Ctx, Fail, PropResult, PropertyReport};
use crate::gen::forest::{self, BuildMode, ForestProfile, GForest};
use crate::gen::vals::{self, GContent, GRef, GVal, TextMode};
use crate::oracle::{self, Format, Norm};
use crate::spec::refxml::{self, DocPlan};
use crate::{ensure, fail};

use super::c01::classify_forest;
use super::c02::{classify_xml, read_xml, write_xml, xml_profile, Pairing};

// ---------------------------------------------------------------------------
// Python oracle worker (one per thread)

struct PyWorker {
    child: Child,
    stdin: ChildStdin,
    stdout: BufReader<ChildStdout>,
}

impl Drop for PyWorker {
    fn drop(&mut self) {
        let _ = self.child.kill();
        let _ = self.child.wait();
    }
}

thread_local! {
    static PY: RefCell<Option<PyWorker>> = const { RefCell::new(None) };
}

#[derive(Debug, Deserialize)]
pub struct PyProp {
    pub name: String,
    pub element: String,
    pub value: PyVal,
}

#[derive(Debug, Deserialize)]
pub enum PyVal {
    RefText(String),
    SharedKey(String),
    ContentRef(Option<String>),
    #[serde(untagged)]
    Val(GVal),
}

#[derive(Debug, Deserialize)]
pub struct PyItem {
    pub class: Option<String>,
    pub referent: Option<String>,
    pub props: Vec<PyProp>,
    pub children: Vec<PyItem>,
}

#[derive(Debug, Deserialize)]
pub struct PyDoc {
    pub ok: bool,
    #[serde(default)]
    pub error: Option<String>,
    #[serde(default)]
    pub oracle_error: Option<String>,
    #[serde(default)]
    pub roots: Vec<PyItem>,
    #[serde(default)]
    pub shared: HashMap<String, Vec<u8>>,
    #[serde(default)]
    pub violations: Vec<String>,
    #[serde(default)]
    pub notes: Vec<String>,
}

pub fn ask_python(xml: &str) -> Result<PyDoc, Fail> {
    PY.with(|p| {
        let mut p = p.borrow_mut();
        if p.is_none() {
            let script = format!("{}/py/xml_oracle.py", crate::engine::VERIF_ROOT);
            let mut child = Command::new("python3")
                .arg(script)
                .stdin(Stdio::piped())
                .stdout(Stdio::piped())
                .stderr(Stdio::null())
                .spawn()
                .map_err(|e| Fail::new("harness:python", format!("cannot start python3: {e}")))?;
            let stdin = child.stdin.take().unwrap();
            let stdout = BufReader::new(child.stdout.take().unwrap());
            *p = Some(PyWorker { child, stdin, stdout });
        }
        let w = p.as_mut().unwrap();
        let req = serde_json::json!({ "xml": xml }).to_string();
        let io = w
            .stdin
            .write_all(req.as_bytes())
            .and_then(|_| w.stdin.write_all(b"\n"))
            .and_then(|_| w.stdin.flush());
        let mut line = String::new();
        let read = io.and_then(|_| w.stdout.read_line(&mut line));
        match read {
            Ok(n) if n > 0 => serde_json::from_str::<PyDoc>(&line)
                .map_err(|e| Fail::new("harness:python", format!("oracle answer unreadable: {e}: {}", line.chars().take(300).collect::<String>()))),
            _ => {
                *p = None;
                Err(Fail::new("harness:python", "python oracle died".to_string()))
            }
        }
    })
}

// ---------------------------------------------------------------------------
// writer direction

fn writer_profile(max_nodes: usize, text: TextMode) -> ForestProfile {
    let mut p = xml_profile(max_nodes, false, text);
    // conformance of the document, not which properties are kept: DoesNotSerialize properties are C02's side-check
    p.non_serializing = false;
    p.narrow_numbers = false;
    p
}

#[derive(Clone, Debug, Serialize, Deserialize)]
pub struct WriterCase {
    pub forest: GForest,
    /// false: default options (unknown properties dropped); true: WriteUnknown
    pub write_unknown: bool,
}

/// What the document must hold for a property of the spec: (element name(s) allowed, serialized name, value)
fn expected_document_value(class: &str, name: &str, val: &GVal, write_unknown: bool) -> Option<(String, GVal)> {
    match dbview::resolve(class, name) {
        None => {
            if !write_unknown {
                return None;
            }
            Some((name.to_string(), doc_value(val, None)))
        }
        Some(view) => {
            let ser = view.ser.as_ref()?;
            Some((ser.name.clone(), doc_value(val, Some(ser.ty.variant_type()))))
        }
    }
}

/// The value as docs/xml.md stores it.
fn doc_value(val: &GVal, ser_ty: Option<rbx_types::VariantType>) -> GVal {
    match val {
        GVal::BrickColor(n) => GVal::Int32(*n as i32),
        GVal::Tags(t) => GVal::BinaryString(oracle::tags_blob(t)),
        GVal::MaterialColors(_) => GVal::BinaryString(oracle::material_colors_blob(val)),
        GVal::Attributes(_) => oracle::normalise_attributes(val),
        GVal::Color3(c) if ser_ty == Some(rbx_types::VariantType::Color3uint8) => {
            GVal::Color3uint8([oracle::quantise(c[0]), oracle::quantise(c[1]), oracle::quantise(c[2])])
        }
        other => other.clone(),
    }
}

/// Long decimal spellings of 32-bit floats: a decimal just above / just below the exact midpoint of
/// two neighbouring f32 values (docs/xml.md puts no limit on digits). The correctly rounded result
/// is known by construction; a reader that rounds twice (decimal -> f64 -> f32) lands on the wrong
/// neighbour for half of them.
#[derive(Clone, Debug, Serialize, Deserialize)]
pub struct FloatSpelling {
    pub bits: u32,
    pub above: bool,
    /// 0 = <float>, 1 = a Vector3 component, 2 = a UDim scale, 3 = Color3 component
    pub place: u8,
    pub exponent_form: bool,
}

fn float_spelling_body(c: &FloatSpelling, ctx: &mut CaseCtx) -> PropResult {
    // a positive normal f32 of moderate size, and its upper neighbour
    let exp = 127 - 20 + ((c.bits >> 23) % 50);
    let lo_bits = (c.bits & 0x007f_ffff) | (exp << 23);
    let lo = f32::from_bits(lo_bits);
    let hi = f32::from_bits(lo_bits + 1);
    let mid = (lo as f64 + hi as f64) / 2.0; // exact: 25 significant bits
    let exact = format!("{mid:.80}"); // exact decimal expansion, zero padded
    let spelling = if c.above {
        format!("{exact}1")
    } else {
        // (exact * 10 - 1) on the digit string: borrow from the right
        let mut d: Vec<u8> = format!("{exact}0").into_bytes();
        let mut i = d.len();
        loop {
            i -= 1;
            match d[i] {
                b'.' => continue,
                b'0' => d[i] = b'9',
                _ => {
                    d[i] -= 1;
                    break;
                }
            }
        }
        String::from_utf8(d).unwrap()
    };
    let spelling = if c.exponent_form {
        // same number, written with an exponent: shift the point three places
        format!("{}e3", shift_point_left(&spelling, 3))
    } else {
        spelling
    };
    let want = if c.above { hi } else { lo };
    ctx.label(if (lo_bits & 1 == 0) == c.above { "double_rounding_would_pick_the_other_neighbour" } else { "double_rounding_agrees" });
    ctx.nontrivial();
    let element = match c.place % 4 {
        0 => format!("<float name=\"P\">{spelling}</float>"),
        1 => format!("<Vector3 name=\"P\"><X>1</X><Y>{spelling}</Y><Z>-2.5</Z></Vector3>"),
        2 => format!("<UDim name=\"P\"><S>{spelling}</S><O>7</O></UDim>"),
        _ => format!("<Color3 name=\"P\"><R>{spelling}</R><G>0</G><B>1</B></Color3>"),
    };
    let doc = format!("<roblox version=\"4\"><Item class=\"ZzFloats\" referent=\"RBX0\"><Properties><string name=\"Name\">f</string>{element}</Properties></Item></roblox>");
    let dom = super::c02::read_xml(doc.as_bytes(), Pairing::Unknown.options().1).map_err(|mut f| {
        f.key = format!("foreign-xml:{}", f.key);
        f.msg = format!("reader rejected a float spelled with {} digits: {}", spelling.len(), f.msg);
        f
    })?;
    let inst = dom.root().children().first().and_then(|r| dom.get_by_ref(*r));
    let got: Option<f32> = inst.and_then(|i| i.properties.get(&rbx_dom_weak::ustr("P"))).and_then(|v| match v {
        rbx_types::Variant::Float32(x) => Some(*x),
        rbx_types::Variant::Vector3(v) => Some(v.y),
        rbx_types::Variant::UDim(u) => Some(u.scale),
        rbx_types::Variant::Color3(c) => Some(c.r),
        _ => None,
    });
    let Some(got) = got else { fail!("foreign-xml:float-spelling:property-missing", "property P did not come back from {element}") };
    ensure!(
        got.to_bits() == want.to_bits(),
        "foreign-xml:float-spelling:not-nearest",
        "{spelling} lies {} the midpoint of {lo:?} and {hi:?}; the nearest f32 is {want:?} ({:#010x}), the reader gave {got:?} ({:#010x})",
        if c.above { "just above" } else { "just below" },
        want.to_bits(),
        got.to_bits()
    );
    Ok(())
}

fn shift_point_left(s: &str, k: usize) -> String {
    let (int, frac) = s.split_once('.').unwrap_or((s, ""));
    let mut int = int.to_string();
    while int.len() <= k {
        int.insert(0, '0');
    }
    let cut = int.len() - k;
    format!("{}.{}{}", &int[..cut], &int[cut..], frac)
}

fn writer_body(case: &WriterCase, ctx: &mut CaseCtx) -> PropResult {
    let f = &case.forest;
    classify_forest(f, ctx);
    classify_xml(f, ctx);
    let built = forest::build(f, BuildMode::Builder, None);
    let roots = built.root_refs(f);
    let opts = if case.write_unknown { Pairing::Unknown.options().0 } else { Pairing::Default.options().0 };
    let bytes = write_xml(&built.dom, &roots, opts)?;
    let text = match String::from_utf8(bytes) {
        Ok(t) => t,
        Err(_) => fail!("xml-writer:not-utf8", "output is not UTF-8"),
    };
    let doc = ask_python(&text)?;
    if let Some(e) = &doc.oracle_error {
        fail!("harness:python", "oracle failed: {e}");
    }
    let has_cr = f.written_preorder().iter().any(|n| {
        f.nodes[*n].name.contains('\r')
            || f.nodes[*n].props.iter().any(|(_, v)| matches!(v, GVal::String(s) | GVal::ContentId(s) | GVal::Content(GContent::Uri(s)) if s.contains('\r'))
                || matches!(v, GVal::Font { family, cached, .. } if family.contains('\r') || cached.as_deref().unwrap_or("").contains('\r')))
    });
    ensure!(
        doc.ok,
        "xml-writer:not-well-formed",
        "an independent XML parser rejects the document: {}\n{}",
        doc.error.clone().unwrap_or_default(),
        text.chars().take(800).collect::<String>()
    );
    // every broken rule is looked at; failures that belong to a recorded finding are
    // deferred so that anything else in the same document is still reported first
    let mut deferred: Vec<Fail> = Vec::new();
    let defer = |key: &str| key == "xml-writer:CR-in-character-data" || key.starts_with("xml-writer:float-spelling:CoordinateFrame") || key.starts_with("xml-writer:float-spelling:OptionalCoordinateFrame");
    let mut float_spelling_props: std::collections::HashSet<String> = Default::default();
    for v in &doc.violations {
        let key = if v.contains("float spelling") {
            // keyed by the type element that carries the badly spelled number
            let element = v.split("(<").nth(1).and_then(|r| r.split(">)").next()).unwrap_or("?");
            if let Some(name) = v.strip_prefix("property ").and_then(|r| r.split(" (<").next()) {
                float_spelling_props.insert(name.to_string());
            }
            format!("xml-writer:float-spelling:{element}")
        } else {
            // drop the property name from the signature
            let rule = v.split("): ").last().unwrap_or(v);
            format!("xml-writer:must-rule:{}", crate::engine::normalise_msg(rule).chars().take(60).collect::<String>())
        };
        let f = Fail::new(key.clone(), format!("docs/xml.md MUST rule broken: {v}\n{}", text.chars().take(1200).collect::<String>()));
        if defer(&key) {
            deferred.push(f);
        } else {
            return Err(f);
        }
    }
    for n in &doc.notes {
        if n.contains("Color3uint8 top byte") {
            ctx.label("note:color3uint8_without_ff");
        }
        if n.contains("ExplicitAutoJoints") {
            ctx.label("note:no_explicit_auto_joints_meta");
        }
        if n.contains("undocumented element") {
            ctx.label("note:undocumented_element");
        }
    }
    // structure vs spec
    let written = f.written_preorder();
    let (_, kids) = f.child_table();
    ensure!(doc.roots.len() == f.roots.len(), "xml-writer:root-count", "{} Items at top level, {} roots written", doc.roots.len(), f.roots.len());
    // referent -> node
    let mut referent_node: HashMap<String, usize> = HashMap::new();
    {
        let mut stack: Vec<(usize, &PyItem)> = f.roots.iter().copied().zip(doc.roots.iter()).collect();
        while let Some((n, item)) = stack.pop() {
            if let Some(r) = &item.referent {
                referent_node.insert(r.clone(), n);
            }
            ensure!(item.children.len() == kids[n].len(), "xml-writer:child-count", "node {n}: {} child Items, {} children", item.children.len(), kids[n].len());
            for (c, ci) in kids[n].iter().zip(item.children.iter()) {
                stack.push((*c, ci));
            }
        }
    }
    let wset: std::collections::HashSet<usize> = written.iter().copied().collect();
    let norm = Norm { snap_rotation: false, nan_class: true, snap_in_attributes: true, extra_names_allowed: false };
    let mut element_kinds = std::collections::HashSet::new();
    let mut stack: Vec<(usize, &PyItem)> = f.roots.iter().copied().zip(doc.roots.iter()).collect();
    while let Some((n, item)) = stack.pop() {
        let node = &f.nodes[n];
        ensure!(item.class.as_deref() == Some(node.class.as_str()), "xml-writer:class", "node {n}: class {:?} written as {:?}", node.class, item.class);
        // Name
        let name_prop = item.props.iter().find(|p| p.name == "Name");
        match name_prop.map(|p| &p.value) {
            Some(PyVal::Val(GVal::String(s))) => {
                if *s != node.name {
                    let cr = node.name.contains('\r') && s.replace('\n', "") == node.name.replace(['\r', '\n'], "");
                    let f = Fail::new(
                        if cr { "xml-writer:CR-in-character-data" } else { "xml-writer:name" },
                        format!("node {n}: name {:?} reads back as {:?} through a conforming XML parser", node.name, s),
                    );
                    if cr {
                        deferred.push(f);
                    } else {
                        return Err(f);
                    }
                }
            }
            other => fail!("xml-writer:name", "node {n}: Name element is {other:?}"),
        }
        let mut expected: HashMap<String, GVal> = HashMap::new();
        for (pname, val) in &node.props {
            if let Some(view) = dbview::resolve(&node.class, pname) {
                if view.migration.is_some() {
                    continue;
                }
            }
            if let Some((ser_name, v)) = expected_document_value(&node.class, pname, val, case.write_unknown) {
                expected.insert(ser_name, v);
            }
        }
        for p in &item.props {
            if p.name == "Name" {
                continue;
            }
            element_kinds.insert(p.element.clone());
            let Some(want) = expected.remove(&p.name) else {
                fail!("xml-writer:unexpected-property", "node {n} ({}): document has property {:?} that the DOM did not", node.class, p.name)
            };
            let got: GVal = match &p.value {
                PyVal::Val(v) => v.clone(),
                PyVal::RefText(t) => {
                    if t == "null" {
                        GVal::Ref(GRef::None)
                    } else {
                        match referent_node.get(t) {
                            Some(i) => GVal::Ref(GRef::Node(*i)),
                            // a referent no Item carries: a reader resolves it to nothing
                            None => GVal::Ref(GRef::None),
                        }
                    }
                }
                PyVal::SharedKey(k) => match doc.shared.get(k) {
                    Some(b) => GVal::SharedString(b.clone()),
                    None => fail!("xml-writer:shared-string-undefined", "SharedString property {:?} uses key {k:?} that the dictionary does not define", p.name),
                },
                PyVal::ContentRef(_) => GVal::Content(GContent::Object(GRef::None)),
            };
            // refs leaving the written set are null
            let want = want.map_refs(&|r| match r {
                GRef::Node(i) if wset.contains(i) => GRef::Node(*i),
                _ => GRef::None,
            });
            if !oracle::val_matches(&want, &got, &norm) {
                let cr = matches!(&want, GVal::String(s) | GVal::ContentId(s) if s.contains('\r'))
                    || matches!(&want, GVal::Content(GContent::Uri(s)) if s.contains('\r'))
                    || matches!(&want, GVal::Font { family, cached, .. } if family.contains('\r') || cached.as_deref().unwrap_or("").contains('\r'));
                let key = if cr {
                    "xml-writer:CR-in-character-data".to_string()
                } else {
                    format!("xml-writer:value:{:?}", want.ty())
                };
                let f = Fail::new(key, format!("node {n} ({}): property {:?} (<{}>) holds {:?} in the document, the DOM had {:?}", node.class, p.name, p.element, got, want));
                if cr {
                    deferred.push(f);
                } else {
                    return Err(f);
                }
            }
        }
        if let Some((k, _)) = expected.iter().find(|(k, _)| !float_spelling_props.contains(*k)) {
            fail!("xml-writer:missing-property", "node {n} ({}): property {k:?} is not in the document", node.class);
        }
        for (c, ci) in kids[n].iter().zip(item.children.iter()) {
            stack.push((*c, ci));
        }
    }
    ctx.label_if(has_cr, "text_with_carriage_return");
    ctx.nontrivial_if(element_kinds.len() >= 5);
    ctx.label_if(element_kinds.len() >= 5, "document_with_5_type_elements");
    match deferred.into_iter().next() {
        Some(f) => Err(f),
        None => Ok(()),
    }
}

// ---------------------------------------------------------------------------
// reader direction

#[derive(Clone, Debug, Serialize, Deserialize)]
pub struct ReaderCase {
    pub forest: GForest,
    pub plan: DocPlan,
    pub read_unknown: bool,
}

pub fn plan_strategy() -> BoxedStrategy<DocPlan> {
    (
        (0u8..3, proptest::collection::vec(any::<u32>(), 0..5), any::<bool>(), any::<bool>(), any::<bool>(), 0u8..3),
        (any::<bool>(), any::<bool>(), any::<bool>(), any::<bool>(), any::<bool>(), any::<bool>(), any::<bool>()),
    )
        .prop_map(|((referent_style, prop_order, pretty, meta, external, float_style), (color_ff, protected_strings, wrap_base64, cdata_strings, dictionary_first, prolog, contentid_as_content))| DocPlan {
            referent_style,
            prop_order,
            pretty,
            meta,
            external,
            float_style,
            color_ff,
            protected_strings,
            wrap_base64,
            cdata_strings,
            brickcolor_as_int: true,
            dictionary_first,
            prolog,
            contentid_as_content,
        })
        .boxed()
}

fn reader_profile(max_nodes: usize, known_only: bool) -> ForestProfile {
    let mut p = xml_profile(max_nodes, known_only, TextMode::XmlNoCr);
    // types docs/xml.md does not describe cannot be rendered from the document
    p.types.retain(|t| !matches!(t, rbx_types::VariantType::SecurityCapabilities | rbx_types::VariantType::Vector2int16));
    p.free_roots = false;
    p.non_serializing = false;
    p.narrow_numbers = false;
    p.narrow_numbers = false;
    p
}

fn no_blob(_: &GVal) -> Option<Vec<u8>> {
    None
}

fn reader_body(case: &ReaderCase, ctx: &mut CaseCtx) -> PropResult {
    let f = &case.forest;
    classify_forest(f, ctx);
    let rendered = refxml::document(f, &case.plan);
    for d in &rendered.degrees {
        ctx.label(d);
    }
    ctx.nontrivial_if(rendered.degrees.len() >= 2);
    if rendered.skipped > 0 {
        ctx.excluded("property of a type docs/xml.md does not describe");
        return Ok(());
    }
    let opts = if case.read_unknown { Pairing::Unknown.options().1 } else { Pairing::Default.options().1 };
    let decoded = match read_xml(rendered.text.as_bytes(), opts) {
        Ok(d) => d,
        Err(mut e) => {
            e.key = e.key.replace("xml-decode-error", "foreign-xml-decode-error");
            e.msg = format!(
                "reader rejected a docs/xml.md-conformant document (styles {:?}): {}\n{}",
                rendered.degrees,
                e.msg,
                rendered.text.chars().take(1500).collect::<String>()
            );
            return Err(e);
        }
    };
    let mut exp = oracle::expect_roundtrip(f, Format::Xml, &no_blob);
    if !case.read_unknown {
        // default options drop properties unknown to the database
        drop_unknown(&mut exp.dom.roots);
    }
    let act = forest::observe(&decoded);
    if let Err((key, msg)) = oracle::compare_dom(&exp, &act, &Norm::xml()) {
        fail!(
            format!("foreign-xml:{key}"),
            "{msg} (styles {:?})\n{}",
            rendered.degrees,
            rendered.text.chars().take(1500).collect::<String>()
        );
    }
    Ok(())
}

fn drop_unknown(items: &mut [forest::CanonInst]) {
    let mut stack: Vec<&mut forest::CanonInst> = items.iter_mut().collect();
    while let Some(i) = stack.pop() {
        let class = i.class.clone();
        i.props.retain(|k, _| dbview::resolve(&class, k).is_some());
        for c in i.children.iter_mut() {
            stack.push(c);
        }
    }
}

pub fn run(ctx: &Ctx) -> PropertyReport {
    let mut rep = PropertyReport::new(
        "C05",
        "exploration",
        "writer direction: C02-style forests are written by rbx_xml; Python's expat parser checks well-formedness and a value decoder written from docs/xml.md rebuilds the document model \
         (roblox version 4, Items with class and file-unique non-null referent, exactly one Properties per Item, documented element name and child layout per type, floats as XSD decimals or \
         INF/-INF/NAN decoded exactly, SharedStrings dictionary); the model must equal the spec (serialized names through an independent resolver). Reader direction: a logical DOM and a document \
         plan (UUID-style or arbitrary referents, shuffled property order, indentation, Meta / External, forward references, ProtectedString, base64 wrapped at 72 columns, alternative float \
         spellings, Color3uint8 with FF top byte, optional CachedFaceId, CDATA strings, legacy Content element for ContentId, XML declaration + comment) rendered by a generator written from \
         docs/xml.md and decoded by rbx_xml. Non-trivial: writer - a document with >= 5 distinct type elements; reader - the plan deviates from rbx_xml's own style in >= 2 ways.",
    );
    rep.assume("only MUST-level rules of docs/xml.md are asserted; SHOULD / RECOMMENDED ones rbx_xml does not follow (no FF top byte in Color3uint8, no ExplicitAutoJoints Meta) are tallied as notes");
    rep.assume("UniqueId text uses the implementation's layout (Random unrotated); docs/xml.md says Random is rotated in XML - the same documentation / implementation disagreement reported under C03");
    rep.assume("SecurityCapabilities and Vector2int16 elements are not described by docs/xml.md; the writer direction decodes them by analogy and tallies them, the reader direction does not generate them");
    let sub = crate::engine::replay_subcheck_or_all(ctx);
    if sub.runs("writer") {
        let cases = ctx.cfg.cases(20_000, 2_000_000);
        let strat = || {
            (forest::forest(writer_profile(10, TextMode::Xml)), any::<bool>()).prop_map(|(forest, write_unknown)| WriterCase { forest, write_unknown })
        };
        let mut r = ctx.run_prop("writer", cases, strat, writer_body);
        r.floor("document_with_5_type_elements", cases / 20);
        r.floor("string_needs_cdata", cases / 50);
        rep.push(r);
    }
    if sub.runs("writer-large") {
        // long values, big tables, long names and columns of smallest values, judged by the same independent parser
        use super::c01::LargeCase;
        let mut cases: Vec<LargeCase> = Vec::new();
        for kind in ["String", "BinaryString", "SharedString", "NumberSequence", "ColorSequence"] {
            for n in [65_535usize, 65_536, 65_537, 200_001] {
                cases.push(LargeCase::LongValue { kind: kind.to_string(), n });
            }
        }
        cases.push(LargeCase::LongValue { kind: "SharedString".into(), n: 1_100_000 });
        cases.push(LargeCase::LongValue { kind: "BinaryString".into(), n: 1_100_000 });
        cases.extend(super::c01::more_large_cases(false).into_iter().filter(|c| match c {
            LargeCase::MinimalColumn { kind, n, .. } => !kind.ends_with("Sequence") && *n <= 257,
            LargeCase::ManyShared { n } | LargeCase::ManyProps { n } => *n <= 257,
            LargeCase::ManyEntries { n, .. } => *n <= 257,
            _ => true,
        }));
        let mut r = ctx.run_list("writer-large", cases, true, |c: &LargeCase, ctx: &mut CaseCtx| {
            ctx.nontrivial();
            writer_body(&WriterCase { forest: super::c01::large_forest(c), write_unknown: true }, ctx)
        });
        r.notes.push("the writer's documents for values longer than 64 KiB / 1 MiB, tables of 257 entries, names of up to 70 000 characters and columns of empty values".into());
        rep.push(r);
    }
    if sub.runs("reader-float-spellings") {
        let cases = ctx.cfg.cases(40_000, 4_000_000);
        let strat = || (any::<u32>(), any::<bool>(), 0u8..4, any::<bool>()).prop_map(|(bits, above, place, exponent_form)| FloatSpelling { bits, above, place, exponent_form });
        let mut r = ctx.run_prop("reader-float-spellings", cases, strat, float_spelling_body);
        r.floor("double_rounding_would_pick_the_other_neighbour", cases / 4);
        r.notes.push("decimals of 80+ digits just above / below the exact midpoint of two neighbouring f32 values, as <float>, Vector3 / UDim / Color3 components, plain and with an exponent; the nearest f32 is known by construction".into());
        rep.push(r);
    }
    if sub.runs("reader") {
        let cases = ctx.cfg.cases(40_000, 4_000_000);
        let strat = || {
            prop_oneof![
                (forest::forest(reader_profile(10, true)), plan_strategy()).prop_map(|(forest, plan)| ReaderCase { forest, plan, read_unknown: false }),
                (forest::forest(reader_profile(10, false)), plan_strategy()).prop_map(|(forest, plan)| ReaderCase { forest, plan: DocPlan { contentid_as_content: false, ..plan }, read_unknown: true }),
            ]
        };
        let mut r = ctx.run_prop("reader", cases, strat, reader_body);
        for l in ["non_numeric_referents", "shuffled_property_order", "indentation", "meta_element", "external_elements", "forward_reference", "alternative_float_spellings", "wrapped_base64", "cdata_strings", "xml_declaration_and_comment"] {
            r.floor(l, cases / 200);
        }
        rep.push(r);
    }
    rep
}

#[allow(dead_code)]
fn unused(_: vals::GRef) {}
