//! C03 — every binary file written is well-formed and means what docs/binary.md says.

use std::collections::{BTreeMap, HashMap, HashSet};

use rbx_types::VariantType;

use crate::dbview;
use crate::engine::{CaseCtx, Ctx, Fail, PropResult, PropertyReport};
use crate::gen::forest::{self, BuildMode, GForest};
use crate::gen::vals::{GContent, GRef, GVal};
use crate::oracle::{self, Norm};
use crate::spec::refbin::{self, BinModel, Column, Comp, Dialect, RawFile};
use crate::{ensure, fail};

use super::c01::{binary_profile, classify_forest, write_binary, COMPRESSIONS};

/// Wire type id of docs/binary.md for a serialized value type.
pub fn wire_type_id(t: VariantType) -> Option<u8> {
    Some(match t {
        VariantType::String
        | VariantType::BinaryString
        | VariantType::ContentId
        | VariantType::Tags
        | VariantType::Attributes
        | VariantType::MaterialColors => 0x01,
        VariantType::Bool => 0x02,
        VariantType::Int32 => 0x03,
        VariantType::Float32 => 0x04,
        VariantType::Float64 => 0x05,
        VariantType::UDim => 0x06,
        VariantType::UDim2 => 0x07,
        VariantType::Ray => 0x08,
        VariantType::Faces => 0x09,
        VariantType::Axes => 0x0a,
        VariantType::BrickColor => 0x0b,
        VariantType::Color3 => 0x0c,
        VariantType::Vector2 => 0x0d,
        VariantType::Vector3 => 0x0e,
        VariantType::CFrame => 0x10,
        VariantType::Enum => 0x12,
        VariantType::Ref => 0x13,
        VariantType::Vector3int16 => 0x14,
        VariantType::NumberSequence => 0x15,
        VariantType::ColorSequence => 0x16,
        VariantType::NumberRange => 0x17,
        VariantType::Rect => 0x18,
        VariantType::PhysicalProperties => 0x19,
        VariantType::Color3uint8 => 0x1a,
        VariantType::Int64 => 0x1b,
        VariantType::SharedString => 0x1c,
        VariantType::OptionalCFrame => 0x1e,
        VariantType::UniqueId => 0x1f,
        VariantType::Font => 0x20,
        VariantType::SecurityCapabilities => 0x21,
        VariantType::Content => 0x22,
        _ => return None,
    })
}

/// Structural well-formedness of the container and of the chunk set.
pub fn check_structure(raw: &RawFile, m: &BinModel, comp: Comp) -> Result<(), (String, String)> {
    let e = |k: &str, m: String| Err((format!("structure:{k}"), m));
    if raw.version != 0 {
        return e("version", format!("header version {}", raw.version));
    }
    if raw.header_reserved != [0u8; 8] {
        return e("header-reserved", "header reserved bytes not zero".into());
    }
    if raw.trailing != 0 {
        return e("trailing-bytes", format!("{} bytes after the END chunk", raw.trailing));
    }
    let last = raw.chunks.last().unwrap();
    if &last.name != b"END\0" || last.comp != Comp::None || last.data != b"</roblox>" {
        return e(
            "end-chunk",
            format!(
                "last chunk {:?} comp {:?} data {:?}",
                String::from_utf8_lossy(&last.name),
                last.comp,
                String::from_utf8_lossy(&last.data)
            ),
        );
    }
    for ch in &raw.chunks {
        if ch.reserved != 0 {
            return e("chunk-reserved", format!("chunk reserved field {}", ch.reserved));
        }
        if &ch.name != b"END\0" && ch.comp != comp {
            // an LZ4 block that happens to start with the zstd magic would be misread by any reader
            return e(
                "compression-kind",
                format!(
                    "chunk {:?} stored as {:?}, requested {:?}",
                    String::from_utf8_lossy(&ch.name),
                    ch.comp,
                    comp
                ),
            );
        }
        if ch.comp == Comp::None && ch.compressed_len != 0 {
            return e("compressed-len", "uncompressed chunk with non-zero compressed length".into());
        }
    }
    // File structure order: META? SSTR? INST* PROP* PRNT END
    let rank = |n: &str| match n {
        "META" => 0,
        "SSTR" => 1,
        "INST" => 2,
        "PROP" => 3,
        "PRNT" => 4,
        "END\0" => 5,
        _ => 9,
    };
    let mut last_rank = 0;
    for n in &m.order {
        let r = rank(n);
        if r == 9 {
            return e("unknown-chunk", format!("serializer wrote a chunk named {n:?}"));
        }
        if r < last_rank {
            return e("chunk-order", format!("chunk order {:?}", m.order));
        }
        last_rank = r;
    }
    if m.n_meta > 1 || m.n_sstr > 1 || m.n_prnt != 1 {
        return e(
            "chunk-multiplicity",
            format!("META x{} SSTR x{} PRNT x{}", m.n_meta, m.n_sstr, m.n_prnt),
        );
    }
    if !m.leftovers.is_empty() {
        return e("chunk-leftover", format!("unread bytes in chunks: {:?}", m.leftovers));
    }
    // header counts
    if raw.class_count as usize != m.classes.len() {
        return e(
            "class-count",
            format!("header says {} classes, {} INST chunks", raw.class_count, m.classes.len()),
        );
    }
    let n_inst: usize = m.classes.iter().map(|c| c.referents.len()).sum();
    if raw.instance_count as usize != n_inst {
        return e(
            "instance-count",
            format!("header says {} instances, INST chunks declare {}", raw.instance_count, n_inst),
        );
    }
    let mut ids = HashSet::new();
    let mut names = HashSet::new();
    let mut refs = HashSet::new();
    for c in &m.classes {
        if !ids.insert(c.id) {
            return e("class-id-unique", format!("class id {} used twice", c.id));
        }
        if !names.insert(c.name.clone()) {
            return e("one-inst-per-class", format!("two INST chunks for class {}", c.name));
        }
        if c.referents.is_empty() {
            return e("empty-class", format!("INST chunk for {} has no instances", c.name));
        }
        for r in &c.referents {
            if *r < 0 {
                return e("referent-negative", format!("referent {r}"));
            }
            if !refs.insert(*r) {
                return e("referent-unique", format!("referent {r} declared twice"));
            }
        }
        if c.object_format > 1 {
            return e("object-format", format!("object format {}", c.object_format));
        }
        if c.object_format == 1
            && (c.markers.len() != c.referents.len() || c.markers.iter().any(|m| *m != 1))
        {
            return e("service-markers", format!("markers {:?}", c.markers));
        }
    }
    // properties
    let mut seen = HashSet::new();
    for p in &m.props {
        let class = m.classes.iter().find(|c| c.id == p.class_id).unwrap();
        if !seen.insert((p.class_id, p.name.clone())) {
            return e(
                "one-prop-per-name",
                format!("two PROP chunks for {}.{}", class.name, p.name),
            );
        }
        let Some(ty) = p.type_id else {
            return e("prop-no-type", format!("{}.{} has no type id", class.name, p.name));
        };
        let Some(col) = &p.column else {
            return e(
                "prop-undocumented-type",
                format!("{}.{} uses type id {ty:#04x} that docs/binary.md does not define", class.name, p.name),
            );
        };
        if col.len() != class.referents.len() {
            return e(
                "one-value-per-instance",
                format!(
                    "{}.{}: {} values for {} instances",
                    class.name,
                    p.name,
                    col.len(),
                    class.referents.len()
                ),
            );
        }
        if p.leftover != 0 {
            return e(
                "prop-consumes-chunk",
                format!("{}.{}: {} bytes left after one value per instance", class.name, p.name, p.leftover),
            );
        }
        match col {
            Column::Bool(v) if v.iter().any(|b| *b > 1) => {
                return e("bool-byte", format!("{}.{}: bool bytes {:?}", class.name, p.name, v))
            }
            Column::Faces(v) if v.iter().any(|b| *b > 63) => {
                return e("faces-bits", format!("{}.{}: {:?}", class.name, p.name, v))
            }
            Column::Axes(v) if v.iter().any(|b| *b > 7) => {
                return e("axes-bits", format!("{}.{}: {:?}", class.name, p.name, v))
            }
            Column::SharedString(v) if v.iter().any(|i| *i as usize >= m.sstr.len()) => {
                return e(
                    "sstr-index",
                    format!("{}.{}: index out of the SSTR table ({} entries)", class.name, p.name, m.sstr.len()),
                )
            }
            Column::ColorSequence(v)
                if v.iter().any(|s| s.iter().any(|k| k.2 != 0)) =>
            {
                return e("colorsequence-envelope", format!("{}.{}: non-zero envelope", class.name, p.name))
            }
            Column::Content(c) => {
                let nu = c.source_types.iter().filter(|t| **t == 1).count();
                let no = c.source_types.iter().filter(|t| **t == 2).count();
                if c.source_types.iter().any(|t| !(0..=2).contains(t)) {
                    return e(
                        "content-source-type",
                        format!("{}.{}: source types {:?}", class.name, p.name, c.source_types),
                    );
                }
                if nu != c.uris.len() || no != c.objects.len() {
                    return e(
                        "content-counts",
                        format!(
                            "{}.{}: {} Uri / {} Object source types but {} uris / {} object refs",
                            class.name,
                            p.name,
                            nu,
                            no,
                            c.uris.len(),
                            c.objects.len()
                        ),
                    );
                }
            }
            _ => {}
        }
    }
    // every class has Name
    for c in &m.classes {
        if !m.props.iter().any(|p| p.class_id == c.id && p.name == "Name") {
            return e("name-column", format!("class {} has no Name column", c.name));
        }
    }
    // shared strings stored once
    let mut sset = HashSet::new();
    for (_, s) in &m.sstr {
        if !sset.insert(s.clone()) {
            return e("sstr-dedup", "a SharedString is stored twice in SSTR".into());
        }
    }
    if m.n_sstr == 1 && m.sstr_version != 0 {
        return e("sstr-version", format!("{}", m.sstr_version));
    }
    // PRNT
    if m.prnt_version != 0 {
        return e("prnt-version", format!("{}", m.prnt_version));
    }
    if m.prnt.len() != n_inst {
        return e(
            "prnt-count",
            format!("PRNT lists {} instances, file has {}", m.prnt.len(), n_inst),
        );
    }
    let mut position: HashMap<i32, usize> = HashMap::new();
    for (i, (child, _)) in m.prnt.iter().enumerate() {
        if !refs.contains(child) {
            return e("prnt-unknown-child", format!("PRNT child {child} was never declared"));
        }
        if position.insert(*child, i).is_some() {
            return e("prnt-child-once", format!("instance {child} appears twice in PRNT"));
        }
    }
    for (i, (child, parent)) in m.prnt.iter().enumerate() {
        if *parent == -1 {
            continue;
        }
        match position.get(parent) {
            None => return e("prnt-unknown-parent", format!("parent {parent} of {child} not in file")),
            Some(pp) => {
                if *pp <= i {
                    return e(
                        "prnt-children-before-parents",
                        format!("{child} (entry {i}) is listed after its parent {parent} (entry {pp})"),
                    );
                }
            }
        }
    }
    Ok(())
}

/// The value a column holds for instance `idx`, as a GVal whose Refs are
/// node indices in `node_of` (referent -> node index of the logical forest).
pub fn column_value(
    col: &Column,
    idx: usize,
    m: &BinModel,
    node_of: &dyn Fn(i32) -> GRef,
) -> Result<GVal, String> {
    Ok(match col {
        Column::String(v) | Column::Bytecode(v) => GVal::BinaryString(v[idx].clone()),
        Column::Bool(v) => GVal::Bool(v[idx] != 0),
        Column::Int32(v) => GVal::Int32(v[idx]),
        Column::Float32(v) => GVal::Float32(v[idx]),
        Column::Float64(v) => GVal::Float64(v[idx]),
        Column::UDim(v) => GVal::UDim(v[idx].0, v[idx].1),
        Column::UDim2(v) => GVal::UDim2(v[idx].0, v[idx].1, v[idx].2, v[idx].3),
        Column::Ray(v) => GVal::Ray(v[idx]),
        Column::Faces(v) => GVal::Faces(v[idx]),
        Column::Axes(v) => GVal::Axes(v[idx]),
        Column::BrickColor(v) => {
            if v[idx] > u16::MAX as u32 {
                return Err(format!("BrickColor number {}", v[idx]));
            }
            GVal::BrickColor(v[idx] as u16)
        }
        Column::Color3(v) => GVal::Color3(v[idx]),
        Column::Vector2(v) => GVal::Vector2(v[idx]),
        Column::Vector3(v) => GVal::Vector3(v[idx]),
        Column::CFrame(v) => GVal::CFrame(v[idx].clone()),
        Column::Enum(v) => GVal::Enum(v[idx]),
        Column::Ref(v) => GVal::Ref(node_of(v[idx])),
        Column::Vector3int16(v) => GVal::Vector3int16(v[idx]),
        Column::NumberSequence(v) => GVal::NumberSequence(v[idx].clone()),
        Column::ColorSequence(v) => {
            GVal::ColorSequence(v[idx].iter().map(|k| (k.0, k.1)).collect())
        }
        Column::NumberRange(v) => GVal::NumberRange(v[idx].0, v[idx].1),
        Column::Rect(v) => GVal::Rect(v[idx]),
        Column::PhysicalProperties(v) => GVal::PhysicalProperties(v[idx]),
        Column::Color3uint8(v) => GVal::Color3uint8(v[idx]),
        Column::Int64(v) => GVal::Int64(v[idx]),
        Column::SecurityCapabilities(v) => GVal::SecurityCapabilities(v[idx] as u64),
        Column::SharedString(v) => match m.sstr.get(v[idx] as usize) {
            Some((_, s)) => GVal::SharedString(s.clone()),
            None => return Err(format!("shared string index {} out of range", v[idx])),
        },
        Column::OptionalCFrame(v) => {
            if v[idx].0 == 0 {
                GVal::OptionalCFrame(None)
            } else {
                GVal::OptionalCFrame(Some(v[idx].1.clone()))
            }
        }
        Column::UniqueId(v) => GVal::UniqueId(v[idx].0, v[idx].1, v[idx].2),
        Column::Font(v) => {
            let (family, weight, style, cached) = v[idx].clone();
            GVal::Font {
                family,
                weight,
                style,
                cached: if cached.is_empty() { None } else { Some(cached) },
            }
        }
        Column::Content(c) => {
            // the k-th Uri / Object source type consumes the k-th uri / object ref
            let mut ui = 0;
            let mut oi = 0;
            for i in 0..idx {
                match c.source_types[i] {
                    1 => ui += 1,
                    2 => oi += 1,
                    _ => {}
                }
            }
            match c.source_types[idx] {
                0 => GVal::Content(GContent::None),
                1 => GVal::Content(GContent::Uri(
                    c.uris.get(ui).cloned().ok_or("uri list too short")?,
                )),
                2 => GVal::Content(GContent::Object(node_of(
                    *c.objects.get(oi).ok_or("object list too short")?,
                ))),
                t => return Err(format!("content source type {t}")),
            }
        }
    })
}

/// The spec value in wire form (what the column must hold).
pub fn expected_wire(val: &GVal, ser_ty: VariantType) -> GVal {
    match val {
        GVal::String(s) | GVal::ContentId(s) => GVal::BinaryString(s.as_bytes().to_vec()),
        GVal::Tags(t) => GVal::BinaryString(oracle::tags_blob(t)),
        GVal::MaterialColors(_) => GVal::BinaryString(oracle::material_colors_blob(val)),
        GVal::Attributes(_) => oracle::normalise_attributes(val),
        GVal::Color3(c) if ser_ty == VariantType::Color3uint8 => GVal::Color3uint8([
            oracle::quantise(c[0]),
            oracle::quantise(c[1]),
            oracle::quantise(c[2]),
        ]),
        // a narrower number given for a 64-bit property is stored widened
        GVal::Int32(i) if ser_ty == VariantType::Int64 => GVal::Int64(*i as i64),
        GVal::Float32(b) if ser_ty == VariantType::Float64 => GVal::Float64((f32::from_bits(*b) as f64).to_bits()),
        other => other.clone(),
    }
}

pub struct Meaning {
    /// node index (spec) per referent
    pub node_of_ref: HashMap<i32, usize>,
}

/// Compare the logical content of the file with the spec.
pub fn check_meaning(
    f: &GForest,
    m: &BinModel,
    dialect_is_doc: bool,
    ctx: &mut CaseCtx,
) -> Result<(), (String, String)> {
    let e = |k: String, msg: String| Err((format!("meaning:{k}"), msg));
    // tree of the file: roots in PRNT order, children in PRNT order
    let mut file_children: HashMap<i32, Vec<i32>> = HashMap::new();
    let mut file_roots: Vec<i32> = Vec::new();
    for (child, parent) in &m.prnt {
        if *parent == -1 {
            file_roots.push(*child);
        } else {
            file_children.entry(*parent).or_default().push(*child);
        }
    }
    let mut class_of: HashMap<i32, (usize, usize)> = HashMap::new();
    for (ci, c) in m.classes.iter().enumerate() {
        for (ii, r) in c.referents.iter().enumerate() {
            class_of.insert(*r, (ci, ii));
        }
    }
    let (_, kids) = f.child_table();
    if file_roots.len() != f.roots.len() {
        return e(
            "root-count".into(),
            format!("{} roots in file, {} written", file_roots.len(), f.roots.len()),
        );
    }
    // map spec nodes <-> referents by walking both forests
    let mut node_ref: HashMap<usize, i32> = HashMap::new();
    let mut stack: Vec<(usize, i32)> = f.roots.iter().copied().zip(file_roots.iter().copied()).collect();
    while let Some((n, r)) = stack.pop() {
        node_ref.insert(n, r);
        let fc = file_children.get(&r).cloned().unwrap_or_default();
        if fc.len() != kids[n].len() {
            return e(
                "child-count".into(),
                format!("node {n} ({}) has {} children, file says {}", f.nodes[n].class, kids[n].len(), fc.len()),
            );
        }
        for (cn, cr) in kids[n].iter().zip(fc.iter()) {
            stack.push((*cn, *cr));
        }
    }
    let ref_node: HashMap<i32, usize> = node_ref.iter().map(|(n, r)| (*r, *n)).collect();
    let node_of = |r: i32| -> GRef {
        if r == -1 {
            GRef::None
        } else {
            match ref_node.get(&r) {
                Some(n) => GRef::Node(*n),
                None => GRef::Dangling,
            }
        }
    };
    let map_ref = |r: &GRef| match r {
        GRef::Node(i) if node_ref.contains_key(i) => GRef::Node(*i),
        _ => GRef::None,
    };

    for (n, r) in &node_ref {
        let node = &f.nodes[*n];
        let (ci, ii) = class_of[r];
        let class = &m.classes[ci];
        if class.name != node.class {
            return e("class".into(), format!("node {n}: class {:?} stored as {:?}", node.class, class.name));
        }
        let service = dbview::db()
            .classes
            .get(node.class.as_str())
            .map(|c| c.tags.contains(&rbx_reflection::ClassTag::Service))
            .unwrap_or(false);
        if (class.object_format == 1) != service {
            return e(
                "object-format".into(),
                format!("class {} service={} but object format {}", class.name, service, class.object_format),
            );
        }
        let col_of = |name: &str| m.props.iter().find(|p| p.class_id == class.id && p.name == name);
        // Name
        match col_of("Name").and_then(|p| p.column.as_ref()) {
            Some(Column::String(v)) => {
                if v[ii] != node.name.as_bytes() {
                    return e("name".into(), format!("node {n}: name {:?} stored as {:?}", node.name, String::from_utf8_lossy(&v[ii])));
                }
            }
            other => return e("name-type".into(), format!("Name column is {:?}", other.map(|c| c.type_id()))),
        }
        let mut seen_ser: BTreeMap<String, ()> = BTreeMap::new();
        for (pname, val) in &node.props {
            let (ser_name, ser_ty) = match dbview::resolve(&node.class, pname) {
                None => (pname.clone(), val.ty()),
                Some(view) => match &view.ser {
                    None => continue,
                    Some(ser) => (ser.name.clone(), ser.ty.variant_type()),
                },
            };
            if seen_ser.insert(ser_name.clone(), ()).is_some() {
                continue;
            }
            let Some(prop) = col_of(&ser_name) else {
                return e(
                    format!("missing-column:{:?}", val.ty()),
                    format!("{}.{pname}: no PROP chunk named {ser_name:?}", node.class),
                );
            };
            let want_ty = wire_type_id(ser_ty);
            if prop.type_id != want_ty {
                return e(
                    format!("wire-type:{:?}", ser_ty),
                    format!("{}.{ser_name}: wire type {:?}, the document says {:?} for {:?}", node.class, prop.type_id, want_ty, ser_ty),
                );
            }
            let col = prop.column.as_ref().unwrap();
            ctx.label(type_label(col.type_id()));
            if matches!(col, Column::SecurityCapabilities(_)) {
                ctx.excluded("SecurityCapabilities column: undocumented type, structure only");
                continue;
            }
            let act = match column_value(col, ii, m, &node_of) {
                Ok(v) => v,
                Err(msg) => return e("column-value".into(), format!("{}.{ser_name}: {msg}", node.class)),
            };
            let exp = expected_wire(&val.map_refs(&map_ref), ser_ty);
            if !oracle::val_matches(&exp, &act, &Norm::binary()) {
                let field = match col {
                    Column::UniqueId(_) if dialect_is_doc => "UniqueId.Random".to_string(),
                    Column::Content(_) if dialect_is_doc => "Content.SourceTypes".to_string(),
                    _ => format!("{:?}", ser_ty),
                };
                return e(
                    format!("value:{field}"),
                    format!("{}.{ser_name}: spec {:?} but the file holds {:?}", node.class, exp, act),
                );
            }
        }
    }
    Ok(())
}

pub fn type_label(id: u8) -> &'static str {
    match id {
        0x01 => "wire:String",
        0x02 => "wire:Bool",
        0x03 => "wire:Int32",
        0x04 => "wire:Float32",
        0x05 => "wire:Float64",
        0x06 => "wire:UDim",
        0x07 => "wire:UDim2",
        0x08 => "wire:Ray",
        0x09 => "wire:Faces",
        0x0a => "wire:Axes",
        0x0b => "wire:BrickColor",
        0x0c => "wire:Color3",
        0x0d => "wire:Vector2",
        0x0e => "wire:Vector3",
        0x10 => "wire:CFrame",
        0x12 => "wire:Enum",
        0x13 => "wire:Ref",
        0x14 => "wire:Vector3int16",
        0x15 => "wire:NumberSequence",
        0x16 => "wire:ColorSequence",
        0x17 => "wire:NumberRange",
        0x18 => "wire:Rect",
        0x19 => "wire:PhysicalProperties",
        0x1a => "wire:Color3uint8",
        0x1b => "wire:Int64",
        0x1c => "wire:SharedString",
        0x1e => "wire:OptionalCFrame",
        0x1f => "wire:UniqueId",
        0x20 => "wire:Font",
        0x21 => "wire:SecurityCapabilities",
        0x22 => "wire:Content",
        _ => "wire:other",
    }
}

pub fn comp_of(c: rbx_binary::CompressionType) -> Comp {
    match c {
        rbx_binary::CompressionType::Lz4 => Comp::Lz4,
        rbx_binary::CompressionType::None => Comp::None,
        rbx_binary::CompressionType::Zstd => Comp::Zstd,
    }
}

pub fn body(f: &GForest, ctx: &mut CaseCtx) -> PropResult {
    classify_forest(f, ctx);
    // one case in eight runs after failed saves on this thread (state surviving a failed call would corrupt this save)
    {
        let h = f.nodes.len() as u64 * 31 + f.nodes.iter().map(|n| n.props.len() as u64 * 7 + n.name.len() as u64).sum::<u64>();
        if h % 8 == 3 && super::c07::provoke_failed_saves(h.wrapping_mul(0x9E37_79B9_7F4A_7C15)) > 0 {
            ctx.label("after_failed_saves_on_this_thread");
        }
    }
    let built = forest::build(f, BuildMode::Builder, None);
    let roots = built.root_refs(f);
    let mut deferred: Option<Fail> = None;
    for (comp, cname) in COMPRESSIONS {
        let bytes = match write_binary(&built.dom, &roots, comp) {
            Ok(b) => b,
            Err(fail) if fail.key.starts_with("serialize-error") => {
                // the property quantifies over DOMs for which serialization returns Ok
                ctx.excluded("serializer returned Err");
                return Ok(());
            }
            Err(fail) => return Err(fail),
        };
        let raw = match refbin::parse_container(&bytes) {
            Ok(r) => r,
            Err(msg) => fail!("container", "[{cname}] reference decoder rejects the container: {msg}"),
        };
        // 1. the document's own layout
        let doc = refbin::decode_model(&raw, Dialect::doc());
        let model_doc = match doc {
            Ok(m) => m,
            Err(msg) => fail!("decode", "[{cname}] reference decoder (docs/binary.md) rejects the file: {msg}"),
        };
        let mut doc_fail: Option<Fail> = None;
        let doc_result = match check_structure(&raw, &model_doc, comp_of(comp)) {
            Ok(()) => check_meaning(f, &model_doc, true, &mut CaseCtx::default()),
            Err(e) => Err(e),
        };
        if let Err((key, msg)) = doc_result {
            // only the two documented-vs-implemented layout disagreements may be
            // retried under the implementation's dialect
            let field = match key.as_str() {
                "meaning:value:UniqueId.Random" => Some("UniqueId.Random"),
                "meaning:value:Content.SourceTypes"
                | "structure:content-source-type"
                | "structure:content-counts" => Some("Content.SourceTypes"),
                _ => None,
            };
            match field {
                Some(field) => {
                    doc_fail = Some(Fail::new(
                        format!("doc-vs-code:{field}"),
                        format!("[{cname}] read as docs/binary.md describes it: {msg}"),
                    ));
                }
                None => fail!(key, "[{cname}] {msg}"),
            }
        }
        if let Some(df) = doc_fail {
            // 2. the implementation's layout, so that the search continues past the finding
            let model_impl = match refbin::decode_model(&raw, Dialect::implementation()) {
                Ok(m) => m,
                Err(msg) => fail!("decode", "[{cname}] reference decoder (implementation dialect) rejects the file: {msg}"),
            };
            if let Err((key, msg)) = check_structure(&raw, &model_impl, comp_of(comp)) {
                fail!(key, "[{cname}] {msg}");
            }
            if let Err((key, msg)) = check_meaning(f, &model_impl, false, ctx) {
                fail!(key, "[{cname}] {msg}");
            }
            ctx.label("doc_vs_code_disagreement_met");
            deferred = Some(df);
        } else {
            // record coverage labels
            let _ = check_meaning(f, &model_doc, true, ctx);
        }
        ctx.add_evals(1);
    }
    match deferred {
        Some(df) => Err(df),
        None => Ok(()),
    }
}

pub fn run(ctx: &Ctx) -> PropertyReport {
    let mut rep = PropertyReport::new(
        "C03",
        "exploration",
        "random instance forests (as C01) serialized by rbx_binary under the 3 compression modes; every file is parsed by an independent \
         decoder written from docs/binary.md, which checks container framing, header counts, chunk order/multiplicity, one INST per class, \
         one value per instance per PROP consuming the chunk exactly, PRNT completeness with children before parents, SSTR de-duplication, \
         END chunk; then the recovered classes / hierarchy / property values are compared with the spec (serialized names and wire types \
         through an independent database resolver). Non-trivial as in C01.",
    );
    for a in refbin::ASSUMPTIONS {
        rep.assume(a);
    }
    let sub = crate::engine::replay_subcheck_or_all(ctx);
    if sub.runs("wellformed") {
        let cases = ctx.cfg.cases(30_000, 600_000);
        let max_nodes = ctx.cfg.tier.pick(16, 40);
        let mut r = ctx.run_prop(
            "wellformed",
            cases,
            || forest::forest(binary_profile(max_nodes)),
            body,
        );
        // coverage of the documented wire types
        let mut missing = Vec::new();
        for id in [
            0x01u8, 0x02, 0x03, 0x04, 0x05, 0x06, 0x07, 0x08, 0x09, 0x0a, 0x0b, 0x0c, 0x0d, 0x0e,
            0x10, 0x12, 0x13, 0x14, 0x15, 0x16, 0x17, 0x18, 0x19, 0x1a, 0x1b, 0x1c, 0x1e, 0x1f,
            0x20, 0x22,
        ] {
            if !r.labels.contains_key(type_label(id)) {
                missing.push(type_label(id));
            }
        }
        if !missing.is_empty() && r.failures.is_empty() {
            r.inconclusive
                .push(format!("wire types never produced: {missing:?}"));
        }
        rep.push(r);
    }
    if sub.runs("large") {
        // files whose arrays are longer than any block an encoder could stage them through
        use super::c01::LargeCase;
        let mut cases = vec![
            LargeCase::ManyInstances { n: 4_097 },
            LargeCase::ManyInstances { n: 8_193 },
            LargeCase::ManyInstances { n: 16_385 },
            LargeCase::ManyInstances { n: 65_537 },
            LargeCase::ManyClasses { n: 16_385 },
        ];
        for kind in ["BinaryString", "SharedString", "NumberSequence", "ColorSequence", "ContentId"] {
            cases.push(LargeCase::LongValue { kind: kind.to_string(), n: 65_537 });
        }
        cases.extend(super::c01::more_large_cases(false));
        rep.push(ctx.run_list("large", cases, true, |c: &LargeCase, ctx: &mut CaseCtx| {
            body(&super::c01::large_forest(c), ctx)?;
            ctx.nontrivial();
            Ok(())
        }));
    }
    rep
}
