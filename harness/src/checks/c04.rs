//! C04 — the binary reader accepts any spec-conformant file, not only its own output.

use proptest::prelude::*;
use proptest::sample::select;
use serde::{Deserialize, Serialize};

use crate::engine::{CaseCtx, Ctx, PropResult, PropertyReport};
use crate::gen::forest::{self, GForest};
use crate::gen::vals::{self, GVal};
use crate::oracle::{self, Format, Norm};
use crate::spec::binbuild::{self, ExtraKind, ExtraProp, Plan};
use crate::spec::refbin::{Comp, Dialect};
use crate::fail;

use super::c01::{binary_profile, classify_forest, read_binary};

#[derive(Clone, Debug, Serialize, Deserialize)]
pub struct Case {
    pub forest: GForest,
    pub plan: Plan,
}

pub fn comp_strategy() -> BoxedStrategy<Vec<Comp>> {
    prop_oneof![
        1 => Just(vec![Comp::None]),
        1 => Just(vec![Comp::Lz4]),
        1 => Just(vec![Comp::Zstd]),
        4 => proptest::collection::vec(select(vec![Comp::None, Comp::Lz4, Comp::Zstd]), 1..7),
    ]
    .boxed()
}

/// type ids the document does not define (0x1d Bytecode is defined, but like
/// every reader that ignores bytecode rbx_binary must skip it without harm)
fn undefined_type_id() -> BoxedStrategy<u8> {
    prop_oneof![
        select(vec![0x00u8, 0x0f, 0x11, 0x1d, 0x23, 0x24, 0x7f, 0x80, 0xff]),
        (0x23u8..=0xff),
    ]
    .boxed()
}

pub fn plan_strategy() -> BoxedStrategy<Plan> {
    let junk_name = prop_oneof![
        select(vec![*b"SIGN", *b"XXXX", *b"inst", *b"PRO\0", *b"\0\0\0\0", *b"END!", *b"MET!", *b"end\0"]),
        any::<[u8; 4]>().prop_map(|mut n| {
            // keep clear of the six names the document defines
            if [*b"META", *b"SSTR", *b"INST", *b"PROP", *b"PRNT", *b"END\0"].contains(&n) {
                n[0] ^= 0x20;
            }
            n
        }),
    ];
    let extra = (
        any::<u16>(),
        select(vec!["ZzExtraA", "ZzExtraB", "ZzExtraC", "ZzExtraD"]),
        prop_oneof![
            Just(ExtraKind::Truncated),
            (undefined_type_id(), vals::bytes(40)).prop_map(|(id, p)| ExtraKind::UnknownType(id, p)),
        ],
    )
        .prop_map(|(class_sel, name, kind)| ExtraProp {
            class_sel,
            name: name.to_string(),
            kind,
        });
    (
        comp_strategy(),
        prop_oneof![1 => Just(vec![]), 3 => proptest::collection::vec(any::<u32>(), 1..12)],
        proptest::collection::vec(any::<u32>(), 1..12),
        any::<bool>(),
        proptest::option::of(proptest::collection::vec(
            (
                select(vec!["ExplicitAutoJoints", "Other", ""]),
                select(vec!["true", "false", ""]),
            ),
            0..3,
        )),
        proptest::collection::vec((any::<u16>(), junk_name, vals::bytes(60)), 0..3),
        any::<bool>(),
        proptest::collection::vec(extra, 0..3),
        prop_oneof![2 => Just(0u8), 3 => 0u8..8],
    )
        .prop_map(|(comp, order_keys, id_keys, sparse_ids, meta, junk, narrow, mut extra, sstr_mode)| {
            // extra property names must be distinct per class: keep distinct names overall
            extra.sort_by(|a, b| a.name.cmp(&b.name));
            extra.dedup_by(|a, b| a.name == b.name);
            Plan {
                comp,
                order_keys,
                id_keys,
                sparse_ids,
                meta: meta.map(|m| {
                    m.into_iter()
                        .map(|(k, v)| (k.to_string(), v.to_string()))
                        .collect()
                }),
                junk,
                narrow,
                extra,
                sstr_mode,
            }
        })
        .boxed()
}

fn attr_blob(v: &GVal) -> Option<Vec<u8>> {
    match v {
        GVal::Attributes(e) => crate::spec::refattr::encode(e).ok(),
        _ => None,
    }
}

pub fn body(case: &Case, ctx: &mut CaseCtx) -> PropResult {
    let complete = binbuild::complete_columns(&case.forest);
    classify_forest(&complete, ctx);
    let built = match binbuild::encode(&complete, &case.plan, Dialect::implementation()) {
        Ok(b) => b,
        Err(e) => fail!("harness-encode", "reference encoder failed: {e}"),
    };
    for d in &built.degrees {
        ctx.label(d);
    }
    ctx.nontrivial_if(built.degrees.len() >= 2);
    let decoded = match read_binary(&built.bytes) {
        Ok(d) => d,
        Err(mut f) => {
            f.key = f.key.replace("decode-error", "foreign-decode-error");
            f.msg = format!(
                "reader rejected a spec-conformant file (degrees of freedom used: {:?}): {}",
                built.degrees, f.msg
            );
            return Err(f);
        }
    };
    let exp = oracle::expect_roundtrip(&built.logical, Format::Binary, &attr_blob);
    let act = forest::observe(&decoded);
    let norm = Norm {
        extra_names_allowed: false,
        ..Norm::binary()
    };
    if let Err((key, msg)) = oracle::compare_dom(&exp, &act, &norm) {
        fail!(
            format!("foreign:{key}"),
            "{msg} (degrees of freedom used: {:?})",
            built.degrees
        );
    }
    Ok(())
}

pub fn case_strategy(max_nodes: usize) -> BoxedStrategy<Case> {
    let mut p = binary_profile(max_nodes);
    // the reference encoder builds columns of the declared wire type
    p.narrow_numbers = false;
    p.free_roots = false;
    (forest::forest(p), plan_strategy())
        .prop_map(|(forest, plan)| Case { forest, plan })
        .boxed()
}

pub fn run(ctx: &Ctx) -> PropertyReport {
    let mut rep = PropertyReport::new(
        "C04",
        "exploration",
        "logical DOM spec + encoding plan (per-chunk compression none/LZ4/Zstd mixed, INST / PROP chunk order, arbitrary class ids and \
         sparse unsorted referents, PRNT entry order (which defines sibling order), META, unknown chunk names with random payloads, \
         service-format INST chunks, SSTR tables with zero hash fields / duplicate and unreferenced entries / zero entries, Int32-for-Int64 and Float32-for-Float64 columns, truncated and unknown-type PROP chunks for extra names), \
         rendered by an independent encoder written from docs/binary.md and decoded by rbx_binary; decoded DOM must equal the logical DOM. \
         Non-trivial = the plan departs from rbx_binary's own layout in >= 2 degrees of freedom.",
    );
    rep.assume("the file uses the implementation's UniqueId.Random / Content.SourceTypes layout; the disagreement with docs/binary.md is reported once, under C03");
    rep.assume("INST chunks precede PROP chunks, META and SSTR come first (docs/binary.md 'File Structure'); order is varied within each group");
    let sub = crate::engine::replay_subcheck_or_all(ctx);
    if sub.runs("foreign") {
        let cases = ctx.cfg.cases(40_000, 1_000_000);
        let max_nodes = ctx.cfg.tier.pick(14, 40);
        let mut r = ctx.run_prop("foreign", cases, || case_strategy(max_nodes), body);
        for l in [
            "mixed_compression",
            "zstd_chunk",
            "inst_chunk_order",
            "prop_chunk_order",
            "prnt_order",
            "sparse_unsorted_referents",
            "arbitrary_class_ids",
            "meta_chunk",
            "unknown_chunk_names",
            "int32_for_int64",
            "float32_for_float64",
            "truncated_prop_chunk",
            "unknown_type_prop_chunk",
            "service_format_inst",
            "sstr_duplicates_and_unreferenced",
            "sstr_hashes_zero",
            "sstr_chunk_of_zero_entries",
        ] {
            let rare = matches!(l, "int32_for_int64" | "float32_for_float64");
            r.floor(l, if rare { cases / 2000 } else { cases / 400 });
        }
        rep.push(r);
    }
    rep
}
