//! C07 — serializer output is deterministic and stable under re-save.

use std::io::Write;
use std::process::{Command, Stdio};

use proptest::prelude::*;
use serde::{Deserialize, Serialize};

use crate::engine::{CaseCtx, Ctx, Fail, PropResult, PropertyReport};
use crate::gen::forest::{self, BuildMode, GForest};
use crate::gen::vals::TextMode;
use crate::spec::binbuild;
use crate::spec::refbin::Dialect;
use crate::{ensure, fail};

use super::c01::{binary_profile, classify_forest, read_binary, write_binary, COMPRESSIONS};
use super::c02::{read_xml, write_xml, Pairing};

#[derive(Clone, Debug, Serialize, Deserialize)]
pub struct Variant {
    pub mode: BuildMode,
    /// keys ordering the property insertion of every node
    pub order_keys: Vec<u32>,
}

#[derive(Clone, Debug, Serialize, Deserialize)]
pub struct DetCase {
    pub forest: GForest,
    pub variants: Vec<Variant>,
}

fn prop_orders(f: &GForest, keys: &[u32]) -> Vec<Vec<usize>> {
    f.nodes
        .iter()
        .enumerate()
        .map(|(ni, n)| {
            let mut idx: Vec<usize> = (0..n.props.len()).collect();
            if !keys.is_empty() {
                idx.sort_by_key(|i| {
                    keys[(ni + *i) % keys.len()]
                        .wrapping_mul(2654435761)
                        .wrapping_add((*i as u32) << 3)
                });
            }
            idx
        })
        .collect()
}

/// The four outputs (binary x3 compressions, XML with WriteUnknown) of one construction.
pub fn outputs(f: &GForest, v: &Variant) -> Result<Vec<Vec<u8>>, Fail> {
    let orders = prop_orders(f, &v.order_keys);
    let built = forest::build(f, v.mode, Some(&orders));
    let roots = built.root_refs(f);
    let mut out = Vec::new();
    for (comp, _) in COMPRESSIONS {
        out.push(write_binary(&built.dom, &roots, comp)?);
    }
    out.push(write_xml(&built.dom, &roots, Pairing::Unknown.options().0)?);
    Ok(out)
}

pub fn det_profile(max_nodes: usize) -> forest::ForestProfile {
    let mut p = binary_profile(max_nodes);
    // both codecs are in the loop: XML-legal text, XML-supported types, no Content::Object
    p.vals = crate::gen::vals::ValProfile::xml();
    p.vals.min_keypoints = 2;
    p.types = crate::gen::vals::xml_types()
        .into_iter()
        .filter(|t| crate::gen::vals::binary_types().contains(t))
        .collect();
    p.ident_text = TextMode::Xml;
    p
}

pub fn variant_strategy() -> BoxedStrategy<Variant> {
    (
        prop_oneof![Just(BuildMode::Builder), Just(BuildMode::InsertEach), Just(BuildMode::InsertThenMove)],
        proptest::collection::vec(any::<u32>(), 0..6),
    )
        .prop_map(|(mode, order_keys)| Variant { mode, order_keys })
        .boxed()
}

pub fn det_case(max_nodes: usize) -> BoxedStrategy<DetCase> {
    (
        forest::forest(det_profile(max_nodes)),
        proptest::collection::vec(variant_strategy(), 2..5),
    )
        .prop_map(|(forest, variants)| DetCase { forest, variants })
        .boxed()
}

fn skip_unserializable(r: Result<Vec<Vec<u8>>, Fail>, ctx: &mut CaseCtx) -> Result<Option<Vec<Vec<u8>>>, Fail> {
    match r {
        Ok(o) => Ok(Some(o)),
        Err(f) if f.key.starts_with("serialize-error") || f.key.starts_with("xml-encode-error") => {
            ctx.excluded("not serializable");
            Ok(None)
        }
        Err(f) => Err(f),
    }
}

const NAMES: [&str; 4] = ["binary-lz4", "binary-none", "binary-zstd", "xml"];

fn classify(case: &DetCase, ctx: &mut CaseCtx) {
    classify_forest(&case.forest, ctx);
    let multi_prop = case.forest.nodes.iter().any(|n| n.props.len() >= 2);
    let modes: std::collections::HashSet<_> = case.variants.iter().map(|v| format!("{:?}", v.mode)).collect();
    let reordered = case.variants.iter().any(|v| !v.order_keys.is_empty());
    let classes: std::collections::HashSet<_> = case.forest.nodes.iter().map(|n| n.class.as_str()).collect();
    ctx.label_if(multi_prop && reordered, "property_insertion_order_varied");
    ctx.label_if(modes.len() >= 2, "construction_path_varied");
    ctx.label_if(classes.len() >= 2, "several_classes");
    ctx.nontrivial_if(((multi_prop && reordered) || modes.len() >= 2) && (classes.len() >= 2 || case.forest.nodes.len() >= 3));
}

fn inprocess_body(case: &DetCase, ctx: &mut CaseCtx) -> PropResult {
    classify(case, ctx);
    let Some(base) = skip_unserializable(outputs(&case.forest, &case.variants[0]), ctx)? else { return Ok(()) };
    for v in &case.variants[1..] {
        let Some(o) = skip_unserializable(outputs(&case.forest, v), ctx)? else { return Ok(()) };
        for k in 0..4 {
            ensure!(
                o[k] == base[k],
                format!("determinism:in-process:{}", NAMES[k]),
                "{} output differs between construction {:?} and {:?} of the same logical tree ({} vs {} bytes)",
                NAMES[k],
                case.variants[0],
                v,
                base[k].len(),
                o[k].len()
            );
        }
        ctx.add_evals(1);
    }
    Ok(())
}

// ---------------------------------------------------------------------------
// cross-process: the harness re-executes itself (`rbxverif emit`); every process has
// its own hash seeds

pub fn emit_main() -> ! {
    let mut text = String::new();
    std::io::Read::read_to_string(&mut std::io::stdin(), &mut text).expect("stdin");
    let cases: Vec<DetCase> = serde_json::from_str(&text).expect("cases");
    let mut out = Vec::new();
    for case in &cases {
        let o = outputs(&case.forest, &case.variants[0]);
        out.push(match o {
            Ok(o) => Some(o),
            Err(_) => None,
        });
    }
    let s = serde_json::to_vec(&out).unwrap();
    std::io::stdout().write_all(&s).unwrap();
    std::process::exit(0);
}

#[derive(Clone, Debug, Serialize, Deserialize)]
pub struct Batch {
    pub cases: Vec<DetCase>,
}

fn run_emit(cases: &[DetCase]) -> Result<Vec<Option<Vec<Vec<u8>>>>, Fail> {
    let exe = std::env::current_exe().map_err(|e| Fail::new("harness:emit", e.to_string()))?;
    let mut child = Command::new(exe)
        .arg("emit")
        .stdin(Stdio::piped())
        .stdout(Stdio::piped())
        .stderr(Stdio::null())
        .spawn()
        .map_err(|e| Fail::new("harness:emit", e.to_string()))?;
    let input = serde_json::to_vec(cases).unwrap();
    let mut stdin = child.stdin.take().unwrap();
    let writer = std::thread::spawn(move || {
        let _ = stdin.write_all(&input);
    });
    let out = child.wait_with_output().map_err(|e| Fail::new("harness:emit", e.to_string()))?;
    let _ = writer.join();
    serde_json::from_slice(&out.stdout).map_err(|e| Fail::new("harness:emit", format!("child output unreadable: {e}")))
}

fn crossprocess_body(batch: &Batch, ctx: &mut CaseCtx) -> PropResult {
    for c in &batch.cases {
        classify(c, ctx);
    }
    let mine: Vec<Option<Vec<Vec<u8>>>> = batch
        .cases
        .iter()
        .map(|c| outputs(&c.forest, &c.variants[0]).ok())
        .collect();
    for round in 0..2 {
        let theirs = run_emit(&batch.cases)?;
        ensure!(theirs.len() == mine.len(), "harness:emit", "child answered {} of {} cases", theirs.len(), mine.len());
        for (i, (a, b)) in mine.iter().zip(theirs.iter()).enumerate() {
            match (a, b) {
                (Some(a), Some(b)) => {
                    for k in 0..4 {
                        ensure!(
                            a[k] == b[k],
                            format!("determinism:cross-process:{}", NAMES[k]),
                            "{} output of case #{i} differs between two processes (round {round}; {} vs {} bytes)",
                            NAMES[k],
                            a[k].len(),
                            b[k].len()
                        );
                    }
                }
                (None, None) => {}
                _ => fail!("determinism:cross-process:success", "case #{i} serializes in one process and fails in another"),
            }
        }
        ctx.add_evals(batch.cases.len() as u64);
    }
    Ok(())
}

// ---------------------------------------------------------------------------
// re-save fixed point

#[derive(Clone, Debug, Serialize, Deserialize)]
pub enum Source {
    Own,
    Foreign(binbuild::Plan),
}

#[derive(Clone, Debug, Serialize, Deserialize)]
pub struct ResaveCase {
    pub forest: GForest,
    pub source: Source,
}

fn save_binary(dom: &rbx_dom_weak::WeakDom, comp: rbx_binary::CompressionType) -> Result<Vec<u8>, Fail> {
    write_binary(dom, dom.root().children(), comp)
}

fn save_xml(dom: &rbx_dom_weak::WeakDom) -> Result<Vec<u8>, Fail> {
    write_xml(dom, dom.root().children(), Pairing::Unknown.options().0)
}

fn resave_body(case: &ResaveCase, ctx: &mut CaseCtx) -> PropResult {
    classify_forest(&case.forest, ctx);
    ctx.nontrivial_if(case.forest.nodes.len() >= 2);
    // F: the first file
    let (bin_f, xml_f) = match &case.source {
        Source::Own => {
            ctx.label("own_file");
            let v = Variant { mode: BuildMode::Builder, order_keys: vec![] };
            let Some(o) = skip_unserializable(outputs(&case.forest, &v), ctx)? else { return Ok(()) };
            (o[0].clone(), Some(o[3].clone()))
        }
        Source::Foreign(plan) => {
            ctx.label("foreign_file");
            let complete = binbuild::complete_columns(&case.forest);
            let built = binbuild::encode(&complete, plan, Dialect::implementation()).map_err(|e| Fail::new("harness-encode", e))?;
            (built.bytes, None)
        }
    };
    // binary: S1 = save(load(F)), S2 = save(load(S1))
    for (comp, cname) in COMPRESSIONS {
        let d0 = read_binary(&bin_f)?;
        let s1 = save_binary(&d0, comp)?;
        let s2 = save_binary(&read_binary(&s1)?, comp)?;
        ensure!(s1 == s2, format!("resave:binary-not-a-fixed-point:{cname}"), "saving a just-loaded binary file twice gives different bytes ({} vs {})", s1.len(), s2.len());
        ctx.label_if(s1 == bin_f, "first_save_already_identical");
    }
    if let Some(xml_f) = xml_f {
        let dec = || Pairing::Unknown.options().1;
        let d0 = read_xml(&xml_f, dec())?;
        let s1 = save_xml(&d0)?;
        let s2 = save_xml(&read_xml(&s1, dec())?)?;
        ensure!(s1 == s2, "resave:xml-not-a-fixed-point", "saving a just-loaded XML file twice gives different text");
        // and across formats: binary -> xml -> xml
        let via = save_xml(&read_binary(&bin_f)?)?;
        let via2 = save_xml(&read_xml(&via, dec())?)?;
        ensure!(via == via2, "resave:xml-from-binary-not-a-fixed-point", "XML saved from a binary-loaded DOM is not stable under re-save");
    }
    Ok(())
}

pub fn run(ctx: &Ctx) -> PropertyReport {
    let mut rep = PropertyReport::new(
        "C07",
        "exploration",
        "(1) in-process: the same logical tree built through 2-4 construction variants (builder tree / one insert per node / insert-then-transfer_within; permuted property insertion \
         order; fresh referents every time) must give byte-identical binary (x3 compressions) and XML output; (2) cross-process: batches are re-serialized by freshly started copies of the \
         harness (own hash seeds per process) and compared byte for byte; (3) re-save: S1 = save(load(F)), S2 = save(load(S1)) must be equal, for F written by rbx_binary / rbx_xml and by the \
         reference encoder. Non-trivial = variants that really differ (>= 2 properties reordered or >= 2 construction paths) on a tree with >= 2 classes or >= 3 nodes.",
    );
    rep.assume("UniqueId properties are pairwise distinct within a DOM (collision regeneration is deliberately random: C12)");
    let sub = crate::engine::replay_subcheck_or_all(ctx);
    if sub.runs("in-process") {
        let cases = ctx.cfg.cases(8000, 250_000);
        let mut r = ctx.run_prop("in-process", cases, || det_case(12), inprocess_body);
        r.floor("property_insertion_order_varied", cases / 20);
        r.floor("construction_path_varied", cases / 20);
        rep.push(r);
    }
    if sub.runs("cross-process") {
        let cases = ctx.cfg.cases(64, 1600);
        let strat = || proptest::collection::vec(det_case(10), 8..20).prop_map(|cases| Batch { cases });
        rep.push(ctx.run_prop("cross-process", cases, strat, crossprocess_body));
    }
    if sub.runs("resave") {
        let cases = ctx.cfg.cases(6000, 200_000);
        let strat = || {
            prop_oneof![
                2 => forest::forest(det_profile(10)).prop_map(|forest| ResaveCase { forest, source: Source::Own }),
                1 => (forest::forest({ let mut p = det_profile(10); p.free_roots = false; p }), super::c04::plan_strategy())
                    .prop_map(|(forest, plan)| ResaveCase { forest, source: Source::Foreign(plan) }),
            ]
        };
        let mut r = ctx.run_prop("resave", cases, strat, resave_body);
        r.floor("foreign_file", cases / 10);
        rep.push(r);
    }
    rep
}
