//! C07 — serializer output is deterministic and stable under re-save.

use std::io::Write;
use std::process::{Command, Stdio};

use proptest::prelude::*;
use serde::{Deserialize, Serialize};

use crate::engine::{CaseCtx, Ctx, Fail, PropResult, PropertyReport};
use crate::gen::forest::{self, BuildMode, GForest};
use crate::gen::vals::TextMode;
use crate::spec::binbuild;
use crate::spec::refbin::Dialect;
use crate::{ensure, fail};

use super::c01::{binary_profile, classify_forest, read_binary, write_binary, COMPRESSIONS};
use super::c02::{read_xml, write_xml, Pairing};

#[derive(Clone, Debug, Serialize, Deserialize)]
pub struct Variant {
    pub mode: BuildMode,
    /// keys ordering the property insertion of every node
    pub order_keys: Vec<u32>,
    /// throw-away properties inserted into and removed from every instance's property map after
    /// construction: the map then has another capacity / tombstones, the tree is the same
    #[serde(default)]
    pub churn: u8,
}

#[derive(Clone, Debug, Serialize, Deserialize)]
pub struct DetCase {
    pub forest: GForest,
    pub variants: Vec<Variant>,
    /// roots named again in the root list (selector of the root, selector of the position): a list
    /// like [a, b, a] is a legal argument of both writers
    #[serde(default)]
    pub repeat: Vec<(u16, u16)>,
}

fn prop_orders(f: &GForest, keys: &[u32]) -> Vec<Vec<usize>> {
    f.nodes
        .iter()
        .enumerate()
        .map(|(ni, n)| {
            let mut idx: Vec<usize> = (0..n.props.len()).collect();
            if !keys.is_empty() {
                idx.sort_by_key(|i| {
                    keys[(ni + *i) % keys.len()]
                        .wrapping_mul(2654435761)
                        .wrapping_add((*i as u32) << 3)
                });
            }
            idx
        })
        .collect()
}

/// The four outputs (binary x3 compressions, XML with WriteUnknown) of one construction.
pub fn outputs(f: &GForest, v: &Variant) -> Result<Vec<Vec<u8>>, Fail> {
    outputs_with(f, v, &[])
}

pub fn outputs_with(f: &GForest, v: &Variant, repeat: &[(u16, u16)]) -> Result<Vec<Vec<u8>>, Fail> {
    let orders = prop_orders(f, &v.order_keys);
    let mut built = forest::build(f, v.mode, Some(&orders));
    let mut roots = built.root_refs(f);
    for (which, at) in repeat {
        if !roots.is_empty() {
            let r = roots[(*which as usize * roots.len()) >> 16];
            let pos = (*at as usize * (roots.len() + 1)) >> 16;
            roots.insert(pos, r);
        }
    }
    if v.churn > 0 {
        let all: Vec<rbx_types::Ref> = built.refs.clone(); // (a DOM without a root has no descendants() to walk)
        for r in all {
            let inst = built.dom.get_by_ref_mut(r).unwrap();
            for k in 0..v.churn {
                inst.properties.insert(format!("__churn{k}").as_str().into(), rbx_types::Variant::Bool(false));
            }
            for k in 0..v.churn {
                inst.properties.remove(&rbx_dom_weak::ustr(&format!("__churn{k}")));
            }
        }
    }
    let mut out = Vec::new();
    for (comp, _) in COMPRESSIONS {
        out.push(write_binary(&built.dom, &roots, comp)?);
    }
    out.push(write_xml(&built.dom, &roots, Pairing::Unknown.options().0)?);
    Ok(out)
}

pub fn det_profile(max_nodes: usize) -> forest::ForestProfile {
    let mut p = binary_profile(max_nodes);
    // both codecs are in the loop: XML-legal text, XML-supported types, no Content::Object
    p.vals = crate::gen::vals::ValProfile::xml();
    p.vals.min_keypoints = 2;
    p.types = crate::gen::vals::xml_types()
        .into_iter()
        .filter(|t| crate::gen::vals::binary_types().contains(t))
        .collect();
    p.ident_text = TextMode::Xml;
    // the reference encoder of the foreign-file leg takes declared types only
    p.narrow_numbers = false;
    p
}

/// `det_profile` plus nodes that carry several spellings of one property at once.
pub fn det_profile_multi(max_nodes: usize) -> forest::ForestProfile {
    let mut p = det_profile(max_nodes);
    p.multi_spelling = true;
    p
}

pub fn variant_strategy() -> BoxedStrategy<Variant> {
    (
        prop_oneof![Just(BuildMode::Builder), Just(BuildMode::InsertEach), Just(BuildMode::InsertThenMove), Just(BuildMode::Rootless)],
        proptest::collection::vec(any::<u32>(), 0..6),
        prop_oneof![3 => Just(0u8), 2 => 1u8..40],
    )
        .prop_map(|(mode, order_keys, churn)| Variant { mode, order_keys, churn })
        .boxed()
}

pub fn det_case(max_nodes: usize) -> BoxedStrategy<DetCase> {
    (
        forest::forest(det_profile_multi(max_nodes)),
        proptest::collection::vec(variant_strategy(), 2..5),
        prop_oneof![4 => Just(vec![]), 1 => proptest::collection::vec((any::<u16>(), any::<u16>()), 1..3)],
    )
        .prop_map(|(forest, variants, repeat)| DetCase { forest, variants, repeat })
        .boxed()
}

fn skip_unserializable(r: Result<Vec<Vec<u8>>, Fail>, ctx: &mut CaseCtx) -> Result<Option<Vec<Vec<u8>>>, Fail> {
    match r {
        Ok(o) => Ok(Some(o)),
        Err(f) if f.key.starts_with("serialize-error") || f.key.starts_with("xml-encode-error") => {
            ctx.excluded("not serializable");
            Ok(None)
        }
        Err(f) => Err(f),
    }
}

const NAMES: [&str; 4] = ["binary-lz4", "binary-none", "binary-zstd", "xml"];

fn classify(case: &DetCase, ctx: &mut CaseCtx) {
    classify_forest(&case.forest, ctx);
    let multi_prop = case.forest.nodes.iter().any(|n| n.props.len() >= 2);
    let modes: std::collections::HashSet<_> = case.variants.iter().map(|v| format!("{:?}", v.mode)).collect();
    let reordered = case.variants.iter().any(|v| !v.order_keys.is_empty());
    let classes: std::collections::HashSet<_> = case.forest.nodes.iter().map(|n| n.class.as_str()).collect();
    ctx.label_if(multi_prop && reordered, "property_insertion_order_varied");
    ctx.label_if(modes.len() >= 2, "construction_path_varied");
    ctx.label_if(classes.len() >= 2, "several_classes");
    ctx.label_if(case.variants.iter().any(|v| v.churn > 0) && case.variants.iter().any(|v| v.churn == 0), "property_map_history_varied");
    let multi_spelled = case.forest.nodes.iter().any(|n| {
        let mut seen = std::collections::HashSet::new();
        n.props.iter().any(|(name, _)| {
            let canon = crate::dbview::resolve(&n.class, name).map(|v| v.roundtrip).unwrap_or_else(|| name.clone());
            !seen.insert(canon)
        })
    });
    ctx.label_if(multi_spelled, "node_with_several_spellings_of_one_property");
    let aliases_only = case.forest.nodes.iter().any(|n| {
        let mut by_canon: std::collections::HashMap<String, (usize, bool)> = Default::default();
        for (name, _) in &n.props {
            if let Some(v) = crate::dbview::resolve(&n.class, name) {
                let e = by_canon.entry(v.roundtrip.clone()).or_default();
                e.0 += 1;
                e.1 |= !v.is_alias;
            }
        }
        by_canon.values().any(|(k, has_canonical)| *k >= 2 && !has_canonical)
    });
    ctx.label_if(aliases_only, "node_with_two_aliases_and_no_canonical_spelling");
    ctx.nontrivial_if(((multi_prop && reordered) || modes.len() >= 2) && (classes.len() >= 2 || case.forest.nodes.len() >= 3));
}

fn inprocess_body(case: &DetCase, ctx: &mut CaseCtx) -> PropResult {
    classify(case, ctx);
    ctx.label_if(!case.repeat.is_empty() && case.forest.roots.len() >= 2, "root_named_twice_among_several");
    let Some(base) = skip_unserializable(outputs_with(&case.forest, &case.variants[0], &case.repeat), ctx)? else { return Ok(()) };
    for v in &case.variants[1..] {
        let Some(o) = skip_unserializable(outputs_with(&case.forest, v, &case.repeat), ctx)? else { return Ok(()) };
        for k in 0..4 {
            ensure!(
                o[k] == base[k],
                format!("determinism:in-process:{}", NAMES[k]),
                "{} output differs between construction {:?} and {:?} of the same logical tree ({} vs {} bytes)",
                NAMES[k],
                case.variants[0],
                v,
                base[k].len(),
                o[k].len()
            );
        }
        ctx.add_evals(1);
    }
    Ok(())
}

// ---------------------------------------------------------------------------
// cross-process: the harness re-executes itself (`rbxverif emit`); every process has
// its own hash seeds

pub fn emit_main() -> ! {
    let mut text = String::new();
    std::io::Read::read_to_string(&mut std::io::stdin(), &mut text).expect("stdin");
    let cases: Vec<DetCase> = serde_json::from_str(&text).expect("cases");
    let mut out = Vec::new();
    for case in &cases {
        let o = outputs_with(&case.forest, &case.variants[0], &case.repeat);
        out.push(match o {
            Ok(o) => Some(o),
            Err(_) => None,
        });
    }
    let s = serde_json::to_vec(&out).unwrap();
    std::io::stdout().write_all(&s).unwrap();
    std::process::exit(0);
}

#[derive(Clone, Debug, Serialize, Deserialize)]
pub struct Batch {
    pub cases: Vec<DetCase>,
}

fn run_emit(cases: &[DetCase]) -> Result<Vec<Option<Vec<Vec<u8>>>>, Fail> {
    let exe = crate::engine::own_exe();
    let mut child = Command::new(exe)
        .arg("emit")
        .stdin(Stdio::piped())
        .stdout(Stdio::piped())
        .stderr(Stdio::null())
        .spawn()
        .map_err(|e| Fail::new("harness:emit", e.to_string()))?;
    let input = serde_json::to_vec(cases).unwrap();
    let mut stdin = child.stdin.take().unwrap();
    let writer = std::thread::spawn(move || {
        let _ = stdin.write_all(&input);
    });
    let out = child.wait_with_output().map_err(|e| Fail::new("harness:emit", e.to_string()))?;
    let _ = writer.join();
    serde_json::from_slice(&out.stdout).map_err(|e| Fail::new("harness:emit", format!("child output unreadable: {e}")))
}

fn crossprocess_body(batch: &Batch, ctx: &mut CaseCtx) -> PropResult {
    for c in &batch.cases {
        classify(c, ctx);
    }
    let mine: Vec<Option<Vec<Vec<u8>>>> = batch
        .cases
        .iter()
        .map(|c| outputs_with(&c.forest, &c.variants[0], &c.repeat).ok())
        .collect();
    for round in 0..2 {
        let theirs = run_emit(&batch.cases)?;
        ensure!(theirs.len() == mine.len(), "harness:emit", "child answered {} of {} cases", theirs.len(), mine.len());
        for (i, (a, b)) in mine.iter().zip(theirs.iter()).enumerate() {
            match (a, b) {
                (Some(a), Some(b)) => {
                    for k in 0..4 {
                        ensure!(
                            a[k] == b[k],
                            format!("determinism:cross-process:{}", NAMES[k]),
                            "{} output of case #{i} differs between two processes (round {round}; {} vs {} bytes)",
                            NAMES[k],
                            a[k].len(),
                            b[k].len()
                        );
                    }
                }
                (None, None) => {}
                _ => fail!("determinism:cross-process:success", "case #{i} serializes in one process and fails in another"),
            }
        }
        ctx.add_evals(batch.cases.len() as u64);
    }
    Ok(())
}

// ---------------------------------------------------------------------------
// re-save fixed point

#[derive(Clone, Debug, Serialize, Deserialize)]
pub enum Source {
    Own,
    Foreign(binbuild::Plan),
}

#[derive(Clone, Debug, Serialize, Deserialize)]
pub struct ResaveCase {
    pub forest: GForest,
    pub source: Source,
}

fn save_binary(dom: &rbx_dom_weak::WeakDom, comp: rbx_binary::CompressionType) -> Result<Vec<u8>, Fail> {
    write_binary(dom, dom.root().children(), comp)
}

fn save_xml(dom: &rbx_dom_weak::WeakDom) -> Result<Vec<u8>, Fail> {
    write_xml(dom, dom.root().children(), Pairing::Unknown.options().0)
}

fn resave_body(case: &ResaveCase, ctx: &mut CaseCtx) -> PropResult {
    classify_forest(&case.forest, ctx);
    ctx.nontrivial_if(case.forest.nodes.len() >= 2);
    // F: the first file
    let (bin_f, xml_f) = match &case.source {
        Source::Own => {
            ctx.label("own_file");
            let v = Variant { mode: BuildMode::Builder, order_keys: vec![], churn: 0 };
            let Some(o) = skip_unserializable(outputs(&case.forest, &v), ctx)? else { return Ok(()) };
            (o[0].clone(), Some(o[3].clone()))
        }
        Source::Foreign(plan) => {
            ctx.label("foreign_file");
            let complete = binbuild::complete_columns(&case.forest);
            let built = binbuild::encode(&complete, plan, Dialect::implementation()).map_err(|e| Fail::new("harness-encode", e))?;
            (built.bytes, None)
        }
    };
    // binary: S1 = save(load(F)), S2 = save(load(S1))
    for (comp, cname) in COMPRESSIONS {
        let d0 = read_binary(&bin_f)?;
        let s1 = save_binary(&d0, comp)?;
        let s2 = save_binary(&read_binary(&s1)?, comp)?;
        ensure!(s1 == s2, format!("resave:binary-not-a-fixed-point:{cname}"), "saving a just-loaded binary file twice gives different bytes ({} vs {})", s1.len(), s2.len());
        ctx.label_if(s1 == bin_f, "first_save_already_identical");
    }
    if let Some(xml_f) = xml_f {
        let dec = || Pairing::Unknown.options().1;
        let d0 = read_xml(&xml_f, dec())?;
        let s1 = save_xml(&d0)?;
        let s2 = save_xml(&read_xml(&s1, dec())?)?;
        ensure!(s1 == s2, "resave:xml-not-a-fixed-point", "saving a just-loaded XML file twice gives different text");
        // and across formats: binary -> xml -> xml
        let via = save_xml(&read_binary(&bin_f)?)?;
        let via2 = save_xml(&read_xml(&via, dec())?)?;
        ensure!(via == via2, "resave:xml-from-binary-not-a-fixed-point", "XML saved from a binary-loaded DOM is not stable under re-save");
    }
    Ok(())
}

// ---------------------------------------------------------------------------
// history independence: what the thread serialized (or failed to serialize) before must not matter

#[derive(Clone, Debug, Serialize, Deserialize)]
pub enum Interference {
    /// a successful save of another tree
    SaveOther { forest: GForest, variant: Variant },
    /// binary save that fails inside attribute encoding (an attribute of a type the format has no encoding for)
    AttrFails { good_before: u8 },
    /// save of a known property holding a value of the wrong type
    TypeMismatch { xml: bool },
    /// save of another tree into a sink that fails after `after` bytes
    SinkFails { forest: GForest, xml: bool, after: u16 },
}

#[derive(Clone, Debug, Serialize, Deserialize)]
pub struct HistoryCase {
    pub forest: GForest,
    pub between: Vec<Interference>,
}

struct ShortSink {
    budget: usize,
}

impl Write for ShortSink {
    fn write(&mut self, buf: &[u8]) -> std::io::Result<usize> {
        if self.budget == 0 && !buf.is_empty() {
            return Err(std::io::Error::new(std::io::ErrorKind::Other, "injected sink failure"));
        }
        let n = buf.len().min(self.budget);
        self.budget -= n;
        Ok(n)
    }
    fn flush(&mut self) -> std::io::Result<()> {
        Ok(())
    }
}

/// Failed saves on the calling thread before a case of another check (C01, C02, C03, C06): a
/// serializer that keeps state across calls then corrupts the next, valid, save, and that check's
/// own oracle sees it. `k` selects which failures; returns how many saves failed.
pub fn provoke_failed_saves(k: u64) -> usize {
    let tiny = |v: u64| GForest {
        nodes: vec![crate::gen::forest::GNode {
            parent: None,
            class: "Part".into(),
            name: "p".into(),
            props: vec![
                ("Anchored".into(), crate::gen::vals::GVal::Bool(true)),
                ("Transparency".into(), crate::gen::vals::GVal::Float32((v as f32 * 0.125).to_bits())),
                ("Tags".into(), crate::gen::vals::GVal::Tags(vec!["a".into(), "b".into()])),
                ("Attributes".into(), crate::gen::vals::GVal::Attributes(vec![("n".into(), crate::gen::vals::GVal::Float64(1.5f64.to_bits()))])),
            ],
        }],
        roots: vec![0],
    };
    let mut failed = 0;
    let plan = [
        Interference::AttrFails { good_before: (k % 3) as u8 },
        Interference::TypeMismatch { xml: false },
        Interference::TypeMismatch { xml: true },
        Interference::SinkFails { forest: tiny(k), xml: false, after: (40 + k % 200) as u16 },
        Interference::SinkFails { forest: tiny(k), xml: true, after: (200 + k % 400) as u16 },
    ];
    for (i, p) in plan.iter().enumerate() {
        if (k >> (8 + i)) & 1 == 1 || i as u64 == k % 5 {
            if interfere(p) {
                failed += 1;
            }
        }
    }
    failed
}

/// true = the save failed (as intended for the failing kinds)
fn interfere(i: &Interference) -> bool {
    use rbx_dom_weak::{InstanceBuilder, WeakDom};
    use rbx_types::{Attributes, Variant as V};
    match i {
        Interference::SaveOther { forest, variant } => outputs(forest, variant).is_err(),
        Interference::AttrFails { good_before } => {
            let mut a = Attributes::new();
            for k in 0..*good_before {
                a.insert(format!("a{k}"), V::Float64(k as f64 + 0.5));
            }
            a.insert("zz_unencodable".into(), V::Ref(rbx_types::Ref::new()));
            let dom = WeakDom::new(InstanceBuilder::new("Folder").with_property("Attributes", a));
            let r = crate::engine::catch(|| {
                let mut out = Vec::new();
                rbx_binary::to_writer(&mut out, &dom, &[dom.root_ref()]).is_err()
            });
            r.unwrap_or(true)
        }
        Interference::TypeMismatch { xml } => {
            let dom = WeakDom::new(
                InstanceBuilder::new("Part")
                    .with_property("Attributes", {
                        let mut a = Attributes::new();
                        a.insert("k".into(), V::Bool(true));
                        a
                    })
                    .with_property("Anchored", V::String("not a bool".into()))
                    .with_property("Transparency", V::Vector3(rbx_types::Vector3::new(1.0, 2.0, 3.0))),
            );
            let r = crate::engine::catch(|| {
                let mut out = Vec::new();
                if *xml {
                    rbx_xml::to_writer_default(&mut out, &dom, &[dom.root_ref()]).is_err()
                } else {
                    rbx_binary::to_writer(&mut out, &dom, &[dom.root_ref()]).is_err()
                }
            });
            r.unwrap_or(true)
        }
        Interference::SinkFails { forest, xml, after } => {
            let built = forest::build(forest, BuildMode::Builder, None);
            let roots = built.root_refs(forest);
            let r = crate::engine::catch(|| {
                let sink = ShortSink { budget: *after as usize };
                if *xml {
                    rbx_xml::to_writer(sink, &built.dom, &roots, Pairing::Unknown.options().0).is_err()
                } else {
                    rbx_binary::to_writer(sink, &built.dom, &roots).is_err()
                }
            });
            r.unwrap_or(true)
        }
    }
}

fn history_body(case: &HistoryCase, ctx: &mut CaseCtx) -> PropResult {
    classify_forest(&case.forest, ctx);
    let v = Variant { mode: BuildMode::Builder, order_keys: vec![], churn: 0 };
    let Some(before) = skip_unserializable(outputs(&case.forest, &v), ctx)? else { return Ok(()) };
    let mut failed = 0;
    for i in &case.between {
        if interfere(i) {
            failed += 1;
            ctx.label(match i {
                Interference::SaveOther { .. } => "between:other_save_failed",
                Interference::AttrFails { .. } => "between:attribute_encoding_failed",
                Interference::TypeMismatch { .. } => "between:type_mismatch_failed",
                Interference::SinkFails { .. } => "between:sink_failed",
            });
        }
    }
    ctx.label_if(failed > 0, "failed_save_in_between");
    let has_blob = case.forest.nodes.iter().any(|n| {
        n.props.iter().any(|(_, v)| matches!(v, crate::gen::vals::GVal::Attributes(_) | crate::gen::vals::GVal::SharedString(_) | crate::gen::vals::GVal::Tags(_)))
    });
    ctx.nontrivial_if(failed > 0 && has_blob);
    let after = match outputs(&case.forest, &v) {
        Ok(o) => o,
        Err(f) => fail!("determinism:history:success", "a tree that serialized before other saves on this thread no longer does: {}", f.msg),
    };
    for k in 0..4 {
        ensure!(
            after[k] == before[k],
            format!("determinism:history:{}", NAMES[k]),
            "{} output of one tree differs before and after {} other save(s) ({failed} failed) on the same thread ({} vs {} bytes)",
            NAMES[k],
            case.between.len(),
            before[k].len(),
            after[k].len()
        );
    }
    ctx.add_evals(1);
    Ok(())
}

fn history_strategy() -> BoxedStrategy<HistoryCase> {
    let small = || forest::forest(det_profile(4));
    let interference = prop_oneof![
        2 => (small(), variant_strategy()).prop_map(|(forest, variant)| Interference::SaveOther { forest, variant }),
        2 => (0u8..4).prop_map(|good_before| Interference::AttrFails { good_before }),
        1 => any::<bool>().prop_map(|xml| Interference::TypeMismatch { xml }),
        2 => (small(), any::<bool>(), 0u16..600).prop_map(|(forest, xml, after)| Interference::SinkFails { forest, xml, after }),
    ];
    (forest::forest(det_profile(8)), proptest::collection::vec(interference, 1..4))
        .prop_map(|(forest, between)| HistoryCase { forest, between })
        .boxed()
}

pub fn run(ctx: &Ctx) -> PropertyReport {
    let mut rep = PropertyReport::new(
        "C07",
        "exploration",
        "(1) in-process: the same logical tree built through 2-4 construction variants (builder tree / one insert per node / insert-then-transfer_within; permuted property insertion \
         order; fresh referents every time) must give byte-identical binary (x3 compressions) and XML output; (2) cross-process: batches are re-serialized by freshly started copies of the \
         harness (own hash seeds per process) and compared byte for byte; (3) history: one tree is saved, then 1-3 other saves run on the same thread (successful ones, and ones that fail inside attribute encoding, on a type mismatch, or because \
         the sink fails after N bytes), then the tree is saved again: same bytes; (4) re-save: S1 = save(load(F)), S2 = save(load(S1)) must be equal, for F written by rbx_binary / rbx_xml and by the \
         reference encoder. Non-trivial = variants that really differ (>= 2 properties reordered or >= 2 construction paths) on a tree with >= 2 classes or >= 3 nodes.",
    );
    rep.assume("UniqueId properties are pairwise distinct within a DOM (collision regeneration is deliberately random: C12)");
    let sub = crate::engine::replay_subcheck_or_all(ctx);
    if sub.runs("in-process") {
        let cases = ctx.cfg.cases(24_000, 400_000);
        let mut r = ctx.run_prop("in-process", cases, || det_case(12), inprocess_body);
        r.floor("property_insertion_order_varied", cases / 20);
        r.floor("construction_path_varied", cases / 20);
        r.floor("property_map_history_varied", cases / 20);
        r.floor("node_with_several_spellings_of_one_property", cases / 50);
        rep.push(r);
    }
    if sub.runs("cross-process") {
        let cases = ctx.cfg.cases(200, 3000);
        let strat = || proptest::collection::vec(det_case(10), 8..20).prop_map(|cases| Batch { cases });
        rep.push(ctx.run_prop("cross-process", cases, strat, crossprocess_body));
    }
    if sub.runs("history") {
        let cases = ctx.cfg.cases(16_000, 300_000);
        let mut r = ctx.run_prop("history", cases, history_strategy, history_body);
        r.floor("failed_save_in_between", cases / 4);
        r.floor("between:attribute_encoding_failed", cases / 20);
        r.floor("between:sink_failed", cases / 20);
        rep.push(r);
    }
    if sub.runs("resave") {
        let cases = ctx.cfg.cases(16_000, 300_000);
        let strat = || {
            prop_oneof![
                2 => forest::forest(det_profile(10)).prop_map(|forest| ResaveCase { forest, source: Source::Own }),
                1 => (forest::forest({ let mut p = det_profile(10); p.free_roots = false; p }), super::c04::plan_strategy())
                    .prop_map(|(forest, plan)| ResaveCase { forest, source: Source::Foreign(plan) }),
            ]
        };
        let mut r = ctx.run_prop("resave", cases, strat, resave_body);
        r.floor("foreign_file", cases / 10);
        rep.push(r);
    }
    rep
}
